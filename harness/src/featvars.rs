//! `vh featvars`: see /verif/docs/MODULE_CONTRACT.md

pub fn run(_args: &[String]) -> i32 {
    eprintln!("vh featvars: not implemented yet");
    2
}
