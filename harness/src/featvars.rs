//! `vh featvars`: binding of spec/FeatVars.tla (property C16) to the real code.
//!
//! Reads one JSON request per stdin line (or from the file given as first argument) and writes one
//! JSON result line per request. All coordinates are integers in F2Dot14 units (16384 = 1.0) so that
//! nothing here needs floating point comparisons.
//!
//! request:
//!   { "id": "...", "nax": 1|2,
//!     "rules": [ { "conds": [ [ {"ax":1,"lo":-8192,"hi":16384,"hasLo":true,"hasHi":false}, ..], ..],
//!                  "subs": {"a":"a1", ..} }, .. ],
//!     "pts": [ [x1(,x2)], .. ],            sample points (normalized, F2Dot14 units)
//!     "api": true|false,                   call fontir::feature_variations::overlay_feature_variations
//!     "compile": true|false, "dir": "..."  full compile from a generated designspace in `dir` }
//!
//! result:
//!   { "id", "api": {"outcome":"ok|panic", "boxes":[{"box":[[ax,lo,hi],..],"subs":[{..},..]},..]},
//!     "font": {"outcome":"ok|error|panic|unsupported", "message", "records":[..], "lookups":{..},
//!              "features":[..], "obs":[{"a":"a1"},..] (one per point, same order) } }
//!
//! The only interpretation done here is the OpenType one for the *font*: first matching
//! FeatureVariationRecord -> FeatureTableSubstitution -> lookups of the active features applied in
//! lookup-list order to a single glyph. Everything about the API result is interpreted by the spec.

use std::{
    collections::{BTreeMap, BTreeSet},
    io::{BufRead, Write},
    path::{Path, PathBuf},
};

use fontdrasil::{coords::NormalizedCoord, types::GlyphName};
use fontir::feature_variations::{NBox, Region, overlay_feature_variations};
use serde::Deserialize;
use serde_json::{Value, json};
use write_fonts::{
    read::{
        FontRef, TableProvider,
        tables::{
            gsub::{SingleSubst, SubstitutionSubtables},
            layout::Condition,
        },
    },
    types::{GlyphId16, Tag},
};

use crate::compile::{CompileReq, compile, panic_message};

const UNIT: f64 = 16384.0;
/// axis index (1-based in requests) -> tag; tag order == index order, so BTreeMap<Tag,..> iteration
/// order is the axis index order.
const AXIS_TAGS: [&[u8; 4]; 2] = [b"wdth", b"wght"];
const AXIS_NAMES: [&str; 2] = ["Width", "Weight"];

#[derive(Debug, Clone, Deserialize)]
struct CondJ {
    ax: usize,
    lo: i32,
    hi: i32,
    #[serde(rename = "hasLo")]
    has_lo: bool,
    #[serde(rename = "hasHi")]
    has_hi: bool,
}

#[derive(Debug, Clone, Deserialize)]
struct RuleJ {
    conds: Vec<Vec<CondJ>>,
    subs: BTreeMap<String, String>,
}

#[derive(Debug, Clone, Deserialize)]
struct Req {
    id: String,
    nax: usize,
    rules: Vec<RuleJ>,
    #[serde(default)]
    pts: Vec<Vec<i32>>,
    #[serde(default)]
    api: bool,
    #[serde(default)]
    compile: bool,
    #[serde(default)]
    dir: String,
    /// keep the generated designspace + font (replays)
    #[serde(default)]
    keep: bool,
}

fn tag(ax: usize) -> Tag {
    Tag::new(AXIS_TAGS[ax - 1])
}

fn units(c: NormalizedCoord) -> i64 {
    (c.to_f64() * UNIT).round() as i64
}

// ---------------------------------------------------------------------------------------- API

fn call_api(req: &Req) -> Value {
    let rules = req.rules.clone();
    let result = std::panic::catch_unwind(move || {
        let mut input = Vec::new();
        for rule in &rules {
            let mut boxes = Vec::new();
            for cs in &rule.conds {
                let mut nbox = NBox::default();
                for c in cs {
                    let lo = c.has_lo.then(|| NormalizedCoord::new(c.lo as f64 / UNIT));
                    let hi = c.has_hi.then(|| NormalizedCoord::new(c.hi as f64 / UNIT));
                    nbox.insert(tag(c.ax), lo, hi);
                }
                boxes.push(nbox);
            }
            let subs: BTreeMap<GlyphName, GlyphName> = rule
                .subs
                .iter()
                .map(|(k, v)| (GlyphName::new(k), GlyphName::new(v)))
                .collect();
            input.push((Region::from(boxes), subs));
        }
        overlay_feature_variations(input)
    });
    match result {
        Ok(out) => {
            let boxes: Vec<Value> = out
                .iter()
                .map(|(nbox, subs)| {
                    let b: Vec<Value> = nbox
                        .iter()
                        .map(|(t, (lo, hi))| {
                            let ax = AXIS_TAGS
                                .iter()
                                .position(|x| Tag::new(x) == t)
                                .map(|i| i as i64 + 1)
                                .unwrap_or(-1);
                            json!([ax, units(lo), units(hi)])
                        })
                        .collect();
                    let s: Vec<Value> = subs
                        .iter()
                        .map(|m| {
                            Value::Object(
                                m.iter()
                                    .map(|(k, v)| (k.to_string(), Value::String(v.to_string())))
                                    .collect(),
                            )
                        })
                        .collect();
                    json!({"box": b, "subs": s})
                })
                .collect();
            json!({"outcome": "ok", "boxes": boxes})
        }
        Err(p) => json!({"outcome": "panic", "message": panic_message(p)}),
    }
}

// ---------------------------------------------------------------------------------------- sources

/// design coordinate of a normalized F2Dot14-unit value: axis min 0, default 16384, max 32768,
/// user == design, so normalized = (design - 16384) / 16384 exactly.
fn design(v: i32) -> i32 {
    v + 16384
}

fn glyph_names(req: &Req) -> Vec<String> {
    let mut names: Vec<String> = ["a", "a1", "a2", "b", "b1"].iter().map(|s| s.to_string()).collect();
    let mut extra = BTreeSet::new();
    for r in &req.rules {
        for (k, v) in &r.subs {
            extra.insert(k.clone());
            extra.insert(v.clone());
        }
    }
    for e in extra {
        if !names.contains(&e) {
            names.push(e);
        }
    }
    names
}

fn write_if_changed(path: &Path, text: &str) -> std::io::Result<()> {
    if let Ok(old) = std::fs::read_to_string(path)
        && old == text
    {
        return Ok(());
    }
    if let Some(p) = path.parent() {
        std::fs::create_dir_all(p)?;
    }
    std::fs::write(path, text)
}

const PLIST_HEAD: &str = "<?xml version='1.0' encoding='UTF-8'?>\n<!DOCTYPE plist PUBLIC \"-//Apple//DTD PLIST 1.0//EN\" \"http://www.apple.com/DTDs/PropertyList-1.0.dtd\">\n<plist version=\"1.0\">\n";

fn glif_file_name(name: &str) -> String {
    // all generated names are lower case ascii + digits
    format!("{name}.glif")
}

fn write_ufo(dir: &Path, names: &[String]) -> std::io::Result<()> {
    write_if_changed(
        &dir.join("metainfo.plist"),
        &format!(
            "{PLIST_HEAD}<dict><key>creator</key><string>vh.featvars</string><key>formatVersion</key><integer>3</integer></dict></plist>\n"
        ),
    )?;
    write_if_changed(
        &dir.join("fontinfo.plist"),
        &format!(
            "{PLIST_HEAD}<dict><key>unitsPerEm</key><integer>1000</integer><key>ascender</key><integer>800</integer><key>descender</key><integer>-200</integer><key>xHeight</key><integer>500</integer><key>capHeight</key><integer>700</integer><key>familyName</key><string>FeatVars</string><key>styleName</key><string>Regular</string></dict></plist>\n"
        ),
    )?;
    write_if_changed(
        &dir.join("layercontents.plist"),
        &format!(
            "{PLIST_HEAD}<array><array><string>public.default</string><string>glyphs</string></array></array></plist>\n"
        ),
    )?;
    let mut order = String::new();
    let mut contents = String::new();
    for (i, n) in names.iter().enumerate() {
        order.push_str(&format!("<string>{n}</string>"));
        contents.push_str(&format!("<key>{n}</key><string>{}</string>", glif_file_name(n)));
        let uni = match n.as_str() {
            "a" => "<unicode hex=\"0061\"/>",
            "b" => "<unicode hex=\"0062\"/>",
            _ => "",
        };
        let w = 300 + 10 * i;
        write_if_changed(
            &dir.join("glyphs").join(glif_file_name(n)),
            &format!(
                "<?xml version='1.0' encoding='UTF-8'?>\n<glyph name=\"{n}\" format=\"2\">\n<advance width=\"{w}\"/>{uni}\n<outline><contour><point x=\"50\" y=\"0\" type=\"line\"/><point x=\"{x}\" y=\"0\" type=\"line\"/><point x=\"{x}\" y=\"{y}\" type=\"line\"/><point x=\"50\" y=\"{y}\" type=\"line\"/></contour></outline>\n</glyph>\n",
                x = w - 50,
                y = 100 + 20 * i
            ),
        )?;
    }
    write_if_changed(
        &dir.join("lib.plist"),
        &format!("{PLIST_HEAD}<dict><key>public.glyphOrder</key><array>{order}</array></dict></plist>\n"),
    )?;
    write_if_changed(
        &dir.join("glyphs").join("contents.plist"),
        &format!("{PLIST_HEAD}<dict>{contents}</dict></plist>\n"),
    )?;
    Ok(())
}

fn designspace_text(req: &Req, ufo_names: &[String]) -> String {
    let mut s = String::from("<?xml version='1.0' encoding='UTF-8'?>\n<designspace format=\"5.0\">\n  <axes>\n");
    for ax in 0..req.nax {
        s.push_str(&format!(
            "    <axis tag=\"{}\" name=\"{}\" minimum=\"0\" maximum=\"32768\" default=\"16384\"/>\n",
            std::str::from_utf8(AXIS_TAGS[ax]).unwrap(),
            AXIS_NAMES[ax]
        ));
    }
    s.push_str("  </axes>\n  <rules>\n");
    for (i, r) in req.rules.iter().enumerate() {
        s.push_str(&format!("    <rule name=\"r{}\">\n", i + 1));
        for cs in &r.conds {
            s.push_str("      <conditionset>\n");
            for c in cs {
                s.push_str(&format!("        <condition name=\"{}\"", AXIS_NAMES[c.ax - 1]));
                if c.has_lo {
                    s.push_str(&format!(" minimum=\"{}\"", design(c.lo)));
                }
                if c.has_hi {
                    s.push_str(&format!(" maximum=\"{}\"", design(c.hi)));
                }
                s.push_str("/>\n");
            }
            s.push_str("      </conditionset>\n");
        }
        for (k, v) in &r.subs {
            s.push_str(&format!("      <sub name=\"{k}\" with=\"{v}\"/>\n"));
        }
        s.push_str("    </rule>\n");
    }
    s.push_str("  </rules>\n  <sources>\n");
    // default master + both ends of every axis
    let mut locs: Vec<Vec<i32>> = vec![vec![16384; req.nax]];
    for ax in 0..req.nax {
        for v in [0, 32768] {
            let mut l = vec![16384; req.nax];
            l[ax] = v;
            locs.push(l);
        }
    }
    for (i, l) in locs.iter().enumerate() {
        s.push_str(&format!(
            "    <source filename=\"{}\" name=\"m{i}\" familyname=\"FeatVars\" stylename=\"S{i}\">\n      <location>\n",
            ufo_names[i]
        ));
        for ax in 0..req.nax {
            s.push_str(&format!(
                "        <dimension name=\"{}\" xvalue=\"{}\"/>\n",
                AXIS_NAMES[ax], l[ax]
            ));
        }
        s.push_str("      </location>\n    </source>\n");
    }
    s.push_str("  </sources>\n</designspace>\n");
    s
}

// ---------------------------------------------------------------------------------------- font

struct FontView {
    /// per record: conditions (axis index 0-based, min, max in F2Dot14 units); substitutions
    /// feature index -> lookup indices
    records: Vec<(Vec<(u16, i32, i32)>, BTreeMap<u16, Vec<u16>>)>,
    /// feature list: tag, lookup indices
    features: Vec<(String, Vec<u16>)>,
    /// lookup index -> single substitutions by glyph id
    lookups: BTreeMap<u16, Vec<BTreeMap<u16, u16>>>,
    names: Vec<String>,
}

fn read_font(bytes: &[u8]) -> Result<FontView, String> {
    let font = FontRef::new(bytes).map_err(|e| format!("font: {e}"))?;
    let nglyphs = font.maxp().map_err(|e| format!("maxp: {e}"))?.num_glyphs();
    let post = font.post().map_err(|e| format!("post: {e}"))?;
    let names: Vec<String> = (0..nglyphs)
        .map(|g| {
            post.glyph_name(GlyphId16::new(g))
                .map(|s| s.to_string())
                .unwrap_or_else(|| format!("gid{g}"))
        })
        .collect();
    let mut view = FontView { records: vec![], features: vec![], lookups: BTreeMap::new(), names };
    let Ok(gsub) = font.gsub() else {
        // no GSUB at all: nothing is ever substituted
        return Ok(view);
    };
    let flist = gsub.feature_list().map_err(|e| format!("feature list: {e}"))?;
    for rec in flist.feature_records() {
        let f = rec.feature(flist.offset_data()).map_err(|e| format!("feature: {e}"))?;
        view.features.push((
            rec.feature_tag().to_string(),
            f.lookup_list_indices().iter().map(|x| x.get()).collect(),
        ));
    }
    let llist = gsub.lookup_list().map_err(|e| format!("lookup list: {e}"))?;
    for (i, lk) in llist.lookups().iter().enumerate() {
        let lk = lk.map_err(|e| format!("lookup {i}: {e}"))?;
        let subtables = lk.subtables().map_err(|e| format!("lookup {i}: {e}"))?;
        let SubstitutionSubtables::Single(subs) = subtables else {
            return Err(format!("UNSUPPORTED lookup {i} has type {}", lk.lookup_type()));
        };
        let mut tables = Vec::new();
        for st in subs.iter() {
            let st = st.map_err(|e| format!("lookup {i} subtable: {e}"))?;
            let mut m = BTreeMap::new();
            match st {
                SingleSubst::Format1(t) => {
                    let cov = t.coverage().map_err(|e| format!("coverage: {e}"))?;
                    let d = t.delta_glyph_id();
                    for g in cov.iter() {
                        m.insert(g.to_u16(), (g.to_u16() as i32 + d as i32).rem_euclid(65536) as u16);
                    }
                }
                SingleSubst::Format2(t) => {
                    let cov = t.coverage().map_err(|e| format!("coverage: {e}"))?;
                    for (g, s) in cov.iter().zip(t.substitute_glyph_ids()) {
                        m.insert(g.to_u16(), s.get().to_u16());
                    }
                }
            }
            tables.push(m);
        }
        view.lookups.insert(i as u16, tables);
    }
    if let Some(fv) = gsub.feature_variations() {
        let fv = fv.map_err(|e| format!("feature variations: {e}"))?;
        let data = fv.offset_data();
        for rec in fv.feature_variation_records() {
            let mut conds = Vec::new();
            if let Some(cs) = rec.condition_set(data) {
                let cs = cs.map_err(|e| format!("condition set: {e}"))?;
                for c in cs.conditions().iter() {
                    match c.map_err(|e| format!("condition: {e}"))? {
                        Condition::Format1AxisRange(c) => conds.push((
                            c.axis_index(),
                            c.filter_range_min_value().to_bits() as i32,
                            c.filter_range_max_value().to_bits() as i32,
                        )),
                        _ => return Err("UNSUPPORTED condition format".into()),
                    }
                }
            }
            let mut subst = BTreeMap::new();
            if let Some(fts) = rec.feature_table_substitution(data) {
                let fts = fts.map_err(|e| format!("feature table substitution: {e}"))?;
                for s in fts.substitutions() {
                    let alt = s
                        .alternate_feature(fts.offset_data())
                        .map_err(|e| format!("alternate feature: {e}"))?;
                    // first record for a feature index wins (OpenType: records sorted by index, unique)
                    subst
                        .entry(s.feature_index())
                        .or_insert_with(|| alt.lookup_list_indices().iter().map(|x| x.get()).collect());
                }
            }
            view.records.push((conds, subst));
        }
    }
    Ok(view)
}

impl FontView {
    /// OpenType semantics at a normalized location: the first record whose condition set matches
    /// replaces the listed features; then all lookups referenced by any feature (every feature of the
    /// font is considered active and all language systems alike: the generated fonts only have the
    /// feature-variation feature) are applied in lookup-list order.
    fn subs_at(&self, pt: &[i32], sources: &[String]) -> BTreeMap<String, String> {
        let mut feats: Vec<Vec<u16>> = self.features.iter().map(|(_, l)| l.clone()).collect();
        for (conds, subst) in &self.records {
            let matches = conds.iter().all(|(ax, lo, hi)| {
                // an axis the point does not have is at its default (0)
                let v = pt.get(*ax as usize).copied().unwrap_or(0);
                *lo <= v && v <= *hi
            });
            if matches {
                for (fi, lookups) in subst {
                    if let Some(f) = feats.get_mut(*fi as usize) {
                        *f = lookups.clone();
                    }
                }
                break;
            }
        }
        let active: BTreeSet<u16> = feats.into_iter().flatten().collect();
        let mut out = BTreeMap::new();
        for src in sources {
            let Some(gid) = self.names.iter().position(|n| n == src) else { continue };
            let mut g = gid as u16;
            for li in &active {
                if let Some(tables) = self.lookups.get(li) {
                    for t in tables {
                        if let Some(s) = t.get(&g) {
                            g = *s;
                            break;
                        }
                    }
                }
            }
            if g as usize != gid {
                out.insert(
                    src.clone(),
                    self.names.get(g as usize).cloned().unwrap_or_else(|| format!("gid{g}")),
                );
            }
        }
        out
    }

    fn to_json(&self) -> (Value, Value, Value) {
        let records: Vec<Value> = self
            .records
            .iter()
            .map(|(c, s)| {
                json!({"conds": c.iter().map(|(a, l, h)| json!([a, l, h])).collect::<Vec<_>>(),
                       "subst": s.iter().map(|(f, l)| json!([f, l])).collect::<Vec<_>>()})
            })
            .collect();
        let lookups: serde_json::Map<String, Value> = self
            .lookups
            .iter()
            .map(|(i, tables)| {
                let t: Vec<Value> = tables
                    .iter()
                    .map(|m| {
                        Value::Object(
                            m.iter()
                                .map(|(g, s)| {
                                    let n = |x: &u16| {
                                        self.names.get(*x as usize).cloned().unwrap_or_else(|| format!("gid{x}"))
                                    };
                                    (n(g), Value::String(n(s)))
                                })
                                .collect(),
                        )
                    })
                    .collect();
                (i.to_string(), Value::Array(t))
            })
            .collect();
        let features: Vec<Value> = self.features.iter().map(|(t, l)| json!([t, l])).collect();
        (Value::Array(records), Value::Object(lookups), Value::Array(features))
    }
}

fn full_compile(req: &Req, ufo_ready: &mut BTreeMap<PathBuf, Vec<String>>) -> Value {
    let dir = PathBuf::from(if req.dir.is_empty() { "/verif/work/C16/fc/p0" } else { &req.dir });
    let names = glyph_names(req);
    // always 5 masters on disk (the 1-axis designspaces use the first three)
    let ufo_names: Vec<String> = (0..5).map(|i| format!("m{i}.ufo")).collect();
    if ufo_ready.get(&dir) != Some(&names) {
        for u in &ufo_names {
            if let Err(e) = write_ufo(&dir.join(u), &names) {
                return json!({"outcome": "tool-error", "message": format!("cannot write ufo: {e}")});
            }
        }
        // a glyph set change leaves stale glifs behind; they are not listed in contents.plist
        ufo_ready.insert(dir.clone(), names.clone());
    }
    let safe_id: String = req.id.chars().map(|c| if c.is_ascii_alphanumeric() { c } else { '_' }).collect();
    let ds = dir.join(if req.keep { format!("{safe_id}.designspace") } else { "case.designspace".to_string() });
    if let Err(e) = std::fs::write(&ds, designspace_text(req, &ufo_names)) {
        return json!({"outcome": "tool-error", "message": format!("cannot write designspace: {e}")});
    }
    let creq = CompileReq {
        tag: req.id.clone(),
        src: ds.to_string_lossy().to_string(),
        out: if req.keep { dir.join(format!("{safe_id}.ttf")).to_string_lossy().to_string() } else { String::new() },
        no_flags: vec!["production_names".into()],
        threads: 2,
        ..Default::default()
    };
    let (res, bytes) = compile(&creq);
    let Some(bytes) = bytes else {
        return json!({"outcome": res.outcome, "message": res.message});
    };
    match read_font(&bytes) {
        Ok(view) => {
            let sources: Vec<String> = names.clone();
            let obs: Vec<Value> = req
                .pts
                .iter()
                .map(|p| {
                    Value::Object(
                        view.subs_at(p, &sources).into_iter().map(|(k, v)| (k, Value::String(v))).collect(),
                    )
                })
                .collect();
            let (records, lookups, features) = view.to_json();
            json!({"outcome": "ok", "records": records, "lookups": lookups, "features": features, "obs": obs,
                   "src": creq.src})
        }
        Err(e) if e.starts_with("UNSUPPORTED") => json!({"outcome": "unsupported", "message": e}),
        Err(e) => json!({"outcome": "unreadable", "message": e}),
    }
}

pub fn run(args: &[String]) -> i32 {
    if std::env::var("VH_PANIC_VERBOSE").is_err() {
        std::panic::set_hook(Box::new(|_| {}));
    }
    let reader: Box<dyn BufRead> = match args.first() {
        Some(path) => match std::fs::File::open(path) {
            Ok(f) => Box::new(std::io::BufReader::new(f)),
            Err(e) => {
                eprintln!("cannot open {path}: {e}");
                return 2;
            }
        },
        None => Box::new(std::io::BufReader::new(std::io::stdin())),
    };
    let stdout = std::io::stdout();
    let mut ufo_ready = BTreeMap::new();
    for line in reader.lines() {
        let Ok(line) = line else { break };
        if line.trim().is_empty() {
            continue;
        }
        let req: Req = match serde_json::from_str(&line) {
            Ok(r) => r,
            Err(e) => {
                eprintln!("bad request: {e}");
                return 2;
            }
        };
        if req.nax == 0 || req.nax > 2 || req.rules.iter().flat_map(|r| &r.conds).flatten().any(|c| c.ax == 0 || c.ax > req.nax) {
            eprintln!("bad request {}: axis index out of range", req.id);
            return 2;
        }
        let mut res = serde_json::Map::new();
        res.insert("id".into(), Value::String(req.id.clone()));
        if req.api {
            res.insert("api".into(), call_api(&req));
        }
        if req.compile {
            res.insert("font".into(), full_compile(&req, &mut ufo_ready));
        }
        let mut out = stdout.lock();
        let _ = writeln!(out, "{}", Value::Object(res));
        let _ = out.flush();
    }
    0
}
