//! `vh sfnt`: measure the sfnt container and every cross-table reference of a font (C05).
//!
//! stdin: one JSON request per line  {"id": "...", "font": "<path>", "meta": {...}}
//! stdout: one JSON observation per line (vocabulary: spec/Sfnt.tla).
//!
//! Measurement only: the table directory is decoded by hand from the bytes (word sums, padding bytes, offsets),
//! every table is walked field by field with read-fonts' generic traversal (any field or offset that fails to
//! parse is recorded with its path), and every glyph id / lookup index / feature index / name id / region index /
//! delta-set index met on the way is copied out together with the place it was found.  Whether those numbers are
//! in range, sorted, aligned, ... is decided by spec/Sfnt.tla.

use std::{
    collections::{BTreeMap, BTreeSet},
    io::{BufRead, Write},
};

use serde_json::{Map, Value, json};
use skrifa::raw::{
    FontRef, ReadError, TableProvider,
    tables::{
        cmap::{CmapSubtable, MapVariant},
        variations::{DeltaSetIndexMap, ItemVariationStore},
    },
    traversal::{FieldType, SomeArray, SomeTable},
    types::{GlyphId, Tag},
};

// ----------------------------------------------------------------------------- small helpers

fn be16(d: &[u8], off: usize) -> u32 {
    d.get(off..off + 2)
        .map(|b| u16::from_be_bytes([b[0], b[1]]) as u32)
        .unwrap_or(0)
}

fn be32(d: &[u8], off: usize) -> u32 {
    d.get(off..off + 4)
        .map(|b| u32::from_be_bytes([b[0], b[1], b[2], b[3]]))
        .unwrap_or(0)
}

fn halves(v: u32) -> Value {
    json!([v >> 16, v & 0xFFFF])
}

/// TLC integers are signed 32-bit
fn clamp(v: u64) -> u64 {
    v.min(0x7FFF_FFFF)
}

/// Sum (mod 2^32) of the big-endian 32-bit words of `d[from..to]`; bytes past the end of `d` count as zero.
fn word_sum(d: &[u8], from: usize, to: usize) -> u32 {
    let mut sum: u32 = 0;
    let mut i = from;
    while i < to {
        let mut w = [0u8; 4];
        for k in 0..4 {
            if i + k < to
                && let Some(b) = d.get(i + k)
            {
                w[k] = *b;
            }
        }
        sum = sum.wrapping_add(u32::from_be_bytes(w));
        i += 4;
    }
    sum
}

// ----------------------------------------------------------------------------- directory

fn directory(d: &[u8]) -> Value {
    let num = be16(d, 4) as usize;
    let mut recs = Vec::new();
    let mut head_adj = 0u32;
    for i in 0..num {
        let r = 12 + 16 * i;
        if r + 16 > d.len() {
            break;
        }
        let tag = String::from_utf8_lossy(&d[r..r + 4]).to_string();
        let ck = be32(d, r + 4);
        let off = be32(d, r + 8) as u64;
        let len = be32(d, r + 12) as u64;
        let end = off + len;
        let padded = (end + 3) & !3;
        let (o, e, p) = (off as usize, end as usize, padded as usize);
        let in_file = end <= d.len() as u64;
        // the words of the table as they are in the file (the last word includes the padding bytes present)
        let sum = if in_file { word_sum(d, o, p.min(d.len()).max(e)) } else { 0 };
        let pad_nonzero = if in_file {
            (e..p.min(d.len())).filter(|i| d[*i] != 0).count()
        } else {
            0
        };
        if tag == "head" && in_file && len >= 12 {
            head_adj = be32(d, o + 8);
        }
        recs.push(json!({"tag": tag, "tagn": halves(be32(d, r)), "ck": halves(ck), "off": clamp(off), "len": clamp(len), "sum": halves(sum),
                         "padnz": pad_nonzero, "infile": in_file}));
    }
    json!({"version": halves(be32(d, 0)), "num": num, "search": be16(d, 6), "selector": be16(d, 8),
           "shift": be16(d, 10), "flen": clamp(d.len() as u64), "recs": recs,
           "filesum": halves(word_sum(d, 0, d.len())), "headadj": halves(head_adj)})
}

// ----------------------------------------------------------------------------- cmap

/// (code point, glyph id) of every Unicode cmap subtable (formats 4, 12 and the non-default UVS of 14).
pub fn cmap_pairs(font: &FontRef) -> Vec<(u32, u32)> {
    let mut out = Vec::new();
    let Ok(cmap) = font.cmap() else { return out };
    for (i, _rec) in cmap.encoding_records().iter().enumerate() {
        let Ok(st) = cmap.subtable(i as u16) else { continue };
        match st {
            CmapSubtable::Format4(t) => out.extend(t.iter().map(|(c, g)| (c, g.to_u32()))),
            CmapSubtable::Format12(t) => out.extend(t.iter().map(|(c, g)| (c, g.to_u32()))),
            CmapSubtable::Format6(t) => out.extend(t.iter().map(|(c, g)| (c, g.to_u32()))),
            CmapSubtable::Format10(t) => out.extend(t.iter().map(|(c, g)| (c, g.to_u32()))),
            CmapSubtable::Format13(t) => out.extend(t.iter().map(|(c, g)| (c, g.to_u32()))),
            _ => {}
        }
    }
    out
}

fn cmap_uvs_gids(font: &FontRef) -> Vec<u32> {
    let mut out = Vec::new();
    if let Ok(cmap) = font.cmap() {
        for (i, _rec) in cmap.encoding_records().iter().enumerate() {
            if let Ok(CmapSubtable::Format14(t)) = cmap.subtable(i as u16) {
                for (_c, _s, v) in t.iter() {
                    if let MapVariant::Variant(g) = v {
                        out.push(g.to_u32());
                    }
                }
            }
        }
    }
    out
}

// ----------------------------------------------------------------------------- generic walk

#[derive(Default)]
struct Node {
    type_name: String,
    scalars: Vec<(&'static str, i64)>,
    arrays: Vec<(&'static str, Vec<i64>)>,
    lens: Vec<(&'static str, usize)>,
    gids: Vec<(&'static str, u32)>,
}

impl Node {
    fn scalar(&self, n: &str) -> Option<i64> {
        self.scalars.iter().find(|(k, _)| *k == n).map(|(_, v)| *v)
    }
    fn array(&self, n: &str) -> Option<&Vec<i64>> {
        self.arrays.iter().find(|(k, _)| *k == n).map(|(_, v)| v)
    }
    fn len_of(&self, n: &str) -> Option<usize> {
        self.lens.iter().find(|(k, _)| *k == n).map(|(_, v)| *v)
    }
}

#[derive(Default)]
struct Walk {
    top: String,
    fields: u64,
    errors: Vec<Value>,
    gid_uses: BTreeMap<String, BTreeSet<u32>>,
    name_uses: BTreeMap<String, BTreeSet<u32>>,
    lookup_uses: BTreeMap<String, BTreeSet<u32>>, // key "GSUB:where"
    feature_uses: BTreeMap<String, BTreeSet<u32>>,
    counts: BTreeMap<String, i64>, // "GSUB.lookup_count", ...
    varidx: BTreeMap<String, BTreeSet<(u32, u32)>>,
    contexts: BTreeSet<(String, String, usize, usize)>, // (table, rule kind, input len, lookahead len)
    stat_axis_uses: BTreeSet<u32>,
    colr: Vec<Value>,
}

const MAX_FIELDS: u64 = 20_000_000;

fn scalar_of(v: &FieldType) -> Option<i64> {
    Some(match v {
        FieldType::I8(x) => *x as i64,
        FieldType::U8(x) => *x as i64,
        FieldType::I16(x) => *x as i64,
        FieldType::U16(x) => *x as i64,
        FieldType::I32(x) => *x as i64,
        FieldType::U32(x) => *x as i64,
        FieldType::U24(x) => x.to_u32() as i64,
        FieldType::FWord(x) => x.to_i16() as i64,
        FieldType::UfWord(x) => x.to_u16() as i64,
        FieldType::F2Dot14(x) => x.to_bits() as i64,
        FieldType::NameId(x) => x.to_u16() as i64,
        _ => return None,
    })
}

impl Walk {
    fn err(&mut self, path: &str, e: &ReadError) {
        // read-fonts 0.40 hands the records nested in PairPosFormat2.class1_records an empty data slice, so its
        // generic traversal cannot resolve their device offsets; `pairpos2_devices` reads those with the typed API
        if path.contains("Class1Record.class2_records") {
            return;
        }
        if self.errors.len() < 20 {
            self.errors.push(json!({"table": self.top, "path": path, "error": e.to_string()}));
        }
    }

    fn table<'a>(&mut self, t: &(dyn SomeTable<'a> + 'a), path: &str, depth: usize) {
        if depth > 48 || self.fields > MAX_FIELDS {
            if self.errors.len() < 20 {
                self.errors.push(json!({"table": self.top, "path": path, "error": "traversal limit reached"}));
            }
            return;
        }
        let mut node = Node { type_name: t.type_name().to_string(), ..Default::default() };
        let tn = node.type_name.clone();
        for f in t.iter() {
            self.fields += 1;
            let p = format!("{path}/{}.{}", tn, f.name);
            self.field(&mut node, f.name, f.value, &p, depth);
        }
        self.on_node(&node);
    }

    fn field<'a>(&mut self, node: &mut Node, name: &'static str, v: FieldType<'a>, p: &str, depth: usize) {
        if let Some(s) = scalar_of(&v) {
            node.scalars.push((name, s));
            if let FieldType::NameId(n) = v {
                self.name_uses
                    .entry(format!("{}:{}.{}", self.top, node.type_name, name))
                    .or_default()
                    .insert(n.to_u16() as u32);
            }
            return;
        }
        match v {
            FieldType::GlyphId16(g) => node.gids.push((name, g.to_u32())),
            FieldType::GlyphId24(g) => node.gids.push((name, g.to_u32())),
            FieldType::ResolvedOffset(r) => match r.target {
                Ok(t) => self.table(&t, p, depth + 1),
                Err(e) => self.err(p, &e),
            },
            FieldType::StringOffset(s) => {
                if let Err(e) = s.target {
                    self.err(p, &e)
                }
            }
            FieldType::ArrayOffset(a) => match a.target {
                Ok(arr) => self.array(node, name, &arr, p, depth),
                Err(e) => self.err(p, &e),
            },
            FieldType::Record(r) => self.table(&r, p, depth + 1),
            FieldType::Array(arr) => self.array(node, name, &arr, p, depth),
            _ => {}
        }
    }

    fn array<'a>(&mut self, node: &mut Node, name: &'static str, arr: &(dyn SomeArray<'a> + 'a), p: &str, depth: usize) {
        let n = arr.len();
        node.lens.push((name, n));
        let mut scal: Vec<i64> = Vec::new();
        for i in 0..n {
            self.fields += 1;
            if self.fields > MAX_FIELDS {
                break;
            }
            let Some(item) = arr.get(i) else {
                if self.errors.len() < 20 {
                    self.errors.push(json!({"table": self.top, "path": format!("{p}[{i}]"), "error": "array item unreadable"}));
                }
                continue;
            };
            if let FieldType::U8(_) = item {
                // byte blobs (instructions, string data, packed deltas): nothing to collect
                break;
            }
            if let Some(s) = scalar_of(&item) {
                scal.push(s);
                if let FieldType::NameId(nid) = item {
                    self.name_uses
                        .entry(format!("{}:{}.{}", self.top, node.type_name, name))
                        .or_default()
                        .insert(nid.to_u16() as u32);
                }
                continue;
            }
            match item {
                FieldType::GlyphId16(g) => node.gids.push((name, g.to_u32())),
                FieldType::GlyphId24(g) => node.gids.push((name, g.to_u32())),
                FieldType::ResolvedOffset(r) => match r.target {
                    Ok(t) => self.table(&t, &format!("{p}[{i}]"), depth + 1),
                    Err(e) => self.err(&format!("{p}[{i}]"), &e),
                },
                FieldType::Record(r) => self.table(&r, &format!("{p}[{i}]"), depth + 1),
                FieldType::Array(a) => {
                    let mut inner = Node { type_name: node.type_name.clone(), ..Default::default() };
                    self.array(&mut inner, name, &a, &format!("{p}[{i}]"), depth + 1);
                    node.gids.extend(inner.gids);
                }
                _ => {}
            }
        }
        if !scal.is_empty() {
            node.arrays.push((name, scal));
        }
    }

    /// Copy the reference-bearing numbers of one table/record out, keyed by where they were found.
    fn on_node(&mut self, n: &Node) {
        let top = self.top.clone();
        let tn = n.type_name.as_str();
        // glyph ids
        for (f, g) in &n.gids {
            self.gid_uses.entry(format!("{top}:{tn}.{f}")).or_default().insert(*g);
        }
        match tn {
            "ClassDefFormat1" => {
                // glyphs start .. start+count-1 carry the listed classes
                if let (Some((_, start)), Some(cnt)) = (n.gids.iter().find(|(f, _)| *f == "start_glyph_id"), n.len_of("class_value_array"))
                    && cnt > 0
                {
                    self.gid_uses
                        .entry(format!("{top}:{tn}.last_glyph"))
                        .or_default()
                        .insert(*start + cnt as u32 - 1);
                }
            }
            "CoverageFormat2" | "ClassDefFormat2" => {}
            _ => {}
        }
        let is_layout = top == "GSUB" || top == "GPOS";
        if is_layout {
            match tn {
                "LookupList" => {
                    if let Some(c) = n.scalar("lookup_count") {
                        self.counts.insert(format!("{top}.lookup_count"), c);
                    }
                }
                "FeatureList" => {
                    if let Some(c) = n.scalar("feature_count") {
                        self.counts.insert(format!("{top}.feature_count"), c);
                    }
                }
                "Feature" => {
                    if let Some(a) = n.array("lookup_list_indices") {
                        let e = self.lookup_uses.entry(format!("{top}:Feature")).or_default();
                        e.extend(a.iter().map(|v| *v as u32));
                    }
                }
                "SequenceLookupRecord" => {
                    if let Some(v) = n.scalar("lookup_list_index") {
                        self.lookup_uses.entry(format!("{top}:SequenceLookupRecord")).or_default().insert(v as u32);
                    }
                }
                "LangSys" => {
                    let e = self.feature_uses.entry(format!("{top}:LangSys")).or_default();
                    if let Some(a) = n.array("feature_indices") {
                        e.extend(a.iter().map(|v| *v as u32));
                    }
                    if let Some(r) = n.scalar("required_feature_index")
                        && r != 0xFFFF
                    {
                        e.insert(r as u32);
                    }
                }
                "FeatureTableSubstitutionRecord" => {
                    if let Some(v) = n.scalar("feature_index") {
                        self.feature_uses.entry(format!("{top}:FeatureTableSubstitution")).or_default().insert(v as u32);
                    }
                }
                _ => {}
            }
            // rule shapes for usMaxContext: (kind, input length incl. the first glyph, lookahead length)
            let ctx = match tn {
                "SingleSubstFormat1" | "SingleSubstFormat2" | "MultipleSubstFormat1" | "AlternateSubstFormat1" => {
                    Some(("single".to_string(), 1, 0))
                }
                "SinglePosFormat1" | "SinglePosFormat2" => Some(("single".to_string(), 1, 0)),
                "PairPosFormat1" | "PairPosFormat2" => Some(("pair".to_string(), 2, 0)),
                "Ligature" => Some(("ligature".to_string(), n.len_of("component_glyph_ids").unwrap_or(0) + 1, 0)),
                "SequenceRule" | "ClassSequenceRule" => {
                    Some(("context".to_string(), n.len_of("input_sequence").unwrap_or(0) + 1, 0))
                }
                "SequenceContextFormat3" => Some(("context".to_string(), n.len_of("coverage_offsets").unwrap_or(0), 0)),
                "ChainedSequenceRule" | "ChainedClassSequenceRule" => Some((
                    "chain".to_string(),
                    n.len_of("input_sequence").unwrap_or(0) + 1,
                    n.len_of("lookahead_sequence").unwrap_or(0),
                )),
                "ChainedSequenceContextFormat3" => Some((
                    "chain".to_string(),
                    n.len_of("input_coverage_offsets").unwrap_or(0),
                    n.len_of("lookahead_coverage_offsets").unwrap_or(0),
                )),
                "ReverseChainSingleSubstFormat1" => {
                    Some(("reverse".to_string(), 1, n.len_of("lookahead_coverage_offsets").unwrap_or(0)))
                }
                "CursivePosFormat1" | "MarkBasePosFormat1" | "MarkLigPosFormat1" | "MarkMarkPosFormat1" => {
                    Some(("attach".to_string(), 1, 0))
                }
                _ => None,
            };
            if let Some((k, i, l)) = ctx {
                self.contexts.insert((top.clone(), k, i, l));
            }
        }
        match tn {
            "VariationIndex" => {
                if let (Some(o), Some(i)) = (n.scalar("delta_set_outer_index"), n.scalar("delta_set_inner_index")) {
                    self.varidx.entry(top.clone()).or_default().insert((o as u32, i as u32));
                }
            }
            "ValueRecord" if top == "MVAR" => {
                if let (Some(o), Some(i)) = (n.scalar("delta_set_outer_index"), n.scalar("delta_set_inner_index")) {
                    self.varidx.entry(top.clone()).or_default().insert((o as u32, i as u32));
                }
            }
            "AxisValueFormat1" | "AxisValueFormat2" | "AxisValueFormat3" | "AxisValueRecord" if top == "STAT" => {
                if let Some(a) = n.scalar("axis_index") {
                    self.stat_axis_uses.insert(a as u32);
                }
            }
            "Colr" => {
                self.colr.push(json!({"num_base": n.scalar("num_base_glyph_records"), "num_layers": n.scalar("num_layer_records")}));
            }
            _ => {}
        }
    }
}

/// Device / VariationIndex tables of PairPosFormat2 class records (typed API; see `Walk::err`).
fn pairpos2_devices(font: &FontRef, w: &mut Walk) {
    use skrifa::raw::tables::{
        gpos::{PairPos, PositionSubtables},
        layout::DeviceOrVariationIndex,
    };
    let Ok(gpos) = font.gpos() else { return };
    let Ok(ll) = gpos.lookup_list() else { return };
    w.top = "GPOS".into();
    for (li, l) in ll.lookups().iter().enumerate() {
        let Ok(l) = l else { continue };
        let Ok(PositionSubtables::Pair(sts)) = l.subtables() else { continue };
        for (si, st) in sts.iter().enumerate() {
            let Ok(PairPos::Format2(t)) = st else { continue };
            let data = t.offset_data();
            for (i, c1) in t.class1_records().iter().enumerate() {
                let Ok(c1) = c1 else {
                    w.errors.push(json!({"table": "GPOS", "path": format!("lookup[{li}]/subtable[{si}]/class1_records[{i}]"), "error": "unreadable"}));
                    continue;
                };
                for (j, c2) in c1.class2_records().iter().enumerate() {
                    let Ok(c2) = c2 else {
                        w.errors.push(json!({"table": "GPOS", "path": format!("lookup[{li}]/subtable[{si}]/class1_records[{i}]/class2_records[{j}]"), "error": "unreadable"}));
                        continue;
                    };
                    for vr in [c2.value_record1(), c2.value_record2()] {
                        for dev in [vr.x_placement_device(data), vr.y_placement_device(data), vr.x_advance_device(data), vr.y_advance_device(data)] {
                            w.fields += 1;
                            match dev {
                                None => {}
                                Some(Ok(DeviceOrVariationIndex::VariationIndex(v))) => {
                                    w.varidx.entry("GPOS".into()).or_default().insert((v.delta_set_outer_index() as u32, v.delta_set_inner_index() as u32));
                                }
                                Some(Ok(_)) => {}
                                Some(Err(e)) => {
                                    if w.errors.len() < 20 {
                                        w.errors.push(json!({"table": "GPOS", "path": format!("lookup[{li}]/subtable[{si}]/class1_records[{i}]/class2_records[{j}]/device"), "error": e.to_string()}));
                                    }
                                }
                            }
                        }
                    }
                }
            }
        }
    }
}

fn sets_to_json(m: &BTreeMap<String, BTreeSet<u32>>) -> Value {
    Value::Array(
        m.iter()
            .map(|(k, s)| json!({"where": k, "ids": s.iter().collect::<Vec<_>>()}))
            .collect(),
    )
}

// ----------------------------------------------------------------------------- item variation stores

fn ivs_json(name: &str, ivs: Result<ItemVariationStore, ReadError>, maps: Vec<(&str, Option<Result<DeltaSetIndexMap, ReadError>>)>, ng: u32) -> Value {
    let mut o = Map::new();
    o.insert("table".into(), json!(name));
    o.insert("error".into(), json!(""));
    o.insert("axis_count".into(), json!(-1));
    o.insert("region_count".into(), json!(0));
    o.insert("data".into(), json!([]));
    match ivs {
        Err(e) => {
            o.insert("error".into(), json!(e.to_string()));
        }
        Ok(ivs) => {
            match ivs.variation_region_list() {
                Ok(rl) => {
                    o.insert("axis_count".into(), json!(rl.axis_count()));
                    o.insert("region_count".into(), json!(rl.region_count()));
                }
                Err(e) => {
                    o.insert("error".into(), json!(e.to_string()));
                }
            }
            let mut data = Vec::new();
            for d in ivs.item_variation_data().iter() {
                match d {
                    None => data.push(json!({"item_count": 0, "regions": [], "null": true})),
                    Some(Err(e)) => {
                        o.insert("error".into(), json!(e.to_string()));
                        data.push(json!({"item_count": 0, "regions": [], "null": true}));
                    }
                    Some(Ok(d)) => {
                        let regs: Vec<u16> = d.region_indexes().iter().map(|r| r.get()).collect();
                        data.push(json!({"item_count": d.item_count(), "regions": regs, "null": false}));
                    }
                }
            }
            o.insert("data".into(), json!(data));
        }
    }
    let mut ms = Vec::new();
    for (mname, m) in maps {
        match m {
            None => ms.push(json!({"name": mname, "present": false, "count": 0, "entries": []})),
            Some(Err(e)) => {
                o.insert("error".into(), json!(format!("{mname} map: {e}")));
                ms.push(json!({"name": mname, "present": true, "count": 0, "entries": []}));
            }
            Some(Ok(m)) => {
                let count = match &m {
                    DeltaSetIndexMap::Format0(f) => f.map_count() as u32,
                    DeltaSetIndexMap::Format1(f) => f.map_count(),
                };
                // distinct (outer, inner) pairs used by the glyphs of this font
                let mut set = BTreeSet::new();
                for i in 0..count.min(ng.max(1)).min(70000) {
                    if let Ok(ix) = m.get(i) {
                        set.insert((ix.outer as u32, ix.inner as u32));
                    }
                }
                ms.push(json!({"name": mname, "present": true, "count": count,
                               "entries": set.iter().map(|(a, b)| json!([a, b])).collect::<Vec<_>>()}));
            }
        }
    }
    o.insert("maps".into(), json!(ms));
    Value::Object(o)
}

// ----------------------------------------------------------------------------- layout contexts (shared with C17)

/// The distinct rule shapes of GSUB and GPOS: [table, kind, input length, lookahead length].
pub fn layout_contexts(font: &FontRef) -> Value {
    let mut w = Walk::default();
    walk_layout(font, &mut w);
    json!({"gsub": font.table_data(Tag::new(b"GSUB")).is_some(), "gpos": font.table_data(Tag::new(b"GPOS")).is_some(),
           "rules": w.contexts.iter().map(|(t, k, i, l)| json!({"t": t, "k": k, "in": i, "la": l})).collect::<Vec<_>>(),
           "errors": w.errors.len()})
}

fn walk_layout(font: &FontRef, w: &mut Walk) {
    if font.table_data(Tag::new(b"GSUB")).is_some() {
        w.top = "GSUB".into();
        match font.gsub() {
            Ok(t) => w.table(&t, "GSUB", 0),
            Err(e) => w.err("GSUB", &e),
        }
    }
    if font.table_data(Tag::new(b"GPOS")).is_some() {
        w.top = "GPOS".into();
        match font.gpos() {
            Ok(t) => w.table(&t, "GPOS", 0),
            Err(e) => w.err("GPOS", &e),
        }
    }
}

// ----------------------------------------------------------------------------- the observation

macro_rules! walk_top {
    ($w:expr, $font:expr, $tag:literal, $getter:ident, $walked:expr) => {
        if $font.table_data(Tag::new($tag)).is_some() {
            let name = String::from_utf8_lossy($tag).to_string();
            $w.top = name.clone();
            $walked.push(name.clone());
            match $font.$getter() {
                Ok(t) => $w.table(&t, &name, 0),
                Err(e) => $w.err(&name, &e),
            }
        }
    };
}

pub fn observe(data: &[u8]) -> Result<Map<String, Value>, String> {
    let mut o = Map::new();
    o.insert("dir".into(), directory(data));
    let font = match FontRef::new(data) {
        Ok(f) => f,
        Err(e) => {
            o.insert("readable".into(), json!(false));
            o.insert("read_error".into(), json!(e.to_string()));
            return Ok(o);
        }
    };
    o.insert("readable".into(), json!(true));
    let tags: Vec<String> = font.table_directory.table_records().iter().map(|r| r.tag().to_string()).collect();
    let has = |t: &str| tags.iter().any(|x| x == t);
    let len_of = |t: &[u8; 4]| font.table_data(Tag::new(t)).map(|d| d.len() as i64).unwrap_or(-1);

    // ---- walk every table
    let mut w = Walk::default();
    let mut walked: Vec<String> = Vec::new();
    walk_top!(w, font, b"head", head, walked);
    walk_top!(w, font, b"hhea", hhea, walked);
    walk_top!(w, font, b"maxp", maxp, walked);
    walk_top!(w, font, b"OS/2", os2, walked);
    walk_top!(w, font, b"post", post, walked);
    walk_top!(w, font, b"name", name, walked);
    walk_top!(w, font, b"cmap", cmap, walked);
    walk_top!(w, font, b"hmtx", hmtx, walked);
    walk_top!(w, font, b"vhea", vhea, walked);
    walk_top!(w, font, b"vmtx", vmtx, walked);
    walk_top!(w, font, b"fvar", fvar, walked);
    walk_top!(w, font, b"avar", avar, walked);
    walk_top!(w, font, b"gvar", gvar, walked);
    walk_top!(w, font, b"HVAR", hvar, walked);
    walk_top!(w, font, b"VVAR", vvar, walked);
    walk_top!(w, font, b"MVAR", mvar, walked);
    walk_top!(w, font, b"STAT", stat, walked);
    walk_top!(w, font, b"GDEF", gdef, walked);
    walk_top!(w, font, b"GSUB", gsub, walked);
    walk_top!(w, font, b"GPOS", gpos, walked);
    walk_top!(w, font, b"BASE", base, walked);
    walk_top!(w, font, b"COLR", colr, walked);
    walk_top!(w, font, b"CPAL", cpal, walked);
    walk_top!(w, font, b"gasp", gasp, walked);
    walk_top!(w, font, b"meta", meta, walked);
    pairpos2_devices(&font, &mut w);
    // loca / glyf / gvar glyph data are reached per glyph
    let ng = font.maxp().map(|m| m.num_glyphs() as u32).unwrap_or(0);
    let mut glyphs = Vec::new();
    if has("glyf") || has("loca") {
        walked.push("glyf".into());
        walked.push("loca".into());
        w.top = "glyf".into();
        match (font.loca(None), font.glyf()) {
            (Ok(loca), Ok(glyf)) => {
                for gid in 0..ng {
                    match loca.get_glyf(GlyphId::new(gid), &glyf) {
                        Ok(None) => glyphs.push(json!({"k": "e", "np": 0, "nc": 0, "c": []})),
                        Ok(Some(g)) => {
                            w.table(&g, &format!("glyf[{gid}]"), 0);
                            use skrifa::raw::tables::glyf::Glyph;
                            match g {
                                Glyph::Simple(s) => glyphs.push(json!({"k": "s", "np": s.num_points(), "nc": s.number_of_contours(), "c": []})),
                                Glyph::Composite(c) => {
                                    let comps: Vec<u32> = c.components().map(|k| k.glyph.to_u32()).collect();
                                    glyphs.push(json!({"k": "c", "np": 0, "nc": 0, "c": comps}));
                                }
                            }
                        }
                        Err(e) => {
                            w.err(&format!("glyf[{gid}]"), &e);
                            glyphs.push(json!({"k": "x", "np": 0, "nc": 0, "c": []}));
                        }
                    }
                }
            }
            (Err(e), _) => w.err("loca", &e),
            (_, Err(e)) => w.err("glyf", &e),
        }
    }
    let mut gvar_info = json!({"axis_count": -1, "glyph_count": -1, "tuples": 0});
    if let Ok(gvar) = font.gvar() {
        w.top = "gvar".into();
        let mut tuples = 0u64;
        for gid in 0..(gvar.glyph_count() as u32).min(ng.max(1) + 8) {
            match gvar.glyph_variation_data(GlyphId::new(gid)) {
                Ok(Some(d)) => {
                    for t in d.tuples() {
                        tuples += 1;
                        let _ = t.peak();
                        let n = t.deltas().count();
                        w.fields += n as u64;
                    }
                }
                Ok(None) => {}
                Err(e) => w.err(&format!("gvar[{gid}]"), &e),
            }
        }
        gvar_info = json!({"axis_count": gvar.axis_count(), "glyph_count": gvar.glyph_count(), "tuples": tuples});
    }
    let known: BTreeSet<&str> = walked.iter().map(|s| s.as_str()).collect();
    let unwalked: Vec<&String> = tags.iter().filter(|t| !known.contains(t.as_str())).collect();
    o.insert("tags".into(), json!(tags));
    o.insert("walked".into(), json!(walked));
    o.insert("unwalked".into(), json!(unwalked));
    o.insert("fields".into(), json!(clamp(w.fields)));
    o.insert("errors".into(), json!(w.errors));

    // ---- counts that must agree
    let mut c = Map::new();
    c.insert("num_glyphs".into(), json!(ng));
    c.insert("loca_len".into(), json!(len_of(b"loca")));
    c.insert("locfmt".into(), json!(font.head().map(|h| h.index_to_loc_format() as i64).unwrap_or(-1)));
    c.insert("glyf_len".into(), json!(len_of(b"glyf")));
    c.insert("hmtx_len".into(), json!(len_of(b"hmtx")));
    c.insert("nlong_h".into(), json!(font.hhea().map(|h| h.number_of_h_metrics() as i64).unwrap_or(-1)));
    c.insert("vmtx_len".into(), json!(len_of(b"vmtx")));
    c.insert("nlong_v".into(), json!(font.vhea().map(|h| h.number_of_long_ver_metrics() as i64).unwrap_or(-1)));
    c.insert("post_version".into(), json!([0, 0]));
    c.insert("post_num_glyphs".into(), json!(-1));
    c.insert("post_max_name_index".into(), json!(-1));
    c.insert("post_strings".into(), json!(0));
    if let Ok(post) = font.post() {
        let (maj, min) = post.version().to_major_minor();
        c.insert("post_version".into(), json!([maj, min]));
        c.insert("post_num_glyphs".into(), json!(post.num_glyphs().map(|n| n as i64).unwrap_or(-1)));
        let idx: Vec<u16> = post.glyph_name_index().map(|a| a.iter().map(|x| x.get()).collect()).unwrap_or_default();
        let strings = post.string_data().map(|s| s.iter().filter(|x| x.is_ok()).count()).unwrap_or(0);
        c.insert("post_max_name_index".into(), json!(idx.iter().max().map(|m| *m as i64).unwrap_or(-1)));
        c.insert("post_strings".into(), json!(strings));
    }
    c.insert("fvar_axes".into(), json!(font.fvar().map(|f| f.axis_count() as i64).unwrap_or(-1)));
    c.insert("avar_axes".into(), json!(font.avar().map(|f| f.axis_count() as i64).unwrap_or(-1)));
    c.insert("stat_axes".into(), json!(font.stat().map(|f| f.design_axis_count() as i64).unwrap_or(-1)));
    c.insert("stat_axis_uses".into(), json!(w.stat_axis_uses.iter().collect::<Vec<_>>()));
    c.insert("gvar".into(), gvar_info);
    c.insert("maxp".into(), match font.maxp() {
        Ok(m) => json!({"cpoints": m.max_composite_points().unwrap_or(0), "ccontours": m.max_composite_contours().unwrap_or(0),
                        "celems": m.max_component_elements().unwrap_or(0), "cdepth": m.max_component_depth().unwrap_or(0),
                        "points": m.max_points().unwrap_or(0), "contours": m.max_contours().unwrap_or(0)}),
        Err(_) => json!({"cpoints": 0, "ccontours": 0, "celems": 0, "cdepth": 0, "points": 0, "contours": 0}),
    });
    o.insert("counts".into(), Value::Object(c));
    o.insert("glyphs".into(), json!(glyphs));

    // ---- glyph id uses
    let mut cm: BTreeSet<u32> = cmap_pairs(&font).into_iter().map(|(_, g)| g).collect();
    cm.extend(cmap_uvs_gids(&font));
    w.gid_uses.insert("cmap:mapping".into(), cm);
    // SingleSubstFormat1 computes its outputs: (covered glyph + delta) mod 65536
    if let Ok(gsub) = font.gsub()
        && let Ok(ll) = gsub.lookup_list()
    {
        use skrifa::raw::tables::gsub::{SingleSubst, SubstitutionSubtables};
        let mut outs = BTreeSet::new();
        for l in ll.lookups().iter().flatten() {
            if let Ok(SubstitutionSubtables::Single(sts)) = l.subtables() {
                for st in sts.iter().flatten() {
                    if let SingleSubst::Format1(f) = st
                        && let Ok(cov) = f.coverage()
                    {
                        for g in cov.iter() {
                            outs.insert(((g.to_u32() as i64 + f.delta_glyph_id() as i64).rem_euclid(65536)) as u32);
                        }
                    }
                }
            }
        }
        if !outs.is_empty() {
            w.gid_uses.insert("GSUB:SingleSubstFormat1.output".into(), outs);
        }
    }
    o.insert("gid_uses".into(), sets_to_json(&w.gid_uses));
    // ---- layout indices
    let mut lay = Vec::new();
    for t in ["GSUB", "GPOS"] {
        if !has(t) {
            continue;
        }
        let pick = |m: &BTreeMap<String, BTreeSet<u32>>| {
            Value::Array(
                m.iter()
                    .filter(|(k, _)| k.starts_with(t))
                    .map(|(k, s)| json!({"where": k, "ids": s.iter().collect::<Vec<_>>()}))
                    .collect(),
            )
        };
        lay.push(json!({"table": t,
            "lookup_count": w.counts.get(&format!("{t}.lookup_count")).copied().unwrap_or(0),
            "feature_count": w.counts.get(&format!("{t}.feature_count")).copied().unwrap_or(0),
            "lookup_uses": pick(&w.lookup_uses), "feature_uses": pick(&w.feature_uses)}));
    }
    o.insert("layout".into(), json!(lay));
    // ---- name ids
    let mut ids = BTreeSet::new();
    if let Ok(name) = font.name() {
        for r in name.name_record() {
            ids.insert(r.name_id().to_u16() as u32);
        }
    }
    o.insert("name_ids".into(), json!(ids.iter().collect::<Vec<_>>()));
    let uses: BTreeMap<String, BTreeSet<u32>> = w
        .name_uses
        .iter()
        .filter(|(k, _)| !k.starts_with("name:"))
        .map(|(k, v)| (k.clone(), v.iter().copied().filter(|x| *x != 0xFFFF).collect()))
        .collect();
    o.insert("name_uses".into(), sets_to_json(&uses));
    // ---- variation stores
    let mut stores = Vec::new();
    if let Ok(t) = font.hvar() {
        stores.push(ivs_json("HVAR", t.item_variation_store(), vec![("advance", t.advance_width_mapping()), ("lsb", t.lsb_mapping()), ("rsb", t.rsb_mapping())], ng));
    }
    if let Ok(t) = font.vvar() {
        stores.push(ivs_json("VVAR", t.item_variation_store(), vec![("advance", t.advance_height_mapping()), ("tsb", t.tsb_mapping()), ("bsb", t.bsb_mapping()), ("vorg", t.v_org_mapping())], ng));
    }
    if let Ok(t) = font.mvar()
        && let Some(s) = t.item_variation_store()
    {
        stores.push(ivs_json("MVAR", s, vec![], ng));
    }
    if let Ok(t) = font.gdef()
        && let Some(s) = t.item_var_store()
    {
        stores.push(ivs_json("GDEF", s, vec![], ng));
    }
    if let Ok(t) = font.base()
        && let Some(s) = t.item_var_store()
    {
        stores.push(ivs_json("BASE", s, vec![], ng));
    }
    o.insert("stores".into(), json!(stores));
    o.insert(
        "varidx".into(),
        Value::Array(
            w.varidx
                .iter()
                .map(|(k, s)| json!({"table": k, "pairs": s.iter().map(|(a, b)| json!([a, b])).collect::<Vec<_>>()}))
                .collect(),
        ),
    );
    o.insert("colr".into(), json!(w.colr));
    Ok(o)
}

pub fn run(_args: &[String]) -> i32 {
    std::panic::set_hook(Box::new(|_| {}));
    let stdin = std::io::stdin();
    let stdout = std::io::stdout();
    for line in stdin.lock().lines() {
        let Ok(line) = line else { break };
        if line.trim().is_empty() {
            continue;
        }
        let req: Value = match serde_json::from_str(&line) {
            Ok(r) => r,
            Err(e) => {
                eprintln!("bad request: {e}");
                return 2;
            }
        };
        let id = req.get("id").cloned().unwrap_or(Value::Null);
        let meta = req.get("meta").cloned().unwrap_or(json!({}));
        let path = req.get("font").and_then(|v| v.as_str()).unwrap_or("");
        let res = match std::fs::read(path) {
            Err(e) => json!({"id": id, "outcome": "error", "message": format!("cannot read {path}: {e}")}),
            Ok(data) => match std::panic::catch_unwind(std::panic::AssertUnwindSafe(|| observe(&data))) {
                Ok(Ok(mut o)) => {
                    o.insert("id".into(), id);
                    o.insert("meta".into(), meta);
                    o.insert("outcome".into(), json!("ok"));
                    Value::Object(o)
                }
                Ok(Err(e)) => json!({"id": id, "outcome": "unreadable", "message": e}),
                Err(p) => json!({"id": id, "outcome": "panic", "message": crate::compile::panic_message(p)}),
            },
        };
        let mut out = stdout.lock();
        let _ = writeln!(out, "{res}");
        let _ = out.flush();
    }
    0
}
