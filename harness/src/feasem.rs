//! `vh feasem`: compile FEA text with the real fea-rs and apply the *compiled* GSUB/GPOS/GDEF to
//! glyph strings with an interpreter that is independent of fea-rs (C11, spec/FeaSem.tla).
//!
//! Requests (ndjson on stdin, or the file given as first argument), one JSON object per line:
//!   {"tag": .., "fea": <text>, "glyphs": [names in glyph order] | "glyph_order_file": path,
//!    "add_cids": [lo, hi]?, "queries": [[script, language, [feature tags]], ..],
//!    "alpha": [glyph ids], "maxlen": 3}
//! Response: {"tag", "outcome": "ok"|"compile_error"|"panic"|"bad_table", "message",
//!            "results": [ per query: [[n, [glyphs], [adv]], ..] ]  (only strings whose shaping is not
//!            the identity; n = 1-based index in the canonical order length, then lexicographic by
//!            position in alpha), "info": {..}}
//!
//! The table reader works on the raw bytes of the tables (located with read-fonts' FontRef) so that
//! nothing of fea-rs' or write-fonts' object model is shared with the code under test.
//! Application semantics follow the OpenType specification as implemented by HarfBuzz: lookups in
//! lookup-list order, for each lookup the glyph positions left to right, at each position the first
//! subtable that applies wins; lookup flags + GDEF decide which glyphs are skipped; (chained) context
//! lookups apply their nested lookups at the matched input positions.

use std::collections::{BTreeMap, BTreeSet};
use std::io::{BufRead, Write};
use std::path::Path;
use std::sync::Arc;

use fea_rs::compile::{NopFeatureProvider, NopVariationInfo};
use fea_rs::{Compiler, GlyphIdent, GlyphMap};
use serde_json::{Value, json};
use write_fonts::read::{FontRef, TableProvider, types::Tag};

// ------------------------------------------------------------------------------------------ raw reader

#[derive(Clone, Copy)]
struct Rd<'a> {
    d: &'a [u8],
}

type R<T> = Result<T, String>;

impl<'a> Rd<'a> {
    fn u16(&self, off: usize) -> R<u16> {
        self.d
            .get(off..off + 2)
            .map(|b| u16::from_be_bytes([b[0], b[1]]))
            .ok_or_else(|| format!("read past end at {off}"))
    }
    fn i16(&self, off: usize) -> R<i16> {
        self.u16(off).map(|v| v as i16)
    }
    fn u32(&self, off: usize) -> R<u32> {
        self.d
            .get(off..off + 4)
            .map(|b| u32::from_be_bytes([b[0], b[1], b[2], b[3]]))
            .ok_or_else(|| format!("read past end at {off}"))
    }
    fn tag(&self, off: usize) -> R<String> {
        self.d
            .get(off..off + 4)
            .map(|b| String::from_utf8_lossy(b).to_string())
            .ok_or_else(|| format!("read past end at {off}"))
    }
    fn at(&self, off: usize) -> R<Rd<'a>> {
        if off > self.d.len() {
            return Err(format!("offset {off} outside table"));
        }
        Ok(Rd { d: &self.d[off..] })
    }
    fn u16s(&self, off: usize, n: usize) -> R<Vec<u16>> {
        (0..n).map(|k| self.u16(off + 2 * k)).collect()
    }
}

fn coverage(r: Rd) -> R<Vec<u16>> {
    // glyphs in coverage-index order
    match r.u16(0)? {
        1 => {
            let n = r.u16(2)? as usize;
            r.u16s(4, n)
        }
        2 => {
            let n = r.u16(2)? as usize;
            let mut out = Vec::new();
            for k in 0..n {
                let (s, e) = (r.u16(4 + 6 * k)?, r.u16(6 + 6 * k)?);
                let start_idx = r.u16(8 + 6 * k)? as usize;
                if start_idx != out.len() {
                    return Err("coverage range start index mismatch".into());
                }
                for g in s..=e {
                    out.push(g);
                }
            }
            Ok(out)
        }
        f => Err(format!("coverage format {f}")),
    }
}

#[derive(Default, Debug, Clone)]
struct ClassDef(BTreeMap<u16, u16>);

impl ClassDef {
    fn get(&self, g: u16) -> u16 {
        self.0.get(&g).copied().unwrap_or(0)
    }
}

fn classdef(r: Rd) -> R<ClassDef> {
    let mut m = BTreeMap::new();
    match r.u16(0)? {
        1 => {
            let start = r.u16(2)?;
            let n = r.u16(4)? as usize;
            for k in 0..n {
                let c = r.u16(6 + 2 * k)?;
                if c != 0 {
                    m.insert(start + k as u16, c);
                }
            }
        }
        2 => {
            let n = r.u16(2)? as usize;
            for k in 0..n {
                let (s, e, c) = (r.u16(4 + 6 * k)?, r.u16(6 + 6 * k)?, r.u16(8 + 6 * k)?);
                for g in s..=e {
                    if c != 0 {
                        m.insert(g, c);
                    }
                }
            }
        }
        f => return Err(format!("classdef format {f}")),
    }
    Ok(ClassDef(m))
}

// ------------------------------------------------------------------------------------------ decoded tables

type Val = [i32; 4]; // xPlacement, yPlacement, xAdvance, yAdvance

#[derive(Debug, Clone)]
struct SeqRec {
    seq_idx: usize,
    lookup: usize,
}

#[derive(Debug, Clone)]
struct CtxRule {
    back: Vec<u16>,  // glyph ids or class values, nearest first (as stored)
    input: Vec<u16>, // from the second input glyph on
    look: Vec<u16>,
    recs: Vec<SeqRec>,
}

#[derive(Debug, Clone)]
enum Ctx {
    // rule sets indexed by coverage index of the first glyph
    Glyphs { cov: Vec<u16>, sets: Vec<Vec<CtxRule>> },
    // rule sets indexed by the class of the first glyph
    Classes { cov: Vec<u16>, cb: ClassDef, ci: ClassDef, cl: ClassDef, sets: Vec<Vec<CtxRule>> },
    Coverages { back: Vec<BTreeSet<u16>>, input: Vec<BTreeSet<u16>>, look: Vec<BTreeSet<u16>>, recs: Vec<SeqRec> },
}

#[derive(Debug, Clone)]
enum Sub {
    Single(BTreeMap<u16, u16>),
    Multiple(BTreeMap<u16, Vec<u16>>),
    Ligature(BTreeMap<u16, Vec<(Vec<u16>, u16)>>),
    Context(Ctx),
    SinglePos(BTreeMap<u16, Val>),
    Pair1 { sets: BTreeMap<u16, Vec<(u16, Val, Val)>>, second: bool },
    Pair2 { cov: BTreeSet<u16>, c1: ClassDef, c2: ClassDef, n1: usize, n2: usize, recs: Vec<Vec<(Val, Val)>>, second: bool },
    Unsupported(String),
}

impl Sub {
    fn label(&self) -> &'static str {
        match self {
            Sub::Single(_) => "single",
            Sub::Multiple(_) => "multiple",
            Sub::Ligature(_) => "ligature",
            Sub::Context(Ctx::Glyphs { .. }) => "context-f1",
            Sub::Context(Ctx::Classes { .. }) => "context-f2",
            Sub::Context(Ctx::Coverages { .. }) => "context-f3",
            Sub::SinglePos(_) => "singlepos",
            Sub::Pair1 { .. } => "pair-f1",
            Sub::Pair2 { .. } => "pair-f2",
            Sub::Unsupported(_) => "unsupported",
        }
    }
}

#[derive(Debug, Clone)]
struct Lookup {
    ty: u16,
    ext: bool,
    flag: u16,
    mark_set: Option<u16>,
    subs: Vec<Sub>,
}

#[derive(Debug, Default, Clone)]
struct Layout {
    // script tag -> (default langsys, lang tag -> langsys); langsys = (required feature, feature indices)
    scripts: BTreeMap<String, (Option<LangSys>, BTreeMap<String, LangSys>)>,
    features: Vec<(String, Vec<usize>)>,
    lookups: Vec<Lookup>,
}

#[derive(Debug, Default, Clone)]
struct LangSys {
    required: Option<usize>,
    features: Vec<usize>,
}

#[derive(Debug, Default, Clone)]
struct Gdef {
    classes: ClassDef,
    mark_attach: ClassDef,
    mark_sets: Vec<BTreeSet<u16>>,
}

fn value(r: Rd, off: usize, fmt: u16) -> R<(Val, usize)> {
    let mut v = [0i32; 4];
    let mut o = off;
    for bit in 0..8 {
        if fmt & (1 << bit) != 0 {
            if bit < 4 {
                v[bit] = r.i16(o)? as i32;
            }
            // device / variation index offsets are skipped (static values only)
            o += 2;
        }
    }
    Ok((v, o - off))
}

fn seq_recs(r: Rd, off: usize, n: usize) -> R<Vec<SeqRec>> {
    (0..n)
        .map(|k| Ok(SeqRec { seq_idx: r.u16(off + 4 * k)? as usize, lookup: r.u16(off + 4 * k + 2)? as usize }))
        .collect()
}

fn ctx_rule(r: Rd, chained: bool) -> R<CtxRule> {
    if chained {
        let mut o = 0;
        let nb = r.u16(o)? as usize;
        let back = r.u16s(o + 2, nb)?;
        o += 2 + 2 * nb;
        let ni = r.u16(o)? as usize;
        if ni == 0 {
            return Err("chain rule with zero input glyphs".into());
        }
        let input = r.u16s(o + 2, ni - 1)?;
        o += 2 + 2 * (ni - 1);
        let nl = r.u16(o)? as usize;
        let look = r.u16s(o + 2, nl)?;
        o += 2 + 2 * nl;
        let nr = r.u16(o)? as usize;
        Ok(CtxRule { back, input, look, recs: seq_recs(r, o + 2, nr)? })
    } else {
        let ni = r.u16(0)? as usize;
        let nr = r.u16(2)? as usize;
        if ni == 0 {
            return Err("context rule with zero input glyphs".into());
        }
        let input = r.u16s(4, ni - 1)?;
        Ok(CtxRule { back: vec![], input, look: vec![], recs: seq_recs(r, 4 + 2 * (ni - 1), nr)? })
    }
}

fn rule_sets(r: Rd, off: usize, chained: bool) -> R<Vec<Vec<CtxRule>>> {
    let n = r.u16(off)? as usize;
    let mut sets = Vec::new();
    for k in 0..n {
        let so = r.u16(off + 2 + 2 * k)? as usize;
        if so == 0 {
            sets.push(vec![]);
            continue;
        }
        let s = r.at(so)?;
        let nr = s.u16(0)? as usize;
        let mut rules = Vec::new();
        for j in 0..nr {
            rules.push(ctx_rule(s.at(s.u16(2 + 2 * j)? as usize)?, chained)?);
        }
        sets.push(rules);
    }
    Ok(sets)
}

fn cov_set(r: Rd) -> R<BTreeSet<u16>> {
    Ok(coverage(r)?.into_iter().collect())
}

fn context(r: Rd, chained: bool) -> R<Ctx> {
    match (r.u16(0)?, chained) {
        (1, _) => Ok(Ctx::Glyphs { cov: coverage(r.at(r.u16(2)? as usize)?)?, sets: rule_sets(r, 4, chained)? }),
        (2, false) => Ok(Ctx::Classes {
            cov: coverage(r.at(r.u16(2)? as usize)?)?,
            cb: ClassDef::default(),
            ci: classdef(r.at(r.u16(4)? as usize)?)?,
            cl: ClassDef::default(),
            sets: rule_sets(r, 6, false)?,
        }),
        (2, true) => {
            let cd = |o: usize| -> R<ClassDef> {
                let off = r.u16(o)? as usize;
                if off == 0 { Ok(ClassDef::default()) } else { classdef(r.at(off)?) }
            };
            Ok(Ctx::Classes {
                cov: coverage(r.at(r.u16(2)? as usize)?)?,
                cb: cd(4)?,
                ci: cd(6)?,
                cl: cd(8)?,
                sets: rule_sets(r, 10, true)?,
            })
        }
        (3, false) => {
            let ni = r.u16(2)? as usize;
            let nr = r.u16(4)? as usize;
            let mut input = Vec::new();
            for k in 0..ni {
                input.push(cov_set(r.at(r.u16(6 + 2 * k)? as usize)?)?);
            }
            Ok(Ctx::Coverages { back: vec![], input, look: vec![], recs: seq_recs(r, 6 + 2 * ni, nr)? })
        }
        (3, true) => {
            let mut o = 2;
            let mut seqs: Vec<Vec<BTreeSet<u16>>> = Vec::new();
            for _ in 0..3 {
                let n = r.u16(o)? as usize;
                let mut v = Vec::new();
                for k in 0..n {
                    v.push(cov_set(r.at(r.u16(o + 2 + 2 * k)? as usize)?)?);
                }
                o += 2 + 2 * n;
                seqs.push(v);
            }
            let nr = r.u16(o)? as usize;
            let look = seqs.pop().unwrap();
            let input = seqs.pop().unwrap();
            let back = seqs.pop().unwrap();
            Ok(Ctx::Coverages { back, input, look, recs: seq_recs(r, o + 2, nr)? })
        }
        (f, _) => Err(format!("context format {f}")),
    }
}

fn gsub_subtable(r: Rd, ty: u16) -> R<Sub> {
    match ty {
        1 => {
            let cov = coverage(r.at(r.u16(2)? as usize)?)?;
            let mut m = BTreeMap::new();
            match r.u16(0)? {
                1 => {
                    let d = r.i16(4)?;
                    for g in cov {
                        m.insert(g, (g as i32 + d as i32).rem_euclid(65536) as u16);
                    }
                }
                2 => {
                    let n = r.u16(4)? as usize;
                    if n != cov.len() {
                        return Err("single subst 2: glyph count != coverage".into());
                    }
                    for (k, g) in cov.into_iter().enumerate() {
                        m.insert(g, r.u16(6 + 2 * k)?);
                    }
                }
                f => return Err(format!("single subst format {f}")),
            }
            Ok(Sub::Single(m))
        }
        2 => {
            let cov = coverage(r.at(r.u16(2)? as usize)?)?;
            let n = r.u16(4)? as usize;
            if n != cov.len() {
                return Err("multiple subst: sequence count != coverage".into());
            }
            let mut m = BTreeMap::new();
            for (k, g) in cov.into_iter().enumerate() {
                let s = r.at(r.u16(6 + 2 * k)? as usize)?;
                let c = s.u16(0)? as usize;
                m.insert(g, s.u16s(2, c)?);
            }
            Ok(Sub::Multiple(m))
        }
        4 => {
            let cov = coverage(r.at(r.u16(2)? as usize)?)?;
            let n = r.u16(4)? as usize;
            if n != cov.len() {
                return Err("ligature subst: set count != coverage".into());
            }
            let mut m = BTreeMap::new();
            for (k, g) in cov.into_iter().enumerate() {
                let s = r.at(r.u16(6 + 2 * k)? as usize)?;
                let c = s.u16(0)? as usize;
                let mut ligs = Vec::new();
                for j in 0..c {
                    let l = s.at(s.u16(2 + 2 * j)? as usize)?;
                    let lig = l.u16(0)?;
                    let nc = l.u16(2)? as usize;
                    if nc == 0 {
                        return Err("ligature with zero components".into());
                    }
                    ligs.push((l.u16s(4, nc - 1)?, lig));
                }
                m.insert(g, ligs);
            }
            Ok(Sub::Ligature(m))
        }
        5 => Ok(Sub::Context(context(r, false)?)),
        6 => Ok(Sub::Context(context(r, true)?)),
        t => Ok(Sub::Unsupported(format!("GSUB lookup type {t}"))),
    }
}

fn gpos_subtable(r: Rd, ty: u16) -> R<Sub> {
    match ty {
        1 => {
            let cov = coverage(r.at(r.u16(2)? as usize)?)?;
            let vf = r.u16(4)?;
            let mut m = BTreeMap::new();
            match r.u16(0)? {
                1 => {
                    let (v, _) = value(r, 6, vf)?;
                    for g in cov {
                        m.insert(g, v);
                    }
                }
                2 => {
                    let n = r.u16(6)? as usize;
                    if n != cov.len() {
                        return Err("single pos 2: value count != coverage".into());
                    }
                    let mut o = 8;
                    for g in cov {
                        let (v, sz) = value(r, o, vf)?;
                        o += sz;
                        m.insert(g, v);
                    }
                }
                f => return Err(format!("single pos format {f}")),
            }
            Ok(Sub::SinglePos(m))
        }
        2 => {
            let cov = coverage(r.at(r.u16(2)? as usize)?)?;
            let (vf1, vf2) = (r.u16(4)?, r.u16(6)?);
            match r.u16(0)? {
                1 => {
                    let n = r.u16(8)? as usize;
                    if n != cov.len() {
                        return Err("pair pos 1: pair set count != coverage".into());
                    }
                    let mut sets = BTreeMap::new();
                    for (k, g) in cov.into_iter().enumerate() {
                        let s = r.at(r.u16(10 + 2 * k)? as usize)?;
                        let c = s.u16(0)? as usize;
                        let mut o = 2;
                        let mut recs = Vec::new();
                        for _ in 0..c {
                            let second = s.u16(o)?;
                            o += 2;
                            let (v1, s1) = value(s, o, vf1)?;
                            o += s1;
                            let (v2, s2) = value(s, o, vf2)?;
                            o += s2;
                            recs.push((second, v1, v2));
                        }
                        sets.insert(g, recs);
                    }
                    Ok(Sub::Pair1 { sets, second: vf2 != 0 })
                }
                2 => {
                    let c1 = classdef(r.at(r.u16(8)? as usize)?)?;
                    let c2 = classdef(r.at(r.u16(10)? as usize)?)?;
                    let (n1, n2) = (r.u16(12)? as usize, r.u16(14)? as usize);
                    let mut o = 16;
                    let mut recs = Vec::new();
                    for _ in 0..n1 {
                        let mut row = Vec::new();
                        for _ in 0..n2 {
                            let (v1, s1) = value(r, o, vf1)?;
                            o += s1;
                            let (v2, s2) = value(r, o, vf2)?;
                            o += s2;
                            row.push((v1, v2));
                        }
                        recs.push(row);
                    }
                    Ok(Sub::Pair2 { cov: cov.into_iter().collect(), c1, c2, n1, n2, recs, second: vf2 != 0 })
                }
                f => Err(format!("pair pos format {f}")),
            }
        }
        t => Ok(Sub::Unsupported(format!("GPOS lookup type {t}"))),
    }
}

fn layout(data: &[u8], gpos: bool) -> R<Layout> {
    let r = Rd { d: data };
    let mut out = Layout::default();
    let sl = r.at(r.u16(4)? as usize)?;
    let fl = r.at(r.u16(6)? as usize)?;
    let ll = r.at(r.u16(8)? as usize)?;
    let langsys = |l: Rd| -> R<LangSys> {
        let req = l.u16(2)?;
        let n = l.u16(4)? as usize;
        Ok(LangSys {
            required: if req == 0xFFFF { None } else { Some(req as usize) },
            features: l.u16s(6, n)?.into_iter().map(|x| x as usize).collect(),
        })
    };
    for k in 0..sl.u16(0)? as usize {
        let tag = sl.tag(2 + 6 * k)?;
        let s = sl.at(sl.u16(6 + 6 * k)? as usize)?;
        let dflt = s.u16(0)? as usize;
        let d = if dflt == 0 { None } else { Some(langsys(s.at(dflt)?)?) };
        let mut langs = BTreeMap::new();
        for j in 0..s.u16(2)? as usize {
            langs.insert(s.tag(4 + 6 * j)?, langsys(s.at(s.u16(8 + 6 * j)? as usize)?)?);
        }
        out.scripts.insert(tag, (d, langs));
    }
    for k in 0..fl.u16(0)? as usize {
        let tag = fl.tag(2 + 6 * k)?;
        let f = fl.at(fl.u16(6 + 6 * k)? as usize)?;
        let n = f.u16(2)? as usize;
        out.features.push((tag, f.u16s(4, n)?.into_iter().map(|x| x as usize).collect()));
    }
    let ext_type = if gpos { 9 } else { 7 };
    for k in 0..ll.u16(0)? as usize {
        let l = ll.at(ll.u16(2 + 2 * k)? as usize)?;
        let mut ty = l.u16(0)?;
        let ext = ty == ext_type;
        let flag = l.u16(2)?;
        let n = l.u16(4)? as usize;
        let mark_set = if flag & 0x10 != 0 { Some(l.u16(6 + 2 * n)?) } else { None };
        let mut subs = Vec::new();
        let mut real_ty = None;
        for j in 0..n {
            let mut s = l.at(l.u16(6 + 2 * j)? as usize)?;
            let mut sty = ty;
            if ty == ext_type {
                if s.u16(0)? != 1 {
                    return Err("extension format".into());
                }
                sty = s.u16(2)?;
                s = s.at(s.u32(4)? as usize)?;
            }
            if let Some(t) = real_ty {
                if t != sty {
                    return Err("extension subtables of different types in one lookup".into());
                }
            }
            real_ty = Some(sty);
            subs.push(if gpos { gpos_subtable(s, sty)? } else { gsub_subtable(s, sty)? });
        }
        if let Some(t) = real_ty {
            ty = t;
        }
        out.lookups.push(Lookup { ty, ext, flag, mark_set, subs });
    }
    Ok(out)
}

fn gdef(data: &[u8]) -> R<Gdef> {
    let r = Rd { d: data };
    let minor = r.u16(2)?;
    let mut g = Gdef::default();
    let o = r.u16(4)? as usize;
    if o != 0 {
        g.classes = classdef(r.at(o)?)?;
    }
    let o = r.u16(10)? as usize;
    if o != 0 {
        g.mark_attach = classdef(r.at(o)?)?;
    }
    if minor >= 2 {
        let o = r.u16(12)? as usize;
        if o != 0 {
            let m = r.at(o)?;
            for k in 0..m.u16(2)? as usize {
                g.mark_sets.push(cov_set(m.at(m.u32(4 + 4 * k)? as usize)?)?);
            }
        }
    }
    Ok(g)
}

// ------------------------------------------------------------------------------------------ interpreter

struct Font {
    gsub: Option<Layout>,
    gpos: Option<Layout>,
    gdef: Gdef,
}

struct Buf {
    g: Vec<u16>,
    v: Vec<Val>,
}

const MAX_DEPTH: usize = 6;
const MAX_LEN: usize = 64;

impl Font {
    fn skip(&self, l: &Lookup, g: u16) -> bool {
        let class = self.gdef.classes.get(g);
        let f = l.flag;
        if f & 0x2 != 0 && class == 1 {
            return true;
        }
        if f & 0x4 != 0 && class == 2 {
            return true;
        }
        if class == 3 {
            if f & 0x8 != 0 {
                return true;
            }
            if f & 0x10 != 0 {
                let set = l.mark_set.and_then(|k| self.gdef.mark_sets.get(k as usize));
                return !set.map(|s| s.contains(&g)).unwrap_or(false);
            }
            let mat = f >> 8;
            if mat != 0 {
                return self.gdef.mark_attach.get(g) != mat;
            }
        }
        false
    }

    fn next(&self, l: &Lookup, g: &[u16], mut i: usize) -> Option<usize> {
        while i < g.len() {
            if !self.skip(l, g[i]) {
                return Some(i);
            }
            i += 1;
        }
        None
    }

    fn prev(&self, l: &Lookup, g: &[u16], i: usize) -> Option<usize> {
        // first non-skipped index < i
        let mut k = i;
        while k > 0 {
            k -= 1;
            if !self.skip(l, g[k]) {
                return Some(k);
            }
        }
        None
    }

    /// positions of the input sequence starting at i (g[i] already matched) for `n_rest` further items
    fn match_input(&self, l: &Lookup, g: &[u16], i: usize, n_rest: usize, pred: &dyn Fn(usize, u16) -> bool) -> Option<Vec<usize>> {
        let mut pos = vec![i];
        let mut cur = i;
        for k in 0..n_rest {
            let j = self.next(l, g, cur + 1)?;
            if !pred(k, g[j]) {
                return None;
            }
            pos.push(j);
            cur = j;
        }
        Some(pos)
    }

    fn match_back(&self, l: &Lookup, g: &[u16], i: usize, n: usize, pred: &dyn Fn(usize, u16) -> bool) -> bool {
        let mut cur = i;
        for k in 0..n {
            match self.prev(l, g, cur) {
                Some(j) if pred(k, g[j]) => cur = j,
                _ => return false,
            }
        }
        true
    }

    fn match_ahead(&self, l: &Lookup, g: &[u16], last: usize, n: usize, pred: &dyn Fn(usize, u16) -> bool) -> bool {
        let mut cur = last;
        for k in 0..n {
            match self.next(l, g, cur + 1) {
                Some(j) if pred(k, g[j]) => cur = j,
                _ => return false,
            }
        }
        true
    }

    /// Try GSUB lookup `li` at position i (which the caller has established is not skipped, or which is a
    /// nested application). Returns the index processing continues at when a subtable applied.
    fn gsub_at(&self, lay: &Layout, li: usize, b: &mut Buf, i: usize, depth: usize, notes: &mut BTreeSet<String>) -> Option<usize> {
        let l = lay.lookups.get(li)?;
        if i >= b.g.len() {
            return None;
        }
        let g0 = b.g[i];
        for sub in &l.subs {
            match sub {
                Sub::Single(m) => {
                    if let Some(&r) = m.get(&g0) {
                        b.g[i] = r;
                        return Some(i + 1);
                    }
                }
                Sub::Multiple(m) => {
                    if let Some(seq) = m.get(&g0) {
                        if b.g.len() + seq.len() > MAX_LEN {
                            return None;
                        }
                        b.g.splice(i..i + 1, seq.iter().copied());
                        return Some(i + seq.len());
                    }
                }
                Sub::Ligature(m) => {
                    if let Some(ligs) = m.get(&g0) {
                        for (comps, lig) in ligs {
                            if let Some(pos) = self.match_input(l, &b.g, i, comps.len(), &|k, g| comps[k] == g) {
                                b.g[i] = *lig;
                                // remove the matched components, keep the skipped glyphs in place
                                for &p in pos[1..].iter().rev() {
                                    b.g.remove(p);
                                }
                                let last = pos[pos.len() - 1];
                                return Some(last + 1 - (pos.len() - 1));
                            }
                        }
                    }
                }
                Sub::Context(c) => {
                    if let Some((pos, recs)) = self.ctx_match(l, c, &b.g, i) {
                        return Some(self.apply_nested(lay, li, b, pos, &recs, depth, notes, false));
                    }
                }
                Sub::Unsupported(what) => {
                    notes.insert(format!("unsupported: {what}"));
                }
                _ => {
                    notes.insert("GPOS subtable in GSUB lookup".into());
                }
            }
        }
        None
    }

    fn ctx_match(&self, l: &Lookup, c: &Ctx, g: &[u16], i: usize) -> Option<(Vec<usize>, Vec<SeqRec>)> {
        let g0 = g[i];
        match c {
            Ctx::Glyphs { cov, sets } => {
                let ci = cov.iter().position(|&x| x == g0)?;
                for rule in sets.get(ci)? {
                    if let Some(pos) = self.match_input(l, g, i, rule.input.len(), &|k, x| rule.input[k] == x) {
                        if self.match_back(l, g, i, rule.back.len(), &|k, x| rule.back[k] == x)
                            && self.match_ahead(l, g, pos[pos.len() - 1], rule.look.len(), &|k, x| rule.look[k] == x)
                        {
                            return Some((pos, rule.recs.clone()));
                        }
                    }
                }
                None
            }
            Ctx::Classes { cov, cb, ci, cl, sets } => {
                if !cov.contains(&g0) {
                    return None;
                }
                for rule in sets.get(ci.get(g0) as usize)? {
                    if let Some(pos) = self.match_input(l, g, i, rule.input.len(), &|k, x| rule.input[k] == ci.get(x)) {
                        if self.match_back(l, g, i, rule.back.len(), &|k, x| rule.back[k] == cb.get(x))
                            && self.match_ahead(l, g, pos[pos.len() - 1], rule.look.len(), &|k, x| rule.look[k] == cl.get(x))
                        {
                            return Some((pos, rule.recs.clone()));
                        }
                    }
                }
                None
            }
            Ctx::Coverages { back, input, look, recs } => {
                if input.is_empty() || !input[0].contains(&g0) {
                    return None;
                }
                let pos = self.match_input(l, g, i, input.len() - 1, &|k, x| input[k + 1].contains(&x))?;
                if self.match_back(l, g, i, back.len(), &|k, x| back[k].contains(&x))
                    && self.match_ahead(l, g, pos[pos.len() - 1], look.len(), &|k, x| look[k].contains(&x))
                {
                    Some((pos, recs.clone()))
                } else {
                    None
                }
            }
        }
    }

    /// HarfBuzz `apply_lookup`: nested lookups at the matched positions, positions adjusted when a nested
    /// lookup changes the length; returns the index after the (adjusted) input sequence.
    #[allow(clippy::too_many_arguments)]
    fn apply_nested(&self, lay: &Layout, this: usize, b: &mut Buf, mut pos: Vec<usize>, recs: &[SeqRec], depth: usize,
                    notes: &mut BTreeSet<String>, gpos: bool) -> usize {
        let mut count = pos.len() as isize;
        let mut end = (pos[pos.len() - 1] + 1) as isize;
        if depth >= MAX_DEPTH {
            notes.insert("nesting limit".into());
            return end as usize;
        }
        for rec in recs {
            let idx = rec.seq_idx as isize;
            if idx >= count {
                continue;
            }
            // do not recurse to ourself at the same position
            if idx == 0 && rec.lookup == this {
                continue;
            }
            let orig_len = b.g.len() as isize;
            let p = pos[idx as usize];
            let applied = if gpos {
                self.gpos_at(lay, rec.lookup, b, p, notes).is_some()
            } else {
                self.gsub_at(lay, rec.lookup, b, p, depth + 1, notes).is_some()
            };
            if !applied {
                continue;
            }
            let mut delta = b.g.len() as isize - orig_len;
            if delta == 0 {
                continue;
            }
            end += delta;
            if end < p as isize {
                end -= delta;
                break;
            }
            let mut next = idx + 1;
            if delta > 0 {
                if delta + count > MAX_LEN as isize {
                    break;
                }
            } else {
                delta = delta.max(next - count);
                next -= delta;
            }
            // shift the tail
            let mut np: Vec<isize> = pos.iter().map(|&x| x as isize).collect();
            let old = np.clone();
            np.resize((count + delta).max(0) as usize, 0);
            for k in next..count {
                let dst = k + delta;
                if dst >= 0 && (dst as usize) < np.len() {
                    np[dst as usize] = old[k as usize];
                }
            }
            next += delta;
            count += delta;
            for j in (idx + 1)..next {
                np[j as usize] = np[(j - 1) as usize] + 1;
            }
            for j in next..count {
                np[j as usize] += delta;
            }
            pos = np.into_iter().map(|x| x.max(0) as usize).collect();
        }
        end.max(0) as usize
    }

    fn gpos_at(&self, lay: &Layout, li: usize, b: &mut Buf, i: usize, notes: &mut BTreeSet<String>) -> Option<usize> {
        let l = lay.lookups.get(li)?;
        if i >= b.g.len() {
            return None;
        }
        let g0 = b.g[i];
        let add = |dst: &mut Val, v: &Val| {
            for k in 0..4 {
                dst[k] += v[k];
            }
        };
        for sub in &l.subs {
            match sub {
                Sub::SinglePos(m) => {
                    if let Some(v) = m.get(&g0) {
                        add(&mut b.v[i], v);
                        return Some(i + 1);
                    }
                }
                Sub::Pair1 { sets, second } => {
                    if let Some(recs) = sets.get(&g0) {
                        let j = self.next(l, &b.g, i + 1)?;
                        if let Some((_, v1, v2)) = recs.iter().find(|(s, _, _)| *s == b.g[j]) {
                            add(&mut b.v[i], v1);
                            add(&mut b.v[j], v2);
                            return Some(if *second { j + 1 } else { j });
                        }
                    }
                }
                Sub::Pair2 { cov, c1, c2, n1, n2, recs, second } => {
                    if cov.contains(&g0) {
                        let j = self.next(l, &b.g, i + 1)?;
                        let (k1, k2) = (c1.get(g0) as usize, c2.get(b.g[j]) as usize);
                        if k1 < *n1 && k2 < *n2 {
                            let (v1, v2) = &recs[k1][k2];
                            add(&mut b.v[i], v1);
                            add(&mut b.v[j], v2);
                            return Some(if *second { j + 1 } else { j });
                        }
                    }
                }
                Sub::Unsupported(what) => {
                    notes.insert(format!("unsupported: {what}"));
                }
                _ => {
                    notes.insert("GSUB subtable in GPOS lookup".into());
                }
            }
        }
        None
    }

    fn selected(lay: &Layout, script: &str, lang: &str, feats: &[String]) -> Vec<usize> {
        // Literal resolution: what this table registers for exactly this script and language ("dflt" is the
        // script's DefaultLangSys). The fallbacks a shaper adds (script -> DFLT, language -> DefaultLangSys) act
        // per table and are not something a feature file talks about, so they are not applied here.
        let Some((dflt, langs)) = lay.scripts.get(script) else { return vec![] };
        let ls = if lang == "dflt" { dflt.as_ref() } else { langs.get(lang) };
        let Some(ls) = ls else { return vec![] };
        let mut out = BTreeSet::new();
        let mut take = |fi: usize, always: bool| {
            if let Some((tag, lookups)) = lay.features.get(fi) {
                if always || feats.iter().any(|f| f == tag) {
                    out.extend(lookups.iter().copied());
                }
            }
        };
        if let Some(r) = ls.required {
            take(r, true);
        }
        for &fi in &ls.features {
            take(fi, false);
        }
        out.into_iter().collect()
    }

    fn shape(&self, script: &str, lang: &str, feats: &[String], input: &[u16], notes: &mut BTreeSet<String>) -> Buf {
        let mut b = Buf { g: input.to_vec(), v: vec![] };
        if let Some(lay) = &self.gsub {
            for li in Self::selected(lay, script, lang, feats) {
                let l = &lay.lookups[li];
                let mut i = 0;
                while i < b.g.len() {
                    if self.skip(l, b.g[i]) {
                        i += 1;
                        continue;
                    }
                    match self.gsub_at(lay, li, &mut b, i, 0, notes) {
                        Some(n) => i = n,
                        None => i += 1,
                    }
                }
            }
        }
        b.v = vec![[0; 4]; b.g.len()];
        if let Some(lay) = &self.gpos {
            for li in Self::selected(lay, script, lang, feats) {
                let l = &lay.lookups[li];
                let mut i = 0;
                while i < b.g.len() {
                    if self.skip(l, b.g[i]) {
                        i += 1;
                        continue;
                    }
                    match self.gpos_at(lay, li, &mut b, i, notes) {
                        Some(n) => i = n.max(i + 1),
                        None => i += 1,
                    }
                }
            }
        }
        b
    }
}

// ------------------------------------------------------------------------------------------ driver

fn string_at(alpha: &[u16], n: usize) -> Vec<u16> {
    // n is 0-based here
    let a = alpha.len();
    if n < a {
        vec![alpha[n]]
    } else if n < a + a * a {
        let q = n - a;
        vec![alpha[q / a], alpha[q % a]]
    } else {
        let q = n - a - a * a;
        vec![alpha[q / (a * a)], alpha[(q / a) % a], alpha[q % a]]
    }
}

fn glyph_map(req: &Value) -> Result<GlyphMap, String> {
    let mut idents: Vec<GlyphIdent> = Vec::new();
    if let Some(names) = req.get("glyphs").and_then(Value::as_array) {
        for n in names {
            idents.push(GlyphIdent::Name(n.as_str().ok_or("glyph name")?.into()));
        }
    } else if let Some(p) = req.get("glyph_order_file").and_then(Value::as_str) {
        let text = std::fs::read_to_string(p).map_err(|e| format!("{p}: {e}"))?;
        for line in text.lines() {
            let line = line.trim();
            if !line.is_empty() && !line.starts_with('#') {
                idents.push(GlyphIdent::Name(line.into()));
            }
        }
    } else {
        return Err("no glyph order".into());
    }
    if let Some(c) = req.get("add_cids").and_then(Value::as_array) {
        let (lo, hi) = (c[0].as_u64().unwrap_or(0) as u16, c[1].as_u64().unwrap_or(0) as u16);
        for cid in lo..=hi {
            idents.push(GlyphIdent::Cid(cid));
        }
    }
    GlyphMap::new(idents).map_err(|e| format!("glyph order: {e}"))
}

fn handle(req: &Value) -> Value {
    let tag = req.get("tag").cloned().unwrap_or(Value::Null);
    let fea: Arc<str> = Arc::from(req.get("fea").and_then(Value::as_str).unwrap_or(""));
    let gm = match glyph_map(req) {
        Ok(g) => g,
        Err(e) => return json!({"tag": tag, "outcome": "bad_request", "message": e}),
    };
    let fea2 = fea.clone();
    let compiled = std::panic::catch_unwind(std::panic::AssertUnwindSafe(|| {
        let resolver = move |p: &Path| -> Result<Arc<str>, fea_rs::parse::SourceLoadError> {
            if p == Path::new("features.fea") {
                Ok(fea2.clone())
            } else {
                Err(fea_rs::parse::SourceLoadError::new(
                    p.to_path_buf(),
                    std::io::Error::new(std::io::ErrorKind::NotFound, "no includes in this harness"),
                ))
            }
        };
        Compiler::<NopFeatureProvider, NopVariationInfo>::new("features.fea", &gm)
            .with_resolver(resolver)
            .compile_binary()
            .map_err(|e| match e {
                fea_rs::compile::error::CompilerError::ParseFail(d)
                | fea_rs::compile::error::CompilerError::ValidationFail(d)
                | fea_rs::compile::error::CompilerError::CompilationFail(d) => d.display().to_string(),
                other => other.to_string(),
            })
    }));
    let bytes = match compiled {
        Err(p) => {
            let msg = p
                .downcast_ref::<String>()
                .cloned()
                .or_else(|| p.downcast_ref::<&str>().map(|s| s.to_string()))
                .unwrap_or_default();
            return json!({"tag": tag, "outcome": "panic", "message": msg});
        }
        Ok(Err(e)) => return json!({"tag": tag, "outcome": "compile_error", "message": e}),
        Ok(Ok(b)) => b,
    };
    let font = match FontRef::new(&bytes) {
        Ok(f) => f,
        Err(e) => return json!({"tag": tag, "outcome": "bad_table", "message": format!("font: {e}")}),
    };
    let table = |t: &[u8; 4]| font.table_data(Tag::new(t)).map(|d| d.as_bytes().to_vec());
    let parsed = (|| -> R<Font> {
        Ok(Font {
            gsub: match table(b"GSUB") {
                Some(d) => Some(layout(&d, false).map_err(|e| format!("GSUB: {e}"))?),
                None => None,
            },
            gpos: match table(b"GPOS") {
                Some(d) => Some(layout(&d, true).map_err(|e| format!("GPOS: {e}"))?),
                None => None,
            },
            gdef: match table(b"GDEF") {
                Some(d) => gdef(&d).map_err(|e| format!("GDEF: {e}"))?,
                None => Gdef::default(),
            },
        })
    })();
    let f = match parsed {
        Ok(f) => f,
        Err(e) => return json!({"tag": tag, "outcome": "bad_table", "message": e}),
    };
    // read-fonts must at least agree that the tables are there (sanity; the interpretation is ours)
    let _ = (font.gsub().is_ok(), font.gpos().is_ok());

    let alpha: Vec<u16> = req
        .get("alpha")
        .and_then(Value::as_array)
        .map(|a| a.iter().map(|x| x.as_u64().unwrap_or(0) as u16).collect())
        .unwrap_or_default();
    let maxlen = req.get("maxlen").and_then(Value::as_u64).unwrap_or(3) as usize;
    let a = alpha.len();
    let total = match maxlen {
        1 => a,
        2 => a + a * a,
        _ => a + a * a + a * a * a,
    };
    let mut notes = BTreeSet::new();
    let mut results = Vec::new();
    let mut lookups_used = Vec::new();
    for q in req.get("queries").and_then(Value::as_array).cloned().unwrap_or_default() {
        let script = q[0].as_str().unwrap_or("DFLT").to_string();
        let lang = q[1].as_str().unwrap_or("dflt").to_string();
        let feats: Vec<String> = q[2].as_array().map(|v| v.iter().filter_map(|x| x.as_str().map(String::from)).collect()).unwrap_or_default();
        let mut sparse = Vec::new();
        for n in 0..total {
            let input = string_at(&alpha, n);
            let out = f.shape(&script, &lang, &feats, &input, &mut notes);
            let identity = out.g == input && out.v.iter().all(|v| v.iter().all(|&x| x == 0));
            if !identity {
                let adv: Vec<Value> = out
                    .v
                    .iter()
                    .map(|v| if v[0] == 0 && v[1] == 0 && v[3] == 0 { json!(v[2]) } else { json!(v.to_vec()) })
                    .collect();
                sparse.push(json!([n + 1, out.g, adv]));
            }
        }
        results.push(Value::Array(sparse));
        lookups_used.push(json!({
            "gsub": f.gsub.as_ref().map(|l| Font::selected(l, &script, &lang, &feats)),
            "gpos": f.gpos.as_ref().map(|l| Font::selected(l, &script, &lang, &feats)),
        }));
    }
    let describe = |l: &Option<Layout>| -> Value {
        match l {
            None => Value::Null,
            Some(l) => json!({
                "lookups": l.lookups.iter().map(|x| json!([x.ty, x.flag, x.subs.iter().map(|s| s.label()).collect::<Vec<_>>(), x.ext])).collect::<Vec<_>>(),
                "features": l.features.iter().map(|(t, ls)| json!([t, ls])).collect::<Vec<_>>(),
                "scripts": l.scripts.iter().map(|(t, (d, langs))| json!([t, d.is_some(), langs.keys().collect::<Vec<_>>()])).collect::<Vec<_>>(),
            }),
        }
    };
    json!({"tag": tag, "outcome": "ok", "results": results, "notes": notes.into_iter().collect::<Vec<_>>(),
           "info": {"gsub": describe(&f.gsub), "gpos": describe(&f.gpos), "used": lookups_used,
                    "marks": f.gdef.classes.0.iter().filter(|(_, c)| **c == 3).map(|(g, _)| *g).collect::<Vec<_>>()}})
}

pub fn run(args: &[String]) -> i32 {
    // quiet panics: they are data
    std::panic::set_hook(Box::new(|_| {}));
    let input: Box<dyn BufRead> = match args.first() {
        Some(p) => match std::fs::File::open(p) {
            Ok(f) => Box::new(std::io::BufReader::new(f)),
            Err(e) => {
                eprintln!("vh feasem: {p}: {e}");
                return 2;
            }
        },
        None => Box::new(std::io::BufReader::new(std::io::stdin())),
    };
    let stdout = std::io::stdout();
    let mut out = stdout.lock();
    for line in input.lines() {
        let Ok(line) = line else { break };
        if line.trim().is_empty() {
            continue;
        }
        let res = match serde_json::from_str::<Value>(&line) {
            Ok(req) => handle(&req),
            Err(e) => json!({"outcome": "bad_request", "message": e.to_string()}),
        };
        let _ = writeln!(out, "{res}");
        let _ = out.flush();
    }
    0
}
