//! `vh limits`: read a compiled font back for the C19 check (spec/Limits.tla, checks/c19.py).
//!
//! `vh limits std-names` prints the 258 standard Macintosh glyph names as a JSON array.
//! stdin: ndjson requests
//!   {"tag": "...", "font": "/path/out.ttf", "glyphs": ["a", ...], "locs": [[normalized coords], ...],
//!    "pairs": [["a","b"], ...], "marks": [["base","mark"], ...]}
//! stdout: one JSON line per request. Everything is *measured* from the binary (read-fonts / skrifa and a
//! private decoder for the raw simple-glyph coordinate deltas); nothing is judged here. The classification
//! of outcomes (Exact / Fallback / Wrapped / Clamped ...) is done by TLC on spec/LimitsObs.tla.
//!
//!   num_glyphs (maxp), loca_len, number_of_h_metrics, maxp{..}, os2{width_class, weight_class}, axes[..]
//!   glyphs{name: {gid, advance (u16 from hmtx), lsb (i16 from hmtx), vadvance / tsb (vmtx, if any), kind, bbox,
//!                 raw{dx:[i16..], dy:[i16..], points:[[x,y,on]..] accumulated in i32 WITHOUT wrapping, ends},
//!                 components[{name, gid, dx, dy, by_point, xx, yx, xy, yy (raw 2.14 bits), flags}]}}
//!   at[{loc, glyphs{name: {path (skrifa, unscaled, unhinted), advance = hmtx + trunc(HVAR delta),
//!                          hvar_delta, skrifa_advance}}}]
//!   pairs[{left, right, found, x_advance, var, deltas[per loc]}]         (GPOS PairPos format 1 and 2)
//!   marks[{base, mark, found, base_anchor{x,y,format,dx[per loc],dy[per loc]}, mark_anchor{..}}]
//!   gvar{name: [{peak:[..], deltas:[[point, dx, dy]..]}]}                (raw tuple deltas)

use std::collections::BTreeMap;
use std::io::{BufRead, Write};

use serde_json::{Map, Value, json};
use skrifa::{
    MetadataProvider,
    raw::{
        FontData, FontRef, ReadError, TableProvider,
        tables::{
            glyf::{Anchor, Glyph},
            gpos::{AnchorTable, PairPos, PositionLookup, PositionSubtables, ValueRecord},
            layout::DeviceOrVariationIndex,
            variations::{DeltaSetIndex, ItemVariationStore},
        },
        types::{F2Dot14, GlyphId},
    },
};

use crate::fontutil;

/// Decode the coordinate deltas of a simple glyph exactly as stored (no wrapping on accumulation).
fn raw_simple(bytes: &[u8]) -> Option<Value> {
    let rd16 = |o: usize| -> Option<i16> { Some(i16::from_be_bytes([*bytes.get(o)?, *bytes.get(o + 1)?])) };
    let ncont = rd16(0)?;
    if ncont <= 0 {
        return None;
    }
    let mut o = 10;
    let mut ends = Vec::new();
    for _ in 0..ncont {
        ends.push(rd16(o)? as u16);
        o += 2;
    }
    let npts = *ends.last()? as usize + 1;
    let ilen = rd16(o)? as u16 as usize;
    o += 2 + ilen;
    let mut flags = Vec::with_capacity(npts);
    while flags.len() < npts {
        let f = *bytes.get(o)?;
        o += 1;
        flags.push(f);
        if f & 0x08 != 0 {
            let rep = *bytes.get(o)?;
            o += 1;
            for _ in 0..rep {
                if flags.len() < npts {
                    flags.push(f);
                }
            }
        }
    }
    let mut read_axis = |short: u8, same: u8| -> Option<Vec<i32>> {
        let mut v = Vec::with_capacity(npts);
        for f in &flags {
            let d: i32 = if f & short != 0 {
                let b = *bytes.get(o)? as i32;
                o += 1;
                if f & same != 0 { b } else { -b }
            } else if f & same != 0 {
                0
            } else {
                let d = i16::from_be_bytes([*bytes.get(o)?, *bytes.get(o + 1)?]) as i32;
                o += 2;
                d
            };
            v.push(d);
        }
        Some(v)
    };
    let dx = read_axis(0x02, 0x10)?;
    let dy = read_axis(0x04, 0x20)?;
    let (mut x, mut y) = (0i32, 0i32);
    let mut pts = Vec::with_capacity(npts);
    for i in 0..npts {
        x += dx[i];
        y += dy[i];
        pts.push(json!([x, y, flags[i] & 1]));
    }
    Some(json!({"dx": dx, "dy": dy, "points": pts, "ends": ends}))
}

fn var_delta(
    dev: Option<Result<DeviceOrVariationIndex, ReadError>>,
    ivs: Option<&ItemVariationStore>,
    locs: &[Vec<F2Dot14>],
) -> (bool, Vec<i32>) {
    match (dev, ivs) {
        (Some(Ok(DeviceOrVariationIndex::VariationIndex(vi))), Some(ivs)) => {
            let idx = DeltaSetIndex { outer: vi.delta_set_outer_index(), inner: vi.delta_set_inner_index() };
            (true, locs.iter().map(|c| ivs.compute_delta(idx, c).unwrap_or(i32::MIN)).collect())
        }
        _ => (false, locs.iter().map(|_| 0).collect()),
    }
}

fn value_json(vr: &ValueRecord, data: FontData, ivs: Option<&ItemVariationStore>, locs: &[Vec<F2Dot14>]) -> Value {
    let (var, deltas) = var_delta(vr.x_advance_device(data), ivs, locs);
    json!({"x_advance": vr.x_advance().unwrap_or(0), "has_x_advance": vr.x_advance().is_some(),
           "x_placement": vr.x_placement().unwrap_or(0), "var": var, "deltas": deltas})
}

fn anchor_json(a: &AnchorTable, ivs: Option<&ItemVariationStore>, locs: &[Vec<F2Dot14>]) -> Value {
    match a {
        AnchorTable::Format1(t) => json!({"format": 1, "x": t.x_coordinate(), "y": t.y_coordinate(),
            "var": false, "dx": locs.iter().map(|_| 0).collect::<Vec<i32>>(), "dy": locs.iter().map(|_| 0).collect::<Vec<i32>>()}),
        AnchorTable::Format2(t) => json!({"format": 2, "x": t.x_coordinate(), "y": t.y_coordinate(),
            "var": false, "dx": locs.iter().map(|_| 0).collect::<Vec<i32>>(), "dy": locs.iter().map(|_| 0).collect::<Vec<i32>>()}),
        AnchorTable::Format3(t) => {
            let (vx, dx) = var_delta(t.x_device(), ivs, locs);
            let (vy, dy) = var_delta(t.y_device(), ivs, locs);
            json!({"format": 3, "x": t.x_coordinate(), "y": t.y_coordinate(), "var": vx || vy, "dx": dx, "dy": dy})
        }
    }
}

fn gpos_section(
    font: &FontRef,
    gid_of: &BTreeMap<String, u32>,
    pairs: &[(String, String)],
    marks: &[(String, String)],
    locs: &[Vec<F2Dot14>],
    out: &mut Map<String, Value>,
) {
    let mut pair_out: Vec<Value> = pairs
        .iter()
        .map(|(l, r)| json!({"left": l, "right": r, "found": false}))
        .collect();
    let mut mark_out: Vec<Value> = marks
        .iter()
        .map(|(b, m)| json!({"base": b, "mark": m, "found": false}))
        .collect();
    let ivs = font.gdef().ok().and_then(|g| g.item_var_store()).and_then(|r| r.ok());
    let ivs = ivs.as_ref();
    let Ok(gpos) = font.gpos() else {
        out.insert("has_gpos".into(), json!(false));
        out.insert("pairs".into(), json!(pair_out));
        out.insert("marks".into(), json!(mark_out));
        return;
    };
    out.insert("has_gpos".into(), json!(true));
    let Ok(lookups) = gpos.lookup_list() else { return };
    for lookup in lookups.lookups().iter().flatten() {
        let Ok(subtables) = lookup.subtables() else { continue };
        match subtables {
            PositionSubtables::Pair(subs) => {
                for sub in subs.iter().flatten() {
                    for (k, (l, r)) in pairs.iter().enumerate() {
                        if pair_out[k]["found"] == json!(true) {
                            continue;
                        }
                        let (Some(&g1), Some(&g2)) = (gid_of.get(l), gid_of.get(r)) else { continue };
                        let (g1, g2) = (GlyphId::new(g1), GlyphId::new(g2));
                        match &sub {
                            PairPos::Format1(t) => {
                                let Some(ci) = t.coverage().ok().and_then(|c| c.get(g1)) else { continue };
                                let Some(Ok(set)) = t.pair_sets().get(ci as usize).ok().map(Ok::<_, ReadError>) else {
                                    continue;
                                };
                                for rec in set.pair_value_records().iter().flatten() {
                                    if GlyphId::from(rec.second_glyph()) == g2 {
                                        let v = value_json(rec.value_record1(), set.offset_data(), ivs, locs);
                                        pair_out[k] = json!({"left": l, "right": r, "found": true, "format": 1, "value": v});
                                    }
                                }
                            }
                            PairPos::Format2(t) => {
                                if t.coverage().ok().and_then(|c| c.get(g1)).is_none() {
                                    continue;
                                }
                                let (Ok(cd1), Ok(cd2)) = (t.class_def1(), t.class_def2()) else { continue };
                                let (c1, c2) = (cd1.get(g1), cd2.get(g2));
                                let Ok(c1rec) = t.class1_records().get(c1 as usize) else { continue };
                                let Ok(c2rec) = c1rec.class2_records().get(c2 as usize) else { continue };
                                let v = value_json(c2rec.value_record1(), t.offset_data(), ivs, locs);
                                pair_out[k] = json!({"left": l, "right": r, "found": true, "format": 2, "value": v});
                            }
                        }
                    }
                }
            }
            PositionSubtables::MarkToBase(subs) => {
                for sub in subs.iter().flatten() {
                    for (k, (b, m)) in marks.iter().enumerate() {
                        let (Some(&gb), Some(&gm)) = (gid_of.get(b), gid_of.get(m)) else { continue };
                        let (gb, gm) = (GlyphId::new(gb), GlyphId::new(gm));
                        let Some(bi) = sub.base_coverage().ok().and_then(|c| c.get(gb)) else { continue };
                        let Some(mi) = sub.mark_coverage().ok().and_then(|c| c.get(gm)) else { continue };
                        let (Ok(marr), Ok(barr)) = (sub.mark_array(), sub.base_array()) else { continue };
                        let Some(mrec) = marr.mark_records().get(mi as usize) else { continue };
                        let class = mrec.mark_class();
                        let Ok(manchor) = mrec.mark_anchor(marr.offset_data()) else { continue };
                        let Ok(brec) = barr.base_records().get(bi as usize) else { continue };
                        let Some(Ok(banchor)) = brec.base_anchors(barr.offset_data()).get(class as usize) else {
                            continue;
                        };
                        mark_out[k] = json!({"base": b, "mark": m, "found": true, "class": class,
                            "base_anchor": anchor_json(&banchor, ivs, locs),
                            "mark_anchor": anchor_json(&manchor, ivs, locs)});
                    }
                }
            }
            _ => {}
        }
    }
    out.insert("pairs".into(), json!(pair_out));
    out.insert("marks".into(), json!(mark_out));
}

fn read_font(req: &Value) -> Result<Value, String> {
    let path = req["font"].as_str().ok_or("no font")?;
    let data = std::fs::read(path).map_err(|e| format!("cannot read {path}: {e}"))?;
    let font = FontRef::new(&data).map_err(|e| format!("cannot parse font: {e}"))?;
    let mut out = Map::new();
    out.insert("size".into(), json!(data.len()));
    let want: Vec<String> = serde_json::from_value(req["glyphs"].clone()).unwrap_or_default();
    let locs_f: Vec<Vec<f64>> = serde_json::from_value(req["locs"].clone()).unwrap_or_default();
    let locs: Vec<Vec<F2Dot14>> = locs_f.iter().map(|l| fontutil::f2dot14s(l)).collect();
    let pairs: Vec<(String, String)> = serde_json::from_value(req["pairs"].clone()).unwrap_or_default();
    let marks: Vec<(String, String)> = serde_json::from_value(req["marks"].clone()).unwrap_or_default();

    let maxp = font.maxp().map_err(|e| format!("maxp: {e}"))?;
    let ng = maxp.num_glyphs() as u32;
    out.insert("num_glyphs".into(), json!(ng));
    out.insert("maxp".into(), json!({"num_glyphs": ng, "max_points": maxp.max_points(),
        "max_contours": maxp.max_contours(), "max_composite_points": maxp.max_composite_points(),
        "max_composite_contours": maxp.max_composite_contours(),
        "max_component_elements": maxp.max_component_elements(), "max_component_depth": maxp.max_component_depth()}));
    if let Ok(h) = font.hhea() {
        out.insert("number_of_h_metrics".into(), json!(h.number_of_h_metrics()));
        out.insert("advance_width_max".into(), json!(h.advance_width_max().to_u16()));
    }
    if let Ok(o) = font.os2() {
        out.insert("os2".into(), json!({"width_class": o.us_width_class(), "weight_class": o.us_weight_class()}));
    }
    let mut axes = Vec::new();
    if let Ok(fvar) = font.fvar()
        && let Ok(ax) = fvar.axes()
    {
        for a in ax {
            axes.push(json!({"tag": a.axis_tag().to_string(), "min": a.min_value().to_f64(),
                "default": a.default_value().to_f64(), "max": a.max_value().to_f64()}));
        }
    }
    out.insert("axes".into(), json!(axes));
    let tags: Vec<String> = font.table_directory.table_records().iter().map(|r| r.tag().to_string()).collect();
    out.insert("tables".into(), json!(tags));

    // names: the post table for small fonts; for big ones only the requested names are resolved
    let names = fontutil::glyph_names(&font);
    let mut gid_of: BTreeMap<String, u32> = BTreeMap::new();
    for (i, n) in names.iter().enumerate() {
        gid_of.entry(n.clone()).or_insert(i as u32);
    }
    let loca = font.loca(None).ok();
    let glyf = font.glyf().ok();
    out.insert("loca_len".into(), json!(loca.as_ref().map(|l| l.len())));
    let hmtx = font.hmtx().ok();
    let vmtx = font.vmtx().ok();
    let hvar = font.hvar().ok();
    let gvar = font.gvar().ok();
    let mut gl = Map::new();
    let mut gv = Map::new();
    for name in &want {
        let Some(&gid) = gid_of.get(name) else {
            gl.insert(name.clone(), json!({"kind": "missing"}));
            continue;
        };
        let g = GlyphId::new(gid);
        let mut o = Map::new();
        o.insert("gid".into(), json!(gid));
        if let Some(h) = &hmtx {
            o.insert("advance".into(), json!(h.advance(g)));
            o.insert("lsb".into(), json!(h.side_bearing(g)));
        }
        if let Some(v) = &vmtx {
            o.insert("vadvance".into(), json!(v.advance(g)));
            o.insert("tsb".into(), json!(v.side_bearing(g)));
        }
        if let (Some(loca), Some(glyf)) = (&loca, &glyf) {
            let (s, e) = (loca.get_raw(gid as usize), loca.get_raw(gid as usize + 1));
            match loca.get_glyf(g, glyf) {
                Ok(None) => {
                    o.insert("kind".into(), json!("empty"));
                }
                Ok(Some(Glyph::Simple(sg))) => {
                    o.insert("kind".into(), json!("simple"));
                    o.insert("bbox".into(), json!([sg.x_min(), sg.y_min(), sg.x_max(), sg.y_max()]));
                    o.insert("num_points".into(), json!(sg.num_points()));
                    o.insert("num_contours".into(), json!(sg.number_of_contours()));
                    let rf: Vec<Value> = sg.points().map(|p| json!([p.x, p.y, p.on_curve as u8])).collect();
                    o.insert("readfonts_points".into(), json!(rf));
                    if let (Some(s), Some(e)) = (s, e) {
                        let bytes = glyf.offset_data().as_bytes();
                        if let Some(b) = bytes.get(s as usize..e as usize) {
                            o.insert("raw".into(), raw_simple(b).unwrap_or(Value::Null));
                        }
                    }
                }
                Ok(Some(Glyph::Composite(c))) => {
                    o.insert("kind".into(), json!("composite"));
                    o.insert("bbox".into(), json!([c.x_min(), c.y_min(), c.x_max(), c.y_max()]));
                    let comps: Vec<Value> = c
                        .components()
                        .map(|k| {
                            let (dx, dy, by_point) = match k.anchor {
                                Anchor::Offset { x, y } => (x as i32, y as i32, false),
                                Anchor::Point { base, component } => (base as i32, component as i32, true),
                            };
                            json!({"gid": k.glyph.to_u16(), "name": names.get(k.glyph.to_u16() as usize),
                                "flags": k.flags.bits(), "dx": dx, "dy": dy, "by_point": by_point,
                                "xx": k.transform.xx.to_bits(), "yx": k.transform.yx.to_bits(),
                                "xy": k.transform.xy.to_bits(), "yy": k.transform.yy.to_bits()})
                        })
                        .collect();
                    o.insert("components".into(), json!(comps));
                }
                Err(e) => {
                    o.insert("kind".into(), json!("unreadable"));
                    o.insert("message".into(), json!(e.to_string()));
                }
            }
        }
        gl.insert(name.clone(), Value::Object(o));
        if let Some(gvar) = &gvar
            && let Ok(Some(vd)) = gvar.glyph_variation_data(g)
        {
            let mut tuples = Vec::new();
            for t in vd.tuples() {
                let peak: Vec<f32> = t.peak().values().iter().map(|v| v.get().to_f32()).collect();
                let deltas: Vec<Value> = t.deltas().map(|d| json!([d.position, d.x_delta, d.y_delta])).collect();
                tuples.push(json!({"peak": peak, "all_points": t.has_deltas_for_all_points(), "deltas": deltas}));
            }
            gv.insert(name.clone(), json!(tuples));
        }
    }
    out.insert("glyphs".into(), Value::Object(gl));
    out.insert("gvar".into(), Value::Object(gv));

    let mut at = Vec::new();
    for (li, coords) in locs.iter().enumerate() {
        let mut per = Map::new();
        for name in &want {
            let Some(&gid) = gid_of.get(name) else { continue };
            let g = GlyphId::new(gid);
            let mut o = Map::new();
            o.insert("path".into(), json!(fontutil::draw(&font, gid, coords)));
            let (sk_adv, _) = fontutil::h_metrics(&font, gid, coords);
            o.insert("skrifa_advance".into(), json!(sk_adv));
            if let Some(h) = &hmtx {
                let raw = h.advance(g).map(|a| a as i64);
                let d = hvar
                    .as_ref()
                    .and_then(|hv| hv.advance_width_delta(g, coords).ok())
                    .map(|f| f.to_f64());
                o.insert("hvar_delta".into(), json!(d));
                o.insert("advance".into(), json!(raw.map(|r| r + d.unwrap_or(0.0) as i64)));
            }
            per.insert(name.clone(), Value::Object(o));
        }
        at.push(json!({"loc": locs_f[li], "glyphs": per}));
    }
    out.insert("at".into(), json!(at));
    gpos_section(&font, &gid_of, &pairs, &marks, &locs, &mut out);
    Ok(Value::Object(out))
}

pub fn run(args: &[String]) -> i32 {
    if args.first().map(|s| s.as_str()) == Some("std-names") {
        // the 258 standard Macintosh glyph names (post format 2 needs no string for them)
        println!("{}", json!(skrifa::raw::tables::post::DEFAULT_GLYPH_NAMES.to_vec()));
        return 0;
    }
    let input: Box<dyn BufRead> = match args.first() {
        Some(p) => match std::fs::File::open(p) {
            Ok(f) => Box::new(std::io::BufReader::new(f)),
            Err(e) => {
                eprintln!("vh limits: cannot open {p}: {e}");
                return 2;
            }
        },
        None => Box::new(std::io::BufReader::new(std::io::stdin())),
    };
    let stdout = std::io::stdout();
    for line in input.lines() {
        let Ok(line) = line else { break };
        if line.trim().is_empty() {
            continue;
        }
        let req: Value = match serde_json::from_str(&line) {
            Ok(v) => v,
            Err(e) => {
                eprintln!("vh limits: bad request: {e}");
                return 2;
            }
        };
        let tag = req["tag"].clone();
        let res = std::panic::catch_unwind(|| read_font(&req));
        let mut v = match res {
            Ok(Ok(v)) => {
                let mut m = v.as_object().cloned().unwrap_or_default();
                m.insert("outcome".into(), json!("ok"));
                Value::Object(m)
            }
            Ok(Err(e)) => json!({"outcome": "unreadable", "message": e}),
            Err(p) => {
                let msg = p
                    .downcast_ref::<String>()
                    .cloned()
                    .or_else(|| p.downcast_ref::<&str>().map(|s| s.to_string()))
                    .unwrap_or_default();
                json!({"outcome": "panic", "message": msg})
            }
        };
        v["tag"] = tag;
        let mut lock = stdout.lock();
        let _ = writeln!(lock, "{v}");
        let _ = lock.flush();
    }
    0
}
