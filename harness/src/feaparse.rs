//! `vh feaparse`: drive the real fea-rs front end for property C13 (see /verif/docs/C13.md).
//!
//! ndjson requests on stdin (or `--in <file>`), one JSON result line per request on stdout, and (with
//! `--trace-out <file>`) one ndjson *trace record* per parsed input for the TLC trace validator
//! spec/FeaParseTrace.tla.  This file only calls the real code and projects what it returned: the parse tree
//! as a pre-order event list (Start/Token/Finish), the diagnostics as ranges + measured facts about the
//! source they point into.  All judging is done by TLC (FeaParseTrace.tla) and checks/c13.py.
//!
//! Requests:
//!  {"op":"parse","tag":..,"text":..,"glyphs":[names or cids]|null}
//!  {"op":"include","tag":..,"files":{"name":"text",..},"root":"name","dir":"/abs/dir" (on disk) | "" (in
//!   memory),"reference":"expected inlined text"|null,"glyphs":..}
//!
//! Every call into fea-rs happens inside catch_unwind on a worker thread; the main thread waits for each
//! result with a time budget (`--budget-ms`, default 20000).  A panic or a timeout is data; a timeout says in
//! which phase (parse | walk | format | validate) the worker was, and ends the process (the stuck thread cannot
//! be stopped); the driver starts a new process for the remaining requests.  The timeout line carries a few
//! stack samples of the stuck thread (return addresses as offsets into this executable).

use std::{
    collections::HashMap,
    fmt::Write as _,
    io::{BufRead, Write},
    panic::{AssertUnwindSafe, catch_unwind},
    path::{Path, PathBuf},
    sync::{
        Arc,
        atomic::{AtomicU8, AtomicUsize, Ordering},
        mpsc,
    },
    time::{Duration, Instant},
};

use fea_rs::{
    DiagnosticSet, GlyphMap, Kind, NodeOrToken, ParseTree,
    compile::NopVariationInfo,
    parse::{SourceLoadError, parse_root, parse_root_file},
};
use serde::Deserialize;
use serde_json::{Value, json};

#[derive(Debug, Default, Clone, Deserialize)]
#[serde(default)]
struct Req {
    op: String,
    tag: String,
    text: String,
    glyphs: Option<Vec<Value>>,
    files: HashMap<String, String>,
    root: String,
    dir: String,
    reference: Option<String>,
    /// keep the materialised files (default: remove the directory afterwards)
    keep: bool,
    /// time budget for this request (0 = the --budget-ms default)
    budget_ms: u64,
}

static PHASE: AtomicU8 = AtomicU8::new(0);

// ---- where is a stuck worker?  SIGUSR1 makes the worker thread record its return addresses (glibc
// backtrace(), no allocation); the driver symbolises the offsets with `nm`.
const MAX_FRAMES: usize = 96;
static SAMPLE: [AtomicUsize; MAX_FRAMES] = [const { AtomicUsize::new(0) }; MAX_FRAMES];
static SAMPLE_N: AtomicUsize = AtomicUsize::new(0);
static WORKER: AtomicUsize = AtomicUsize::new(0);

extern "C" fn on_sigusr1(_: libc::c_int) {
    let mut buf = [std::ptr::null_mut::<libc::c_void>(); MAX_FRAMES];
    let n = unsafe { libc::backtrace(buf.as_mut_ptr(), MAX_FRAMES as libc::c_int) };
    for (i, a) in buf.iter().enumerate().take(n.max(0) as usize) {
        SAMPLE[i].store(*a as usize, Ordering::SeqCst);
    }
    SAMPLE_N.store(n.max(0) as usize, Ordering::SeqCst);
}

fn install_sampler() {
    unsafe {
        // first call loads the unwinder; do it outside the handler
        let mut warm = [std::ptr::null_mut::<libc::c_void>(); 4];
        libc::backtrace(warm.as_mut_ptr(), 4);
        let mut sa: libc::sigaction = std::mem::zeroed();
        sa.sa_sigaction = on_sigusr1 as *const () as usize;
        sa.sa_flags = libc::SA_RESTART;
        libc::sigemptyset(&mut sa.sa_mask);
        libc::sigaction(libc::SIGUSR1, &sa, std::ptr::null_mut());
    }
}

/// load address of the executable (offsets are what `nm` prints for a PIE)
fn exe_base() -> usize {
    let exe = std::env::current_exe().ok().map(|p| p.to_string_lossy().to_string()).unwrap_or_default();
    let maps = std::fs::read_to_string("/proc/self/maps").unwrap_or_default();
    for line in maps.lines() {
        if line.ends_with(&exe) {
            if let Some(lo) = line.split('-').next() {
                return usize::from_str_radix(lo, 16).unwrap_or(0);
            }
        }
    }
    0
}

/// a few stack samples of the stuck worker, as offsets into the executable (outermost frame last)
fn sample_worker() -> Vec<Vec<String>> {
    let tid = WORKER.load(Ordering::SeqCst);
    let base = exe_base();
    let mut out = Vec::new();
    if tid == 0 {
        return out;
    }
    for _ in 0..12 {
        SAMPLE_N.store(0, Ordering::SeqCst);
        unsafe { libc::pthread_kill(tid as libc::pthread_t, libc::SIGUSR1) };
        let t = Instant::now();
        while SAMPLE_N.load(Ordering::SeqCst) == 0 && t.elapsed() < Duration::from_millis(300) {
            std::thread::sleep(Duration::from_millis(2));
        }
        let n = SAMPLE_N.load(Ordering::SeqCst);
        if n > 0 {
            out.push(
                (0..n)
                    .map(|i| SAMPLE[i].load(Ordering::SeqCst))
                    .filter(|a| *a >= base)
                    .map(|a| format!("{:x}", a - base))
                    .collect(),
            );
        }
        std::thread::sleep(Duration::from_millis(23));
    }
    out
}
const PHASES: [&str; 6] = ["idle", "parse", "walk", "format", "validate", "record"];

fn phase(p: u8) {
    PHASE.store(p, Ordering::SeqCst);
}

/// 30-bit FNV-1a (TLC integers are 32-bit signed)
fn h30(bytes: &[u8]) -> u32 {
    let mut h: u32 = 0x811c9dc5;
    for b in bytes {
        h ^= *b as u32;
        h = h.wrapping_mul(0x01000193);
    }
    (h ^ (h >> 30)) & 0x3fff_ffff
}

fn panic_text(err: Box<dyn std::any::Any + Send>) -> String {
    match err.downcast_ref::<&'static str>() {
        Some(s) => s.to_string(),
        None => match err.downcast_ref::<String>() {
            Some(s) => s.clone(),
            None => "Box<dyn Any>".to_string(),
        },
    }
}

thread_local! {
    static LAST_PANIC_LOC: std::cell::RefCell<String> = const { std::cell::RefCell::new(String::new()) };
}

fn last_loc() -> String {
    LAST_PANIC_LOC.with(|l| l.borrow().clone())
}

fn glyph_map(glyphs: &Option<Vec<Value>>) -> Option<GlyphMap> {
    let glyphs = glyphs.as_ref()?;
    let idents: Vec<fea_rs::GlyphIdent> = glyphs
        .iter()
        .filter_map(|v| match v {
            Value::String(s) => Some(s.as_str().into()),
            Value::Number(n) => n.as_u64().map(|n| (n as u16).into()),
            _ => None,
        })
        .collect();
    GlyphMap::new(idents).ok()
}

/// What the tree looks like as sink events, measured against `input`.
struct Walk {
    /// JSON array text
    events: String,
    nev: usize,
    concat: String,
    ntok: usize,
    nnode: usize,
    max_depth: usize,
    /// hash of the sequence of event kinds (for counting distinct tree shapes)
    shape: u32,
    /// some GlyphRange node is not the child of a GlyphClass node (a measured fact about the tree)
    bare_range: bool,
}

struct KindNames(HashMap<Kind, String>);
impl KindNames {
    fn get(&mut self, k: Kind) -> &str {
        self.0.entry(k).or_insert_with(|| serde_json::to_string(&k.to_string()).unwrap())
    }
}

/// Pre-order walk with an explicit stack (a deep tree must not overflow *our* stack).
/// Token event: k kind, n byte length of the token text, at = running offset (sum of the lengths of the
/// tokens before it), h = hash of the token text, s = hash of input[at..at+n] (-1 if that is not a valid
/// slice of the input).  Start event: k kind, n = the node's own text_len field, x = its error flag.
fn walk(tree: &ParseTree, input: &str, keep_concat: bool) -> Walk {
    let root = tree.root();
    let mut names = KindNames(HashMap::new());
    let mut w = Walk {
        events: String::with_capacity(64 + input.len() * 16),
        nev: 0,
        concat: String::new(),
        ntok: 0,
        nnode: 1,
        max_depth: 1,
        shape: 0x811c9dc5,
        bare_range: false,
    };
    let mut kinds = vec![root.kind()];
    let mix = |shape: &mut u32, s: &str| {
        for b in s.bytes() {
            *shape ^= b as u32;
            *shape = shape.wrapping_mul(0x01000193);
        }
    };
    let mut at: usize = 0;
    let k = names.get(root.kind()).to_string();
    let _ = write!(w.events, r#"[{{"e":"S","k":{},"n":{},"x":{}}}"#, k, root.text_len(), root.error);
    mix(&mut w.shape, &k);
    w.nev += 1;
    let mut stack = vec![root.iter_children()];
    while let Some(top) = stack.last_mut() {
        match top.next() {
            None => {
                stack.pop();
                kinds.pop();
                w.events.push_str(r#",{"e":"F"}"#);
                mix(&mut w.shape, ")");
            }
            Some(NodeOrToken::Token(t)) => {
                let text = t.as_str();
                let n = text.len();
                let s: i64 = match input.get(at..at + n) {
                    Some(slice) => h30(slice.as_bytes()) as i64,
                    None => -1,
                };
                let k = names.get(t.kind);
                let _ = write!(
                    w.events,
                    r#",{{"e":"T","k":{},"n":{},"at":{},"h":{},"s":{}}}"#,
                    k,
                    n,
                    at,
                    h30(text.as_bytes()),
                    s
                );
                mix(&mut w.shape, k);
                if keep_concat {
                    w.concat.push_str(text);
                }
                at += n;
                w.ntok += 1;
            }
            Some(NodeOrToken::Node(node)) => {
                w.nnode += 1;
                if node.kind() == Kind::GlyphRange && kinds.last() != Some(&Kind::GlyphClass) {
                    w.bare_range = true;
                }
                kinds.push(node.kind());
                let k = names.get(node.kind());
                let _ = write!(w.events, r#",{{"e":"S","k":{},"n":{},"x":{}}}"#, k, node.text_len(), node.error);
                mix(&mut w.shape, k);
                stack.push(node.iter_children());
                w.max_depth = w.max_depth.max(stack.len());
            }
        }
        w.nev += 1;
    }
    w.events.push(']');
    w
}

fn concat_tokens(tree: &ParseTree) -> String {
    tree.root().iter_tokens().map(|t| t.as_str()).collect()
}

/// A diagnostic as measured facts: range, length of the source it points into, char-boundary flags.
struct Diag {
    lo: usize,
    hi: usize,
    fl: i64,
    lb: bool,
    hb: bool,
    err: bool,
    file: String,
    msg: String,
}

impl Diag {
    fn inside(&self) -> bool {
        self.lo <= self.hi && (self.hi as i64) <= self.fl && self.lb && self.hb
    }
    fn full(&self, ph: &str) -> Value {
        json!({"lo":self.lo,"hi":self.hi,"fl":self.fl,"lb":self.lb,"hb":self.hb,
               "lv": if self.err {"E"} else {"W"}, "ph": ph, "file": self.file, "msg": self.msg})
    }
    fn brief(&self, out: &mut String, ph: &str) {
        let _ = write!(
            out,
            r#"{{"lo":{},"hi":{},"fl":{},"lb":{},"hb":{},"lv":"{}","ph":"{}"}}"#,
            self.lo,
            self.hi,
            self.fl,
            self.lb,
            self.hb,
            if self.err { "E" } else { "W" },
            ph
        );
    }
}

fn project_diags(tree: &ParseTree, diags: &DiagnosticSet) -> Vec<Diag> {
    diags
        .diagnostics()
        .iter()
        .map(|d| {
            let r = d.span();
            let src = tree.get_source(d.message.file);
            let (fl, lb, hb, file) = match src {
                Some(s) => {
                    let t = s.text();
                    (
                        t.len() as i64,
                        t.is_char_boundary(r.start),
                        t.is_char_boundary(r.end),
                        s.path().file_name().map(|f| f.to_string_lossy().to_string()).unwrap_or_default(),
                    )
                }
                None => (-1, false, false, String::new()),
            };
            Diag { lo: r.start, hi: r.end, fl, lb, hb, err: d.is_error(), file, msg: d.text().to_string() }
        })
        .collect()
}

struct Parsed {
    tree: ParseTree,
    diags: DiagnosticSet,
}

fn do_parse(req: &Req, gm: Option<&GlyphMap>) -> Result<Result<Parsed, String>, String> {
    // Ok(Ok(parsed)) | Ok(Err(load error)) | Err(panic message)
    let r = catch_unwind(AssertUnwindSafe(|| -> Result<(ParseTree, DiagnosticSet), SourceLoadError> {
        if req.op == "include" && !req.dir.is_empty() {
            let root = Path::new(&req.dir).join(&req.root);
            parse_root_file(root, gm, None)
        } else {
            let mut files: HashMap<PathBuf, Arc<str>> = HashMap::new();
            let root: PathBuf;
            if req.op == "include" {
                for (k, v) in &req.files {
                    files.insert(PathBuf::from(k), v.as_str().into());
                }
                root = PathBuf::from(&req.root);
            } else {
                root = PathBuf::from("root.fea");
                files.insert(root.clone(), req.text.as_str().into());
            }
            parse_root(
                root,
                gm,
                Box::new(move |p: &Path| {
                    files.get(p).cloned().ok_or_else(|| SourceLoadError::new(p.to_path_buf(), "no such file"))
                }),
            )
        }
    }));
    match r {
        Err(e) => Err(panic_text(e)),
        Ok(Err(e)) => Ok(Err(e.to_string())),
        Ok(Ok((tree, diags))) => Ok(Ok(Parsed { tree, diags })),
    }
}

/// Returns (result line, optional trace record body: the JSON object text without its leading `{`, so that
/// the caller can put the record number in front).
fn handle(req: &Req) -> (Value, Option<String>) {
    let t0 = Instant::now();
    let gm = glyph_map(&req.glyphs);
    if req.op == "include" && !req.dir.is_empty() {
        let _ = std::fs::create_dir_all(&req.dir);
        for (k, v) in &req.files {
            let _ = std::fs::write(Path::new(&req.dir).join(k), v);
        }
    }
    phase(1);
    let parsed = do_parse(req, gm.as_ref());
    let ms_parse = t0.elapsed().as_millis() as u64;
    phase(2);
    if req.op == "include" && !req.dir.is_empty() && !req.keep {
        let _ = std::fs::remove_dir_all(&req.dir);
    }
    let mut res = json!({"tag": req.tag, "op": req.op, "gm": gm.is_some()});
    let parsed = match parsed {
        Err(msg) => {
            res["outcome"] = json!("panic");
            res["where"] = json!("parse");
            res["message"] = json!(msg);
            res["loc"] = json!(last_loc());
            return (res, None);
        }
        Ok(Err(msg)) => {
            res["outcome"] = json!("loaderr");
            res["message"] = json!(msg);
            return (res, None);
        }
        Ok(Ok(p)) => p,
    };
    // the text the tree has to reproduce
    let input: &str = if req.op == "include" { req.reference.as_deref().unwrap_or("") } else { &req.text };
    let have_input = req.op != "include" || req.reference.is_some();
    let projected = catch_unwind(AssertUnwindSafe(|| {
        let w = walk(&parsed.tree, input, req.op == "include");
        let concat_ok = if req.op == "include" { w.concat == input } else { concat_tokens(&parsed.tree) == input };
        let dg = project_diags(&parsed.tree, &parsed.diags);
        (w, concat_ok, dg)
    }));
    let (w, concat_ok, dg) = match projected {
        Ok(x) => x,
        Err(e) => {
            // the public tree API itself panicked on the tree the parser returned
            res["outcome"] = json!("panic");
            res["where"] = json!("walk");
            res["message"] = json!(panic_text(e));
            res["loc"] = json!(last_loc());
            return (res, None);
        }
    };
    let has_errors = parsed.diags.has_errors();
    res["ms_parse"] = json!(ms_parse);
    res["outcome"] = json!("ok");
    res["len"] = json!(input.len());
    res["concat_ok"] = if have_input { json!(concat_ok) } else { Value::Null };
    res["ntok"] = json!(w.ntok);
    res["nnode"] = json!(w.nnode);
    res["nev"] = json!(w.nev);
    res["depth"] = json!(w.max_depth);
    res["shape"] = json!(w.shape);
    res["bare_range"] = json!(w.bare_range);
    res["has_errors"] = json!(has_errors);
    res["ndiag"] = json!(dg.len());
    if req.op == "include" {
        res["text"] = json!(w.concat);
        res["diags"] = json!(dg.iter().map(|d| d.full("p")).collect::<Vec<_>>());
    } else {
        // only the diagnostics a reader of the result line may need: those not inside their source
        res["bad_diags"] = json!(dg.iter().filter(|d| !d.inside()).take(8).map(|d| d.full("p")).collect::<Vec<_>>());
    }
    // formatting the diagnostics for the user (not part of the property; recorded)
    phase(3);
    let mut limited = parsed.diags.clone();
    limited.set_max_to_print(50);
    let fmt = catch_unwind(AssertUnwindSafe(|| limited.display().to_string().len()));
    res["format"] = json!(match fmt {
        Ok(_) => "ok".to_string(),
        Err(e) => format!("panic: {} @{}", panic_text(e), last_loc()),
    });
    // validation of error-free trees, as the compiler does it (same glyph map as the parse)
    let mut validate = "skipped".to_string();
    let mut vdg: Vec<Diag> = Vec::new();
    if !has_errors && let Some(gm) = gm.as_ref() {
        phase(4);
        let t1 = Instant::now();
        let v = catch_unwind(AssertUnwindSafe(|| {
            let d = fea_rs::compile::validate(&parsed.tree, gm, None::<&NopVariationInfo>);
            let dg = project_diags(&parsed.tree, &d);
            (d.has_errors(), dg)
        }));
        res["ms_validate"] = json!(t1.elapsed().as_millis() as u64);
        match v {
            Ok((errs, d)) => {
                validate = if errs { "errors".into() } else { "ok".into() };
                res["vdiags"] = json!(d.len());
                res["bad_vdiags"] =
                    json!(d.iter().filter(|d| !d.inside()).take(8).map(|d| d.full("v")).collect::<Vec<_>>());
                vdg = d;
            }
            Err(e) => {
                validate = "panic".into();
                res["validate_msg"] = json!(panic_text(e));
                res["validate_loc"] = json!(last_loc());
            }
        }
    }
    phase(5);
    res["validate"] = json!(validate);
    res["ms"] = json!(t0.elapsed().as_millis() as u64);
    let rec = if have_input {
        let mut s = String::with_capacity(w.events.len() + 128);
        let _ = write!(
            s,
            r#""tag":{},"len":{},"err":{},"ev":{},"dg":["#,
            serde_json::to_string(&req.tag).unwrap(),
            input.len(),
            has_errors,
            w.events
        );
        let mut first = true;
        for (d, ph) in dg.iter().map(|d| (d, "p")).chain(vdg.iter().map(|d| (d, "v"))) {
            if !first {
                s.push(',');
            }
            first = false;
            d.brief(&mut s, ph);
        }
        s.push_str("]}");
        Some(s)
    } else {
        None
    };
    phase(0);
    (res, rec)
}

type WorkerResult = (Value, Option<String>);

fn spawn_worker(stack_mb: usize) -> (mpsc::Sender<Req>, mpsc::Receiver<WorkerResult>) {
    let (tx_req, rx_req) = mpsc::channel::<Req>();
    let (tx_res, rx_res) = mpsc::channel();
    std::thread::Builder::new()
        .name("feaparse-worker".into())
        .stack_size(stack_mb << 20)
        .spawn(move || {
            WORKER.store(unsafe { libc::pthread_self() } as usize, Ordering::SeqCst);
            while let Ok(req) = rx_req.recv() {
                let out = match catch_unwind(AssertUnwindSafe(|| handle(&req))) {
                    Ok(o) => o,
                    Err(e) => (
                        json!({"tag": req.tag, "op": req.op, "outcome": "panic", "where": "harness",
                               "message": panic_text(e), "loc": last_loc()}),
                        None,
                    ),
                };
                if tx_res.send(out).is_err() {
                    break;
                }
            }
        })
        .expect("spawn worker");
    (tx_req, rx_res)
}

pub fn run(args: &[String]) -> i32 {
    let mut trace_out: Option<std::io::BufWriter<std::fs::File>> = None;
    let mut budget = Duration::from_millis(20_000);
    let mut stack_mb = 8usize;
    let mut input: Box<dyn BufRead> = Box::new(std::io::BufReader::new(std::io::stdin()));
    let mut i = 0;
    while i < args.len() {
        let need = |i: usize| -> Option<&String> { args.get(i + 1) };
        match args[i].as_str() {
            "--trace-out" => {
                let Some(p) = need(i) else { return 2 };
                match std::fs::File::create(p) {
                    Ok(f) => trace_out = Some(std::io::BufWriter::new(f)),
                    Err(e) => {
                        eprintln!("cannot create {p}: {e}");
                        return 2;
                    }
                }
                i += 1;
            }
            "--budget-ms" => {
                let Some(p) = need(i) else { return 2 };
                budget = Duration::from_millis(p.parse().unwrap_or(20_000));
                i += 1;
            }
            "--stack-mb" => {
                let Some(p) = need(i) else { return 2 };
                stack_mb = p.parse().unwrap_or(8);
                i += 1;
            }
            "--in" => {
                let Some(p) = need(i) else { return 2 };
                match std::fs::File::open(p) {
                    Ok(f) => input = Box::new(std::io::BufReader::new(f)),
                    Err(e) => {
                        eprintln!("cannot open {p}: {e}");
                        return 2;
                    }
                }
                i += 1;
            }
            other => {
                eprintln!("vh feaparse: unknown argument {other}");
                return 2;
            }
        }
        i += 1;
    }
    // panics in the code under test are data: remember where, print nothing
    std::panic::set_hook(Box::new(|info| {
        let loc = info.location().map(|l| format!("{}:{}", l.file(), l.line())).unwrap_or_default();
        LAST_PANIC_LOC.with(|l| *l.borrow_mut() = loc);
    }));
    install_sampler();
    let stdout = std::io::stdout();
    let mut out = std::io::BufWriter::new(stdout.lock());
    let (mut tx, mut rx) = spawn_worker(stack_mb);
    let mut nrec: i64 = 0;
    for line in input.lines() {
        let Ok(line) = line else { break };
        let line = line.trim();
        if line.is_empty() {
            continue;
        }
        let req: Req = match serde_json::from_str(line) {
            Ok(r) => r,
            Err(e) => {
                let _ = writeln!(out, "{}", json!({"outcome":"badrequest","message":e.to_string()}));
                continue;
            }
        };
        let tag = req.tag.clone();
        let op = req.op.clone();
        let budget = if req.budget_ms > 0 { Duration::from_millis(req.budget_ms) } else { budget };
        if tx.send(req).is_err() {
            let _ = writeln!(out, "{}", json!({"tag":tag,"op":op,"outcome":"crash","rec":-1}));
            (tx, rx) = spawn_worker(stack_mb);
            continue;
        }
        match rx.recv_timeout(budget) {
            Ok((mut res, rec)) => {
                if let (Some(rec), Some(f)) = (rec, trace_out.as_mut()) {
                    nrec += 1;
                    res["rec"] = json!(nrec);
                    let _ = writeln!(f, "{{\"i\":{nrec},{rec}");
                    // a later request may kill the process (stack overflow): what was written must be whole
                    let _ = f.flush();
                } else {
                    res["rec"] = json!(-1);
                }
                let _ = writeln!(out, "{res}");
                let _ = out.flush();
            }
            Err(_) => {
                // still running after the budget: report, abandon that thread, carry on with a fresh one
                let ph = PHASES[PHASE.load(Ordering::SeqCst) as usize % PHASES.len()];
                let stacks = sample_worker();
                let _ = writeln!(
                    out,
                    "{}",
                    json!({"tag":tag,"op":op,"outcome":"timeout","phase":ph,"stacks":stacks,
                           "budget_ms":budget.as_millis() as u64,"rec":-1})
                );
                let _ = out.flush();
                if let Some(f) = trace_out.as_mut() {
                    let _ = f.flush();
                }
                // the abandoned thread keeps spinning (and possibly allocating): leave; the driver restarts us
                // with the remaining requests
                std::process::exit(0);
            }
        }
    }
    let _ = out.flush();
    if let Some(mut f) = trace_out {
        let _ = f.flush();
    }
    // abandoned (hung) worker threads must not keep the process alive
    std::process::exit(0);
}
