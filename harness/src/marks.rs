//! `vh marks`: C10 replay/observation driver. See /verif/docs/C10.md and /verif/spec/Marks.tla.
//!
//! One JSON request per stdin line, one JSON result per stdout line:
//!
//! * `{"tag":..,"compile":{CompileReq}|null,"font":"path"|"","locs":[[normalized coords in fvar order]..]}`
//!   compiles `compile.src` through the library entry point (panics are data) or reads `font`, then evaluates
//!   mark positioning with the evaluator in this file and reports what it measured;
//! * `{"tag":..,"parse":["top","_top",..]}` calls `fontir::ir::AnchorKind::new` on each name;
//! * `{"tag":..,"glyphdata":["acutecomb",..]}` reports the bundled GlyphData category/subcategory per name
//!   (the input the compiler uses when it has to infer GDEF categories).
//!
//! The evaluator is written against the raw bytes of GPOS and GDEF (big-endian reads, every offset checked);
//! nothing of fontc / write-fonts / read-fonts table code is used beyond locating the tables in the sfnt
//! directory and glyph names. It implements:
//!   script/langsys/feature lists (features mark, mkmk, abvm, blwm), lookup list, extension lookups (type 9),
//!   MarkBasePos / MarkLigPos / MarkMarkPos format 1, coverage formats 1-2, class def formats 1-2,
//!   anchor formats 1-3 with VariationIndex device tables evaluated in the GDEF ItemVariationStore at each
//!   requested normalized location, GDEF glyph class def, mark attachment class def, mark glyph sets,
//!   and the OpenType rules that decide whether a mark lookup can attach mark `m` to glyph `g` at all:
//!   lookup flags (ignore base/ligature/marks, mark attachment type, mark filtering set) applied to both
//!   glyphs, MarkBase/MarkLig attach to the nearest preceding glyph that is not GDEF class 3, MarkMark needs
//!   the preceding glyph to be GDEF class 3.
//! Nothing is compared here; expectations come from TLC and the comparison is in checks/c10.py.

use std::{
    collections::{BTreeMap, BTreeSet},
    io::{BufRead, Write},
};

use serde::Deserialize;
use serde_json::{Value, json};
use write_fonts::read::{FontRef, TableProvider, types::Tag};

use crate::compile::{CompileReq, compile, panic_message};

type R<T> = Result<T, String>;

// ----------------------------------------------------------------------------- raw reader

#[derive(Clone, Copy)]
struct Rd<'a> {
    d: &'a [u8],
    /// absolute offset inside the table, for messages
    at: usize,
}

impl<'a> Rd<'a> {
    fn new(d: &'a [u8]) -> Self {
        Rd { d, at: 0 }
    }
    fn u16(&self, off: usize) -> R<u16> {
        self.d
            .get(off..off + 2)
            .map(|b| u16::from_be_bytes([b[0], b[1]]))
            .ok_or_else(|| format!("read u16 past end at {}+{}", self.at, off))
    }
    fn i16(&self, off: usize) -> R<i16> {
        self.u16(off).map(|v| v as i16)
    }
    fn u32(&self, off: usize) -> R<u32> {
        self.d
            .get(off..off + 4)
            .map(|b| u32::from_be_bytes([b[0], b[1], b[2], b[3]]))
            .ok_or_else(|| format!("read u32 past end at {}+{}", self.at, off))
    }
    fn i32(&self, off: usize) -> R<i32> {
        self.u32(off).map(|v| v as i32)
    }
    fn i8(&self, off: usize) -> R<i8> {
        self.d
            .get(off)
            .map(|b| *b as i8)
            .ok_or_else(|| format!("read i8 past end at {}+{}", self.at, off))
    }
    fn sub(&self, off: usize) -> R<Rd<'a>> {
        if off > self.d.len() {
            return Err(format!("offset {} past end at {}", off, self.at));
        }
        Ok(Rd {
            d: &self.d[off..],
            at: self.at + off,
        })
    }
    fn tag(&self, off: usize) -> R<String> {
        self.d
            .get(off..off + 4)
            .map(|b| String::from_utf8_lossy(b).to_string())
            .ok_or_else(|| format!("read tag past end at {}+{}", self.at, off))
    }
}

fn coverage(r: Rd) -> R<Vec<u16>> {
    let fmt = r.u16(0)?;
    let n = r.u16(2)? as usize;
    let mut out = Vec::new();
    match fmt {
        1 => {
            for i in 0..n {
                out.push(r.u16(4 + 2 * i)?);
            }
        }
        2 => {
            for i in 0..n {
                let s = r.u16(4 + 6 * i)?;
                let e = r.u16(6 + 6 * i)?;
                let start_idx = r.u16(8 + 6 * i)? as usize;
                if start_idx != out.len() || e < s {
                    return Err(format!("coverage format 2: bad range {s}..{e} index {start_idx}"));
                }
                for g in s..=e {
                    out.push(g);
                }
            }
        }
        f => return Err(format!("coverage format {f}")),
    }
    Ok(out)
}

fn class_def(r: Rd) -> R<BTreeMap<u16, u16>> {
    let fmt = r.u16(0)?;
    let mut out = BTreeMap::new();
    match fmt {
        1 => {
            let start = r.u16(2)?;
            let n = r.u16(4)? as usize;
            for i in 0..n {
                let c = r.u16(6 + 2 * i)?;
                if c != 0 {
                    out.insert(start + i as u16, c);
                }
            }
        }
        2 => {
            let n = r.u16(2)? as usize;
            for i in 0..n {
                let s = r.u16(4 + 6 * i)?;
                let e = r.u16(6 + 6 * i)?;
                let c = r.u16(8 + 6 * i)?;
                if e < s {
                    return Err(format!("class def range {s}..{e}"));
                }
                if c != 0 {
                    for g in s..=e {
                        out.insert(g, c);
                    }
                }
            }
        }
        f => return Err(format!("class def format {f}")),
    }
    Ok(out)
}

// ----------------------------------------------------------------------------- GDEF

#[derive(Default)]
struct VarStore {
    axis_count: usize,
    /// regions[r][axis] = (start, peak, end) in F2Dot14 units
    regions: Vec<Vec<(i32, i32, i32)>>,
    /// data[outer] = (region indexes, rows)
    data: Vec<(Vec<usize>, Vec<Vec<i32>>)>,
}

impl VarStore {
    fn parse(r: Rd) -> R<VarStore> {
        let fmt = r.u16(0)?;
        if fmt != 1 {
            return Err(format!("ItemVariationStore format {fmt}"));
        }
        let rl = r.sub(r.u32(2)? as usize)?;
        let axis_count = rl.u16(0)? as usize;
        let region_count = rl.u16(2)? as usize;
        let mut regions = Vec::new();
        for i in 0..region_count {
            let mut axes = Vec::new();
            for a in 0..axis_count {
                let o = 4 + (i * axis_count + a) * 6;
                axes.push((rl.i16(o)? as i32, rl.i16(o + 2)? as i32, rl.i16(o + 4)? as i32));
            }
            regions.push(axes);
        }
        let n = r.u16(6)? as usize;
        let mut data = Vec::new();
        for k in 0..n {
            let off = r.u32(8 + 4 * k)? as usize;
            if off == 0 {
                data.push((Vec::new(), Vec::new()));
                continue;
            }
            let d = r.sub(off)?;
            let item_count = d.u16(0)? as usize;
            let wdc = d.u16(2)?;
            let long = wdc & 0x8000 != 0;
            let word_count = (wdc & 0x7fff) as usize;
            let ric = d.u16(4)? as usize;
            if word_count > ric {
                return Err("ItemVariationData: wordDeltaCount > regionIndexCount".into());
            }
            let mut idx = Vec::new();
            for i in 0..ric {
                let ri = d.u16(6 + 2 * i)? as usize;
                if ri >= region_count {
                    return Err(format!("region index {ri} out of range"));
                }
                idx.push(ri);
            }
            let mut pos = 6 + 2 * ric;
            let mut rows = Vec::new();
            for _ in 0..item_count {
                let mut row = Vec::new();
                for c in 0..ric {
                    let v = match (c < word_count, long) {
                        (true, false) => {
                            pos += 2;
                            d.i16(pos - 2)? as i32
                        }
                        (true, true) => {
                            pos += 4;
                            d.i32(pos - 4)?
                        }
                        (false, false) => {
                            pos += 1;
                            d.i8(pos - 1)? as i32
                        }
                        (false, true) => {
                            pos += 2;
                            d.i16(pos - 2)? as i32
                        }
                    };
                    row.push(v);
                }
                rows.push(row);
            }
            data.push((idx, rows));
        }
        Ok(VarStore {
            axis_count,
            regions,
            data,
        })
    }

    /// scalar of region `ri` at `coords` (F2Dot14 units), per the OpenType variation region rules
    fn scalar(&self, ri: usize, coords: &[i32]) -> f64 {
        let mut s = 1.0f64;
        for (a, (start, peak, end)) in self.regions[ri].iter().enumerate() {
            let (start, peak, end) = (*start, *peak, *end);
            let c = coords.get(a).copied().unwrap_or(0);
            if start > peak || peak > end {
                continue;
            }
            if start < 0 && end > 0 && peak != 0 {
                continue;
            }
            if peak == 0 {
                continue;
            }
            if c < start || c > end {
                return 0.0;
            }
            if c == peak {
                continue;
            }
            if c < peak {
                s *= (c - start) as f64 / (peak - start) as f64;
            } else {
                s *= (end - c) as f64 / (end - peak) as f64;
            }
        }
        s
    }

    fn delta(&self, outer: usize, inner: usize, coords: &[i32]) -> R<f64> {
        let (idx, rows) = self
            .data
            .get(outer)
            .ok_or_else(|| format!("variation index outer {outer} out of range"))?;
        let row = rows
            .get(inner)
            .ok_or_else(|| format!("variation index {outer}/{inner} out of range"))?;
        let mut d = 0.0;
        for (k, ri) in idx.iter().enumerate() {
            d += self.scalar(*ri, coords) * row[k] as f64;
        }
        Ok(d)
    }
}

#[derive(Default)]
struct Gdef {
    present: bool,
    classes: BTreeMap<u16, u16>,
    mark_attach: BTreeMap<u16, u16>,
    mark_sets: Vec<BTreeSet<u16>>,
    store: Option<VarStore>,
}

fn parse_gdef(d: &[u8]) -> R<Gdef> {
    let r = Rd::new(d);
    let mut g = Gdef {
        present: true,
        ..Default::default()
    };
    let major = r.u16(0)?;
    let minor = r.u16(2)?;
    if major != 1 {
        return Err(format!("GDEF version {major}.{minor}"));
    }
    let gc = r.u16(4)? as usize;
    if gc != 0 {
        g.classes = class_def(r.sub(gc)?)?;
    }
    let ma = r.u16(10)? as usize;
    if ma != 0 {
        g.mark_attach = class_def(r.sub(ma)?)?;
    }
    if minor >= 2 {
        let ms = r.u16(12)? as usize;
        if ms != 0 {
            let m = r.sub(ms)?;
            let fmt = m.u16(0)?;
            if fmt != 1 {
                return Err(format!("MarkGlyphSets format {fmt}"));
            }
            let n = m.u16(2)? as usize;
            for i in 0..n {
                let off = m.u32(4 + 4 * i)? as usize;
                g.mark_sets.push(coverage(m.sub(off)?)?.into_iter().collect());
            }
        }
    }
    if minor >= 3 {
        let vs = r.u32(14)? as usize;
        if vs != 0 {
            g.store = Some(VarStore::parse(r.sub(vs)?)?);
        }
    }
    Ok(g)
}

// ----------------------------------------------------------------------------- GPOS

#[derive(Clone, Debug)]
struct Anchor {
    format: u16,
    x: i16,
    y: i16,
    /// (outer, inner) of a VariationIndex table
    xvar: Option<(u16, u16)>,
    yvar: Option<(u16, u16)>,
    /// a hinting Device table (formats 1-3) is present: ppem specific, not evaluated
    hint_device: bool,
}

fn device(r: Rd) -> R<(Option<(u16, u16)>, bool)> {
    let fmt = r.u16(4)?;
    match fmt {
        0x8000 => Ok((Some((r.u16(0)?, r.u16(2)?)), false)),
        1..=3 => Ok((None, true)),
        f => Err(format!("device delta format {f:#x}")),
    }
}

fn anchor(r: Rd) -> R<Anchor> {
    let format = r.u16(0)?;
    let mut a = Anchor {
        format,
        x: r.i16(2)?,
        y: r.i16(4)?,
        xvar: None,
        yvar: None,
        hint_device: false,
    };
    match format {
        1 | 2 => {}
        3 => {
            let xo = r.u16(6)? as usize;
            let yo = r.u16(8)? as usize;
            if xo != 0 {
                let (v, h) = device(r.sub(xo)?)?;
                a.xvar = v;
                a.hint_device |= h;
            }
            if yo != 0 {
                let (v, h) = device(r.sub(yo)?)?;
                a.yvar = v;
                a.hint_device |= h;
            }
        }
        f => return Err(format!("anchor format {f}")),
    }
    Ok(a)
}

/// mark coverage order -> (class, anchor)
fn mark_array(r: Rd, n_cov: usize, class_count: usize) -> R<Vec<(u16, Anchor)>> {
    let n = r.u16(0)? as usize;
    if n != n_cov {
        return Err(format!("mark array has {n} records, coverage {n_cov} glyphs"));
    }
    let mut out = Vec::new();
    for i in 0..n {
        let class = r.u16(2 + 4 * i)?;
        if class as usize >= class_count {
            return Err(format!("mark class {class} >= class count {class_count}"));
        }
        let off = r.u16(4 + 4 * i)? as usize;
        out.push((class, anchor(r.sub(off)?)?));
    }
    Ok(out)
}

/// rows of `class_count` optional anchors, offsets relative to `base`
fn anchor_matrix(base: Rd, first: usize, rows: usize, class_count: usize) -> R<Vec<Vec<Option<Anchor>>>> {
    let mut out = Vec::new();
    for i in 0..rows {
        let mut row = Vec::new();
        for c in 0..class_count {
            let off = base.u16(first + 2 * (i * class_count + c))? as usize;
            row.push(if off == 0 { None } else { Some(anchor(base.sub(off)?)?) });
        }
        out.push(row);
    }
    Ok(out)
}

enum Sub {
    /// kind 4 (base) or 6 (mark): bases[i] = per class anchors
    Simple {
        marks: Vec<u16>,
        mark_recs: Vec<(u16, Anchor)>,
        bases: Vec<u16>,
        base_recs: Vec<Vec<Option<Anchor>>>,
    },
    /// kind 5: ligs[i] = per component, per class anchors
    Lig {
        marks: Vec<u16>,
        mark_recs: Vec<(u16, Anchor)>,
        ligs: Vec<u16>,
        lig_recs: Vec<Vec<Vec<Option<Anchor>>>>,
    },
}

fn mark_subtable(r: Rd, ty: u16) -> R<Sub> {
    let fmt = r.u16(0)?;
    if fmt != 1 {
        return Err(format!("GPOS type {ty} subtable format {fmt}"));
    }
    let marks = coverage(r.sub(r.u16(2)? as usize)?)?;
    let second = coverage(r.sub(r.u16(4)? as usize)?)?;
    let cc = r.u16(6)? as usize;
    let mark_recs = mark_array(r.sub(r.u16(8)? as usize)?, marks.len(), cc)?;
    let arr = r.sub(r.u16(10)? as usize)?;
    let n = arr.u16(0)? as usize;
    if n != second.len() {
        return Err(format!("type {ty}: array has {n} records, coverage {} glyphs", second.len()));
    }
    if ty == 5 {
        let mut lig_recs = Vec::new();
        for i in 0..n {
            let la = arr.sub(arr.u16(2 + 2 * i)? as usize)?;
            let comps = la.u16(0)? as usize;
            lig_recs.push(anchor_matrix(la, 2, comps, cc)?);
        }
        Ok(Sub::Lig {
            marks,
            mark_recs,
            ligs: second,
            lig_recs,
        })
    } else {
        Ok(Sub::Simple {
            marks,
            mark_recs,
            bases: second,
            base_recs: anchor_matrix(arr, 2, n, cc)?,
        })
    }
}

struct Lookup {
    ty: u16,
    flag: u16,
    filter: Option<u16>,
    subs: Vec<Sub>,
}

struct Gpos {
    /// (script, lang ("dflt" = default langsys), feature tag, lookup indices)
    features: Vec<(String, String, String, Vec<u16>)>,
    lookups: Vec<Option<Lookup>>,
    lookup_types: Vec<u16>,
    feature_variations: bool,
}

fn parse_gpos(d: &[u8]) -> R<Gpos> {
    let r = Rd::new(d);
    let major = r.u16(0)?;
    let minor = r.u16(2)?;
    if major != 1 {
        return Err(format!("GPOS version {major}.{minor}"));
    }
    let sl = r.sub(r.u16(4)? as usize)?;
    let fl = r.sub(r.u16(6)? as usize)?;
    let ll = r.sub(r.u16(8)? as usize)?;
    let feature_variations = minor >= 1 && r.u32(10)? != 0;

    let feature = |idx: u16| -> R<(String, Vec<u16>)> {
        let n = fl.u16(0)?;
        if idx >= n {
            return Err(format!("feature index {idx} >= {n}"));
        }
        let tag = fl.tag(2 + 6 * idx as usize)?;
        let f = fl.sub(fl.u16(6 + 6 * idx as usize)? as usize)?;
        let cnt = f.u16(2)? as usize;
        let mut lk = Vec::new();
        for i in 0..cnt {
            lk.push(f.u16(4 + 2 * i)?);
        }
        Ok((tag, lk))
    };
    let mut features = Vec::new();
    let mut langsys = |script: &str, lang: &str, ls: Rd| -> R<()> {
        let req = ls.u16(2)?;
        let n = ls.u16(4)? as usize;
        let mut idxs = Vec::new();
        if req != 0xffff {
            idxs.push(req);
        }
        for i in 0..n {
            idxs.push(ls.u16(6 + 2 * i)?);
        }
        for i in idxs {
            let (tag, lk) = feature(i)?;
            features.push((script.to_string(), lang.to_string(), tag, lk));
        }
        Ok(())
    };
    let ns = sl.u16(0)? as usize;
    for i in 0..ns {
        let stag = sl.tag(2 + 6 * i)?;
        let s = sl.sub(sl.u16(6 + 6 * i)? as usize)?;
        let dflt = s.u16(0)? as usize;
        if dflt != 0 {
            langsys(&stag, "dflt", s.sub(dflt)?)?;
        }
        let nl = s.u16(2)? as usize;
        for k in 0..nl {
            let ltag = s.tag(4 + 6 * k)?;
            langsys(&stag, &ltag, s.sub(s.u16(8 + 6 * k)? as usize)?)?;
        }
    }

    let nl = ll.u16(0)? as usize;
    let mut lookups = Vec::new();
    let mut lookup_types = Vec::new();
    for i in 0..nl {
        let l = ll.sub(ll.u16(2 + 2 * i)? as usize)?;
        let mut ty = l.u16(0)?;
        let flag = l.u16(2)?;
        let n = l.u16(4)? as usize;
        let filter = if flag & 0x10 != 0 { Some(l.u16(6 + 2 * n)?) } else { None };
        let mut subs = Vec::new();
        let mut real_ty = ty;
        for k in 0..n {
            let mut s = l.sub(l.u16(6 + 2 * k)? as usize)?;
            let mut sty = ty;
            if ty == 9 {
                if s.u16(0)? != 1 {
                    return Err("extension format".into());
                }
                sty = s.u16(2)?;
                s = s.sub(s.u32(4)? as usize)?;
                real_ty = sty;
            }
            if (4..=6).contains(&sty) {
                subs.push(mark_subtable(s, sty)?);
            }
        }
        ty = real_ty;
        lookup_types.push(ty);
        if (4..=6).contains(&ty) {
            lookups.push(Some(Lookup { ty, flag, filter, subs }));
        } else {
            lookups.push(None);
        }
    }
    Ok(Gpos {
        features,
        lookups,
        lookup_types,
        feature_variations,
    })
}

// ----------------------------------------------------------------------------- evaluation

struct Eval<'a> {
    gdef: &'a Gdef,
    names: &'a [String],
    /// normalized coords in F2Dot14 units per requested location
    locs: Vec<Vec<i32>>,
    notes: BTreeSet<String>,
}

impl Eval<'_> {
    fn name(&self, g: u16) -> String {
        self.names
            .get(g as usize)
            .cloned()
            .unwrap_or_else(|| format!("gid{g}"))
    }

    fn class(&self, g: u16) -> u16 {
        self.gdef.classes.get(&g).copied().unwrap_or(0)
    }

    /// Is glyph `g` invisible to a lookup with these flags? (OpenType lookup flag rules)
    fn skipped(&self, g: u16, flag: u16, filter: Option<u16>) -> Option<&'static str> {
        let c = self.class(g);
        if flag & 0x2 != 0 && c == 1 {
            return Some("ignoreBaseGlyphs");
        }
        if flag & 0x4 != 0 && c == 2 {
            return Some("ignoreLigatures");
        }
        if flag & 0x8 != 0 && c == 3 {
            return Some("ignoreMarks");
        }
        if c == 3 {
            if flag & 0x10 != 0 {
                let inset = filter
                    .and_then(|k| self.gdef.mark_sets.get(k as usize))
                    .map(|s| s.contains(&g))
                    .unwrap_or(false);
                if !inset {
                    return Some("not in mark filtering set");
                }
            } else if flag & 0xff00 != 0 {
                let mat = self.gdef.mark_attach.get(&g).copied().unwrap_or(0);
                if mat != flag >> 8 {
                    return Some("mark attachment type");
                }
            }
        }
        None
    }

    /// anchor position at every requested location: [[x, y], ...]
    fn resolve(&mut self, a: &Anchor) -> Vec<[f64; 2]> {
        if a.hint_device {
            self.notes.insert("hinting Device table on an anchor (not evaluated)".into());
        }
        if a.format == 2 {
            self.notes.insert("anchor format 2 (contour point not evaluated)".into());
        }
        let mut out = Vec::new();
        for li in 0..self.locs.len() {
            let mut p = [a.x as f64, a.y as f64];
            for (k, v) in [(0usize, a.xvar), (1usize, a.yvar)] {
                if let Some((outer, inner)) = v {
                    match self.gdef.store.as_ref() {
                        Some(st) => match st.delta(outer as usize, inner as usize, &self.locs[li]) {
                            Ok(d) => p[k] += d,
                            Err(e) => {
                                self.notes.insert(format!("variation index: {e}"));
                                p[k] = f64::NAN;
                            }
                        },
                        None => {
                            self.notes
                                .insert("anchor has a VariationIndex but GDEF has no ItemVariationStore".into());
                            p[k] = f64::NAN;
                        }
                    }
                }
            }
            out.push(p);
        }
        out
    }
}

fn pts(v: &[[f64; 2]]) -> Value {
    json!(
        v.iter()
            .map(|p| json!([if p[0].is_nan() { Value::Null } else { json!(p[0]) },
                            if p[1].is_nan() { Value::Null } else { json!(p[1]) }]))
            .collect::<Vec<_>>()
    )
}

/// Evaluate the mark positioning of a font: every (attaching glyph [component], mark) some mark lookup pairs.
fn evaluate(data: &[u8], locs: &[Vec<f64>]) -> R<Value> {
    let font = FontRef::new(data).map_err(|e| format!("cannot parse font: {e}"))?;
    let names = crate::fontutil::glyph_names(&font);
    let table = |t: &[u8; 4]| font.table_data(Tag::new(t)).map(|d| d.as_bytes().to_vec());
    let gdef = match table(b"GDEF") {
        Some(d) => parse_gdef(&d).map_err(|e| format!("GDEF: {e}"))?,
        None => Gdef::default(),
    };
    let gpos = match table(b"GPOS") {
        Some(d) => Some(parse_gpos(&d).map_err(|e| format!("GPOS: {e}"))?),
        None => None,
    };
    let axis_count = font.fvar().map(|f| f.axis_count() as usize).unwrap_or(0);
    let mut ev = Eval {
        gdef: &gdef,
        names: &names,
        locs: locs
            .iter()
            .map(|l| l.iter().map(|c| (c * 16384.0).round() as i32).collect())
            .collect(),
        notes: BTreeSet::new(),
    };
    if let Some(st) = &gdef.store
        && st.axis_count != axis_count
    {
        ev.notes
            .insert(format!("GDEF variation store has {} axes, fvar {}", st.axis_count, axis_count));
    }
    for l in locs {
        if l.len() != axis_count {
            return Err(format!("location {l:?} does not have {axis_count} coordinates"));
        }
    }

    let mut out_lookups = Vec::new();
    let mut attachments = Vec::new();
    let mut feats_json = Vec::new();
    if let Some(gpos) = &gpos {
        if gpos.feature_variations {
            ev.notes.insert("GPOS has FeatureVariations (not evaluated)".into());
        }
        // lookup -> set of "script/lang:feature" that reach it, mark-ish features only
        let mut reach: BTreeMap<u16, BTreeSet<String>> = BTreeMap::new();
        for (s, l, t, lk) in &gpos.features {
            feats_json.push(json!({"script": s, "lang": l, "tag": t, "lookups": lk}));
            if ["mark", "mkmk", "abvm", "blwm"].contains(&t.as_str()) {
                for i in lk {
                    reach.entry(*i).or_default().insert(format!("{s}/{l}:{t}"));
                }
            }
        }
        for (li, lk) in gpos.lookups.iter().enumerate() {
            let Some(lk) = lk else { continue };
            let via: Vec<String> = reach.get(&(li as u16)).map(|s| s.iter().cloned().collect()).unwrap_or_default();
            let kind = match lk.ty {
                4 => "base",
                5 => "lig",
                _ => "mark",
            };
            let filter_names: Option<Vec<String>> = lk.filter.map(|k| {
                gdef.mark_sets
                    .get(k as usize)
                    .map(|s| s.iter().map(|g| ev.name(*g)).collect())
                    .unwrap_or_default()
            });
            let mut subs_json = Vec::new();
            for (si, sub) in lk.subs.iter().enumerate() {
                let (marks, mark_recs) = match sub {
                    Sub::Simple { marks, mark_recs, .. } | Sub::Lig { marks, mark_recs, .. } => (marks, mark_recs),
                };
                let mut classes: BTreeMap<u16, Vec<String>> = BTreeMap::new();
                for (k, m) in marks.iter().enumerate() {
                    classes.entry(mark_recs[k].0).or_default().push(ev.name(*m));
                }
                // attaching glyphs: (gid, component (0 = not a ligature), per class anchors)
                let mut targets: Vec<(u16, usize, usize, &Vec<Option<Anchor>>)> = Vec::new();
                let mut bases_json = Vec::new();
                match sub {
                    Sub::Simple { bases, base_recs, .. } => {
                        for (k, b) in bases.iter().enumerate() {
                            targets.push((*b, 0, 0, &base_recs[k]));
                            bases_json.push(json!({"g": ev.name(*b),
                                "classes": base_recs[k].iter().enumerate().filter(|(_, a)| a.is_some()).map(|(c, _)| c).collect::<Vec<_>>()}));
                        }
                    }
                    Sub::Lig { ligs, lig_recs, .. } => {
                        for (k, b) in ligs.iter().enumerate() {
                            for (ci, comp) in lig_recs[k].iter().enumerate() {
                                targets.push((*b, ci + 1, lig_recs[k].len(), comp));
                            }
                            bases_json.push(json!({"g": ev.name(*b), "components": lig_recs[k].len(),
                                "anchored": lig_recs[k].iter().map(|comp| comp.iter().enumerate().filter(|(_, a)| a.is_some()).map(|(c, _)| c).collect::<Vec<_>>()).collect::<Vec<_>>()}));
                        }
                    }
                }
                subs_json.push(json!({"mark_classes": classes.iter().map(|(c, v)| json!([c, v])).collect::<Vec<_>>(),
                                      "targets": bases_json}));
                for (g, comp, ncomp, row) in targets {
                    for (k, m) in marks.iter().enumerate() {
                        let (class, manchor) = &mark_recs[k];
                        let Some(ganchor) = row.get(*class as usize).and_then(|a| a.as_ref()) else {
                            continue;
                        };
                        // can the lookup attach m to g at all?
                        let mut why: Vec<String> = Vec::new();
                        if via.is_empty() {
                            why.push("lookup not referenced by a mark/mkmk/abvm/blwm feature".into());
                        }
                        if let Some(w) = ev.skipped(*m, lk.flag, lk.filter) {
                            why.push(format!("mark glyph skipped by the lookup: {w}"));
                        }
                        if let Some(w) = ev.skipped(g, lk.flag, lk.filter) {
                            why.push(format!("attaching glyph skipped by the lookup: {w}"));
                        }
                        let gc = ev.class(g);
                        if lk.ty == 6 {
                            if gc != 3 {
                                why.push(format!("mark-to-mark but attaching glyph is GDEF class {gc}, not 3"));
                            }
                        } else if gc == 3 {
                            why.push("attaching glyph is GDEF class 3: skipped when looking for the base".into());
                        }
                        let b = ev.resolve(ganchor);
                        let mk = ev.resolve(manchor);
                        attachments.push(json!({
                            "lookup": li, "sub": si, "type": kind, "via": via, "g": ev.name(g), "comp": comp,
                            "ncomp": ncomp, "m": ev.name(*m), "class": class, "effective": why.is_empty(),
                            "why_not": why, "base": pts(&b), "mark": pts(&mk),
                            "formats": [ganchor.format, manchor.format],
                        }));
                    }
                }
            }
            out_lookups.push(json!({"index": li, "type": kind, "flag": lk.flag, "filter": filter_names,
                                    "via": via, "subtables": subs_json}));
        }
    }
    let classes: BTreeMap<String, u16> = gdef.classes.iter().map(|(g, c)| (ev.name(*g), *c)).collect();
    Ok(json!({
        "glyphs": names,
        "axes": axis_count,
        "has_gpos": gpos.is_some(),
        "has_gdef": gdef.present,
        "gdef_classes": classes,
        "mark_sets": gdef.mark_sets.iter().map(|s| s.iter().map(|g| ev.name(*g)).collect::<Vec<_>>()).collect::<Vec<_>>(),
        "lookup_types": gpos.as_ref().map(|g| g.lookup_types.clone()).unwrap_or_default(),
        "features": feats_json,
        "lookups": out_lookups,
        "attachments": attachments,
        "notes": ev.notes.iter().cloned().collect::<Vec<_>>(),
    }))
}

// ----------------------------------------------------------------------------- requests

#[derive(Debug, Default, Clone, Deserialize)]
#[serde(default)]
struct Req {
    tag: String,
    compile: Option<CompileReq>,
    font: String,
    locs: Vec<Vec<f64>>,
    parse: Option<Vec<String>>,
    glyphdata: Option<Vec<String>>,
}

fn kind_json(name: &str) -> Value {
    use fontir::ir::AnchorKind;
    match std::panic::catch_unwind(|| AnchorKind::new(name)) {
        Err(p) => json!({"name": name, "outcome": "panic", "message": panic_message(p)}),
        Ok(Err(e)) => json!({"name": name, "outcome": "error", "message": format!("{e:?}")}),
        Ok(Ok(k)) => {
            let (kind, group, index) = match &k {
                AnchorKind::Base(g) => ("base", g.to_string(), 0),
                AnchorKind::Mark(g) => ("mark", g.to_string(), 0),
                AnchorKind::Ligature { group_name, index } => ("lig", group_name.to_string(), *index),
                AnchorKind::ComponentMarker(i) => ("compmarker", String::new(), *i),
                AnchorKind::Caret(i) => ("caret", String::new(), *i),
                AnchorKind::VCaret(i) => ("vcaret", String::new(), *i),
                AnchorKind::CursiveEntry => ("entry", String::new(), 0),
                AnchorKind::CursiveExit => ("exit", String::new(), 0),
            };
            json!({"name": name, "outcome": "ok", "kind": kind, "group": group, "index": index})
        }
    }
}

fn glyphdata_json(names: &[String]) -> Value {
    use glyphs_reader::glyphdata::GlyphData;
    let gd = GlyphData::new(None);
    let mut out = serde_json::Map::new();
    for n in names {
        let v = match gd.query(n, None) {
            Some(r) => json!({"category": format!("{:?}", r.category),
                              "subcategory": r.subcategory.map(|s| format!("{s:?}"))}),
            None => Value::Null,
        };
        out.insert(n.clone(), v);
    }
    Value::Object(out)
}

fn handle(req: &Req) -> Value {
    if let Some(names) = &req.parse {
        return json!({"tag": req.tag, "parse": names.iter().map(|n| kind_json(n)).collect::<Vec<_>>()});
    }
    if let Some(names) = &req.glyphdata {
        let v = std::panic::catch_unwind(|| glyphdata_json(names));
        return match v {
            Ok(v) => json!({"tag": req.tag, "glyphdata": v}),
            Err(p) => json!({"tag": req.tag, "outcome": "panic", "message": panic_message(p)}),
        };
    }
    let mut res = serde_json::Map::new();
    res.insert("tag".into(), json!(req.tag));
    let bytes = if let Some(c) = &req.compile {
        let (cres, bytes) = compile(c);
        res.insert("outcome".into(), json!(cres.outcome));
        res.insert("message".into(), json!(cres.message));
        res.insert("wall_ms".into(), json!(cres.wall_ms as u64));
        bytes
    } else {
        match std::fs::read(&req.font) {
            Ok(b) => {
                res.insert("outcome".into(), json!("ok"));
                Some(b)
            }
            Err(e) => {
                res.insert("outcome".into(), json!("unreadable"));
                res.insert("message".into(), json!(e.to_string()));
                None
            }
        }
    };
    if let Some(bytes) = bytes {
        match std::panic::catch_unwind(|| evaluate(&bytes, &req.locs)) {
            Ok(Ok(v)) => {
                res.insert("eval".into(), v);
            }
            Ok(Err(e)) => {
                res.insert("eval_error".into(), json!(e));
            }
            Err(p) => {
                res.insert("eval_error".into(), json!(format!("evaluator panicked: {}", panic_message(p))));
            }
        }
    }
    Value::Object(res)
}

pub fn run(args: &[String]) -> i32 {
    if std::env::var("VH_PANIC_VERBOSE").is_err() {
        std::panic::set_hook(Box::new(|_| {}));
    }
    let input: Box<dyn BufRead> = match args.first() {
        Some(p) => match std::fs::File::open(p) {
            Ok(f) => Box::new(std::io::BufReader::new(f)),
            Err(e) => {
                eprintln!("cannot open {p}: {e}");
                return 2;
            }
        },
        None => Box::new(std::io::BufReader::new(std::io::stdin())),
    };
    let stdout = std::io::stdout();
    for line in input.lines() {
        let Ok(line) = line else { break };
        if line.trim().is_empty() {
            continue;
        }
        let req: Req = match serde_json::from_str(&line) {
            Ok(r) => r,
            Err(e) => {
                eprintln!("bad request: {e}");
                return 2;
            }
        };
        let v = handle(&req);
        let mut out = stdout.lock();
        let _ = writeln!(out, "{}", serde_json::to_string(&v).unwrap());
        let _ = out.flush();
    }
    0
}
