//! `vh instancing`: measure a compiled font at given normalized locations (C03 / C04).
//!
//! One JSON request per stdin line (or per line of the file given as first argument), one JSON result per
//! line on stdout.  Nothing is judged here: the module draws, reads and evaluates binary tables and reports
//! numbers; the acceptance relation lives in spec/Instancing.tla and is evaluated by TLC on these records.
//!
//! Request:
//!   {"tag": "...", "font": "<path.ttf>", "scale": 1024,
//!    "locs": [[F2Dot14 bits per fvar axis], ...]      normalized locations (generated cases), or
//!    "user_locs": [[user coordinate per fvar axis], ...] normalized through the font's own fvar + avar,
//!    "glyphs": ["a", ...]              glyph names to measure ([] = all),
//!    "glyph_locs": {"a": [0, 2]}       location indices per glyph (missing = every location),
//!    "sections": ["outline", "advance", "mvar", "defaults"]}
//!
//! Numbers that may be fractional are reported as integer intervals [lo, hi] = [floor(x*scale), ceil(x*scale)]
//! so that the consumer can compare conservatively with integer arithmetic only.
//!
//! Evaluators used:
//!   * outlines: skrifa, unhinted, unscaled, PathStyle::HarfBuzz (f32 arithmetic, deltas are NOT rounded;
//!     the FreeType path style rounds deltas of unscaled outlines to integers);
//!   * gvar tuple headers, phantom point deltas and component offset deltas: read-fonts raw tuple data,
//!     scalars computed here in f64 from the tents;
//!   * HVAR / VVAR / MVAR: region list and delta sets read raw (read-fonts), evaluated here in f64;
//!     DeltaSetIndexMap lookup by read-fonts; plus skrifa's glyph_metrics / metrics as a second evaluator.

use std::collections::HashMap;
use std::io::{BufRead, Write};

use serde::Deserialize;
use serde_json::{Map, Value, json};
use skrifa::{
    GlyphId, MetadataProvider,
    instance::{LocationRef, Size},
    outline::{DrawSettings, OutlinePen, pen::PathStyle},
    raw::{
        FontRef, TableProvider,
        tables::{
            glyf::{Anchor, Glyph},
            variations::{DeltaSetIndexMap, ItemVariationStore},
        },
        types::{F2Dot14, Tag},
    },
};

use crate::fontutil;

#[derive(Deserialize, Default)]
#[serde(default)]
struct Req {
    tag: String,
    font: String,
    scale: i64,
    locs: Vec<Vec<i32>>,
    user_locs: Vec<Vec<f64>>,
    glyphs: Vec<String>,
    glyph_locs: HashMap<String, Vec<usize>>,
    sections: Vec<String>,
}

struct Sc(f64);

impl Sc {
    /// [floor(x*scale), ceil(x*scale)]
    fn iv(&self, x: f64) -> Value {
        let y = x * self.0;
        json!([y.floor() as i64, y.ceil() as i64])
    }
}

const OP_MOVE: i64 = 0;
const OP_LINE: i64 = 1;
const OP_QUAD: i64 = 2;
const OP_CLOSE: i64 = 3;
const OP_CUBIC: i64 = 4;

struct CmdPen<'a> {
    sc: &'a Sc,
    cmds: Vec<Value>,
}

impl CmdPen<'_> {
    fn push(&mut self, op: i64, xs: &[f32]) {
        let mut v = vec![json!(op)];
        for x in xs {
            let y = *x as f64 * self.sc.0;
            v.push(json!(y.floor() as i64));
            v.push(json!(y.ceil() as i64));
        }
        self.cmds.push(Value::Array(v));
    }
}

impl OutlinePen for CmdPen<'_> {
    fn move_to(&mut self, x: f32, y: f32) {
        self.push(OP_MOVE, &[x, y]);
    }
    fn line_to(&mut self, x: f32, y: f32) {
        self.push(OP_LINE, &[x, y]);
    }
    fn quad_to(&mut self, cx0: f32, cy0: f32, x: f32, y: f32) {
        self.push(OP_QUAD, &[cx0, cy0, x, y]);
    }
    fn curve_to(&mut self, cx0: f32, cy0: f32, cx1: f32, cy1: f32, x: f32, y: f32) {
        self.push(OP_CUBIC, &[cx0, cy0, cx1, cy1, x, y]);
    }
    fn close(&mut self) {
        self.push(OP_CLOSE, &[]);
    }
}

/// OpenType tent scalar for one axis; all values F2Dot14 bits.
fn axis_scalar(s: i32, p: i32, e: i32, v: i32) -> f64 {
    if s > p || p > e {
        return 1.0;
    }
    if s < 0 && e > 0 && p != 0 {
        return 1.0;
    }
    if p == 0 {
        return 1.0;
    }
    if v < s || v > e {
        return 0.0;
    }
    if v == p {
        return 1.0;
    }
    if v < p {
        (v - s) as f64 / (p - s) as f64
    } else {
        (e - v) as f64 / (e - p) as f64
    }
}

fn region_scalar(tents: &[[i32; 3]], coords: &[i32]) -> f64 {
    let mut s = 1.0;
    for (i, t) in tents.iter().enumerate() {
        let v = coords.get(i).copied().unwrap_or(0);
        s *= axis_scalar(t[0], t[1], t[2], v);
        if s == 0.0 {
            return 0.0;
        }
    }
    s
}

struct GvarTuple {
    tents: Vec<[i32; 3]>,
    dense: bool,
    /// explicit deltas: position -> (dx, dy)
    deltas: HashMap<u16, (i32, i32)>,
}

fn gvar_tuples(font: &FontRef, gid: u32, naxes: usize) -> Result<Vec<GvarTuple>, String> {
    let Ok(gvar) = font.gvar() else {
        return Ok(Vec::new());
    };
    let Some(data) = gvar
        .glyph_variation_data(GlyphId::new(gid))
        .map_err(|e| format!("gvar data of gid {gid}: {e}"))?
    else {
        return Ok(Vec::new());
    };
    let mut out = Vec::new();
    for t in data.tuples() {
        let peak = t.peak();
        let (is, ie) = (t.intermediate_start(), t.intermediate_end());
        let mut tents = Vec::new();
        for a in 0..naxes {
            let p = peak.get(a).unwrap_or_default().to_bits() as i32;
            let (s, e) = match (&is, &ie) {
                (Some(is), Some(ie)) => (
                    is.get(a).unwrap_or_default().to_bits() as i32,
                    ie.get(a).unwrap_or_default().to_bits() as i32,
                ),
                _ => (p.min(0), p.max(0)),
            };
            tents.push([s, p, e]);
        }
        let dense = t.has_deltas_for_all_points();
        let mut deltas = HashMap::new();
        for d in t.deltas() {
            deltas.insert(d.position, (d.x_delta, d.y_delta));
        }
        out.push(GvarTuple {
            tents,
            dense,
            deltas,
        });
    }
    Ok(out)
}

/// sum over tuples of scalar * explicit delta of point `pos` (0 if the tuple does not mention the point:
/// exact for phantom points and component offsets, which are never inferred)
fn gvar_point_delta(tuples: &[GvarTuple], pos: u16, coords: &[i32]) -> (f64, f64) {
    let (mut x, mut y) = (0.0, 0.0);
    for t in tuples {
        let s = region_scalar(&t.tents, coords);
        if s == 0.0 {
            continue;
        }
        if let Some((dx, dy)) = t.deltas.get(&pos) {
            x += s * *dx as f64;
            y += s * *dy as f64;
        }
    }
    (x, y)
}

/// own evaluation of one delta set of an ItemVariationStore at `coords` (F2Dot14 bits)
fn ivs_delta(store: &ItemVariationStore, outer: u16, inner: u16, coords: &[i32]) -> Result<f64, String> {
    let Some(data) = store.item_variation_data().get(outer as usize) else {
        return Ok(0.0);
    };
    let data = data.map_err(|e| format!("item variation data {outer}: {e}"))?;
    if inner >= data.item_count() {
        return Ok(0.0);
    }
    let regions = store
        .variation_region_list()
        .map_err(|e| format!("region list: {e}"))?
        .variation_regions();
    let idx = data.region_indexes();
    let mut acc = 0.0;
    for (i, d) in data.delta_set(inner).enumerate() {
        let Some(ri) = idx.get(i) else {
            return Err("delta set longer than region index list".into());
        };
        let region = regions
            .get(ri.get() as usize)
            .map_err(|e| format!("region {}: {e}", ri.get()))?;
        let tents: Vec<[i32; 3]> = region
            .region_axes()
            .iter()
            .map(|a| {
                [
                    a.start_coord().to_bits() as i32,
                    a.peak_coord().to_bits() as i32,
                    a.end_coord().to_bits() as i32,
                ]
            })
            .collect();
        acc += d as f64 * region_scalar(&tents, coords);
    }
    Ok(acc)
}

fn map_index(map: &Option<DeltaSetIndexMap>, gid: u32) -> Result<(u16, u16), String> {
    match map {
        Some(m) => m
            .get(gid)
            .map(|i| (i.outer, i.inner))
            .map_err(|e| format!("delta set index map: {e}")),
        None => Ok((0, gid as u16)),
    }
}

/// (tag, table, field) of every MVAR value tag we know a default for
fn mvar_defaults(font: &FontRef) -> Vec<(&'static str, Option<f64>)> {
    let os2 = font.os2().ok();
    let hhea = font.hhea().ok();
    let vhea = font.vhea().ok();
    let post = font.post().ok();
    let o = |f: &dyn Fn(&skrifa::raw::tables::os2::Os2) -> f64| os2.as_ref().map(f);
    vec![
        ("hasc", o(&|t| t.s_typo_ascender() as f64)),
        ("hdsc", o(&|t| t.s_typo_descender() as f64)),
        ("hlgp", o(&|t| t.s_typo_line_gap() as f64)),
        ("hcla", o(&|t| t.us_win_ascent() as f64)),
        ("hcld", o(&|t| t.us_win_descent() as f64)),
        ("xhgt", os2.as_ref().and_then(|t| t.sx_height()).map(|v| v as f64)),
        ("cpht", os2.as_ref().and_then(|t| t.s_cap_height()).map(|v| v as f64)),
        ("sbxs", o(&|t| t.y_subscript_x_size() as f64)),
        ("sbys", o(&|t| t.y_subscript_y_size() as f64)),
        ("sbxo", o(&|t| t.y_subscript_x_offset() as f64)),
        ("sbyo", o(&|t| t.y_subscript_y_offset() as f64)),
        ("spxs", o(&|t| t.y_superscript_x_size() as f64)),
        ("spys", o(&|t| t.y_superscript_y_size() as f64)),
        ("spxo", o(&|t| t.y_superscript_x_offset() as f64)),
        ("spyo", o(&|t| t.y_superscript_y_offset() as f64)),
        ("strs", o(&|t| t.y_strikeout_size() as f64)),
        ("stro", o(&|t| t.y_strikeout_position() as f64)),
        ("hcrs", hhea.as_ref().map(|t| t.caret_slope_rise() as f64)),
        ("hcrn", hhea.as_ref().map(|t| t.caret_slope_run() as f64)),
        ("hcof", hhea.as_ref().map(|t| t.caret_offset() as f64)),
        ("vasc", vhea.as_ref().map(|t| t.ascender().to_i16() as f64)),
        ("vdsc", vhea.as_ref().map(|t| t.descender().to_i16() as f64)),
        ("vlgp", vhea.as_ref().map(|t| t.line_gap().to_i16() as f64)),
        ("vcrs", vhea.as_ref().map(|t| t.caret_slope_rise() as f64)),
        ("vcrn", vhea.as_ref().map(|t| t.caret_slope_run() as f64)),
        ("vcof", vhea.as_ref().map(|t| t.caret_offset() as f64)),
        ("unds", post.as_ref().map(|t| t.underline_thickness().to_i16() as f64)),
        ("undo", post.as_ref().map(|t| t.underline_position().to_i16() as f64)),
    ]
}

fn measure(req: &Req) -> Result<Value, String> {
    let data = std::fs::read(&req.font).map_err(|e| format!("cannot read {}: {e}", req.font))?;
    let font = FontRef::new(&data).map_err(|e| format!("cannot parse font: {e}"))?;
    let sc = Sc(if req.scale > 0 { req.scale as f64 } else { 1024.0 });
    let want = |s: &str| req.sections.is_empty() || req.sections.iter().any(|x| x == s);
    let names = fontutil::glyph_names(&font);
    let ng = names.len() as u32;
    let axes: Vec<String> = font.axes().iter().map(|a| a.tag().to_string()).collect();
    let naxes = axes.len();

    // locations as F2Dot14 bits
    let mut locs: Vec<Vec<i32>> = req.locs.clone();
    for u in &req.user_locs {
        locs.push(
            fontutil::normalize_user(&font, u)
                .iter()
                .map(|c| c.to_bits() as i32)
                .collect(),
        );
    }
    if locs.is_empty() {
        locs.push(vec![0; naxes]);
    }
    for l in locs.iter_mut() {
        l.resize(naxes, 0);
    }
    let f2: Vec<Vec<F2Dot14>> = locs
        .iter()
        .map(|l| l.iter().map(|b| F2Dot14::from_bits(*b as i16)).collect())
        .collect();

    let mut out = Map::new();
    out.insert("tag".into(), json!(req.tag));
    out.insert("ok".into(), json!(true));
    out.insert("axes".into(), json!(axes));
    out.insert("locs".into(), json!(locs));
    out.insert("num_glyphs".into(), json!(ng));
    out.insert("scale".into(), json!(sc.0 as i64));
    out.insert(
        "upem".into(),
        json!(font.head().map(|h| h.units_per_em()).unwrap_or(0)),
    );
    let tables: Vec<String> = font
        .table_directory
        .table_records()
        .iter()
        .map(|r| r.tag().to_string())
        .collect();
    out.insert("tables".into(), json!(tables));

    let gids: Vec<u32> = if req.glyphs.is_empty() {
        (0..ng).collect()
    } else {
        let mut v = Vec::new();
        for n in &req.glyphs {
            match names.iter().position(|x| x == n) {
                Some(g) => v.push(g as u32),
                None => return Err(format!("glyph {n} is not in the font")),
            }
        }
        v
    };

    let loca = font.loca(None).ok();
    let glyf = font.glyf().ok();
    let hmtx = font.hmtx().ok();
    let vmtx = font.vmtx().ok();
    let hvar = font.hvar().ok();
    let vvar = font.vvar().ok();
    let hstore = match &hvar {
        Some(h) => Some(h.item_variation_store().map_err(|e| format!("HVAR store: {e}"))?),
        None => None,
    };
    let hmap = match &hvar {
        Some(h) => match h.advance_width_mapping() {
            Some(m) => Some(m.map_err(|e| format!("HVAR map: {e}"))?),
            None => None,
        },
        None => None,
    };
    let vstore = match &vvar {
        Some(h) => Some(h.item_variation_store().map_err(|e| format!("VVAR store: {e}"))?),
        None => None,
    };
    let vmap = match &vvar {
        Some(h) => match h.advance_height_mapping() {
            Some(m) => Some(m.map_err(|e| format!("VVAR map: {e}"))?),
            None => None,
        },
        None => None,
    };
    out.insert(
        "hvar".into(),
        json!({"present": hvar.is_some(), "indirect": hmap.is_some(),
               "items": hstore.as_ref().map(|s| s.item_variation_data().iter().flatten().flatten()
                    .map(|d| d.item_count() as u32).collect::<Vec<_>>())}),
    );
    out.insert(
        "vvar".into(),
        json!({"present": vvar.is_some(), "indirect": vmap.is_some(), "vmtx": vmtx.is_some()}),
    );

    let mut gl = Vec::new();
    for gid in gids {
        let name = &names[gid as usize];
        let mut g = Map::new();
        g.insert("name".into(), json!(name));
        g.insert("gid".into(), json!(gid));
        // raw glyf entry
        let mut npts: usize = 0;
        let mut comps: Vec<(u32, i32, i32)> = Vec::new();
        let mut kind = "none";
        if let (Some(loca), Some(glyf)) = (&loca, &glyf) {
            match loca.get_glyf(GlyphId::new(gid), glyf) {
                Ok(None) => kind = "empty",
                Ok(Some(Glyph::Simple(s))) => {
                    kind = "simple";
                    npts = s.num_points();
                    let pts: Vec<Value> = s.points().map(|p| json!([p.x, p.y, p.on_curve as u8])).collect();
                    let ends: Vec<u16> = s.end_pts_of_contours().iter().map(|e| e.get()).collect();
                    g.insert("points".into(), json!(pts));
                    g.insert("ends".into(), json!(ends));
                }
                Ok(Some(Glyph::Composite(c))) => {
                    kind = "composite";
                    let mut cj = Vec::new();
                    for k in c.components() {
                        let (dx, dy, by_point) = match k.anchor {
                            Anchor::Offset { x, y } => (x as i32, y as i32, false),
                            Anchor::Point { base, component } => (base as i32, component as i32, true),
                        };
                        comps.push((k.glyph.to_u16() as u32, dx, dy));
                        let ident = k.transform.xx.to_f32() == 1.0
                            && k.transform.yy.to_f32() == 1.0
                            && k.transform.xy.to_f32() == 0.0
                            && k.transform.yx.to_f32() == 0.0;
                        cj.push(json!({"gid": k.glyph.to_u16(), "base": names.get(k.glyph.to_u16() as usize),
                            "dx": dx, "dy": dy, "by_point": by_point, "flags": k.flags.bits(), "identity": ident}));
                    }
                    npts = comps.len();
                    g.insert("components".into(), json!(cj));
                }
                Err(e) => return Err(format!("glyf entry of {name}: {e}")),
            }
        }
        g.insert("kind".into(), json!(kind));
        let tuples = gvar_tuples(&font, gid, naxes)?;
        if want("outline") || want("advance") {
            let tj: Vec<Value> = tuples
                .iter()
                .map(|t| json!({"tents": t.tents, "dense": t.dense, "explicit": t.deltas.len()}))
                .collect();
            g.insert("tuples".into(), json!(tj));
        }
        let hadv = hmtx.as_ref().and_then(|h| h.advance(GlyphId::new(gid)));
        let vadv = vmtx.as_ref().and_then(|h| h.advance(GlyphId::new(gid)));
        g.insert("hmtx".into(), json!(hadv));
        g.insert("vmtx".into(), json!(vadv));
        let hidx = map_index(&hmap, gid)?;
        let vidx = map_index(&vmap, gid)?;
        let li: Vec<usize> = match req.glyph_locs.get(name) {
            Some(v) => v.clone(),
            None => (0..locs.len()).collect(),
        };
        let mut at = Vec::new();
        for l in li {
            let Some(coords) = locs.get(l) else {
                return Err(format!("location index {l} out of range"));
            };
            let mut a = Map::new();
            a.insert("loc".into(), json!(l));
            if want("outline") || want("advance") {
                // drawing also yields the advance width the scaler derives from the phantom points
                let mut pen = CmdPen {
                    sc: &sc,
                    cmds: Vec::new(),
                };
                match font.outline_glyphs().get(GlyphId::new(gid)) {
                    Some(og) => {
                        let settings = DrawSettings::unhinted(Size::unscaled(), LocationRef::new(&f2[l]))
                            .with_path_style(PathStyle::HarfBuzz);
                        match og.draw(settings, &mut pen) {
                            Ok(m) => {
                                a.insert("cmds".into(), Value::Array(pen.cmds));
                                a.insert(
                                    "padv".into(),
                                    m.advance_width.map(|w| sc.iv(w as f64)).unwrap_or(Value::Null),
                                );
                            }
                            Err(e) => {
                                a.insert("draw_error".into(), json!(e.to_string()));
                            }
                        }
                    }
                    None => {
                        a.insert("draw_error".into(), json!("no outline entry"));
                    }
                }
                // own gvar evaluation: component offsets and phantom points
                let offs: Vec<Value> = comps
                    .iter()
                    .enumerate()
                    .map(|(i, (_, dx, dy))| {
                        let (x, y) = gvar_point_delta(&tuples, i as u16, coords);
                        let (lx, ly) = (sc.iv(*dx as f64 + x), sc.iv(*dy as f64 + y));
                        json!([lx[0], lx[1], ly[0], ly[1]])
                    })
                    .collect();
                a.insert("offsets".into(), json!(offs));
                let ph: Vec<(f64, f64)> = (0..4)
                    .map(|k| gvar_point_delta(&tuples, (npts + k) as u16, coords))
                    .collect();
                // horizontal advance from the phantom points = hmtx advance + (right.x - left.x) deltas
                if let Some(h) = hadv {
                    a.insert("gadv".into(), sc.iv(h as f64 + ph[1].0 - ph[0].0));
                }
                // vertical advance = vmtx advance + (top.y - bottom.y) deltas
                if let Some(v) = vadv {
                    a.insert("gvadv".into(), sc.iv(v as f64 + ph[2].1 - ph[3].1));
                }
                a.insert(
                    "phantom_deltas".into(),
                    json!(ph.iter().map(|(x, y)| json!([sc.iv(*x), sc.iv(*y)])).collect::<Vec<_>>()),
                );
            }
            if want("advance") {
                if let (Some(h), Some(store)) = (hadv, &hstore) {
                    let d = ivs_delta(store, hidx.0, hidx.1, coords)?;
                    a.insert("hadv".into(), sc.iv(h as f64 + d));
                }
                let gm = font.glyph_metrics(Size::unscaled(), LocationRef::new(&f2[l]));
                a.insert(
                    "hadv_skrifa".into(),
                    gm.advance_width(GlyphId::new(gid))
                        .map(|w| sc.iv(w as f64))
                        .unwrap_or(Value::Null),
                );
                if let (Some(v), Some(store)) = (vadv, &vstore) {
                    let d = ivs_delta(store, vidx.0, vidx.1, coords)?;
                    a.insert("vadv".into(), sc.iv(v as f64 + d));
                }
            }
            at.push(Value::Object(a));
        }
        g.insert("at".into(), json!(at));
        gl.push(Value::Object(g));
    }
    out.insert("glyphs".into(), json!(gl));

    if want("mvar") {
        let defaults = mvar_defaults(&font);
        let mvar = font.mvar().ok();
        let mut recs: HashMap<String, (u16, u16)> = HashMap::new();
        let mut rec_tags = Vec::new();
        let mstore = match &mvar {
            Some(m) => match m.item_variation_store() {
                Some(s) => Some(s.map_err(|e| format!("MVAR store: {e}"))?),
                None => None,
            },
            None => None,
        };
        if let Some(m) = &mvar {
            for r in m.value_records() {
                let t = r.value_tag().to_string();
                rec_tags.push(t.clone());
                recs.insert(t, (r.delta_set_outer_index(), r.delta_set_inner_index()));
            }
        }
        let mut per_loc = Vec::new();
        for (l, coords) in locs.iter().enumerate() {
            let mut vals = Map::new();
            for (tag, dflt) in &defaults {
                let Some(d) = dflt else { continue };
                let delta = match (recs.get(*tag), &mstore) {
                    (Some((o, i)), Some(store)) => ivs_delta(store, *o, *i, coords)?,
                    _ => 0.0,
                };
                vals.insert((*tag).into(), sc.iv(d + delta));
            }
            // second evaluator: skrifa's font-wide metrics (covers a subset of the tags)
            let m = font.metrics(Size::unscaled(), LocationRef::new(&f2[l]));
            let mut sk = Map::new();
            if let Some(v) = m.x_height {
                sk.insert("xhgt".into(), sc.iv(v as f64));
            }
            if let Some(v) = m.cap_height {
                sk.insert("cpht".into(), sc.iv(v as f64));
            }
            if let Some(d) = m.underline {
                sk.insert("undo".into(), sc.iv(d.offset as f64));
                sk.insert("unds".into(), sc.iv(d.thickness as f64));
            }
            if let Some(d) = m.strikeout {
                sk.insert("stro".into(), sc.iv(d.offset as f64));
                sk.insert("strs".into(), sc.iv(d.thickness as f64));
            }
            sk.insert("ascent".into(), sc.iv(m.ascent as f64));
            sk.insert("descent".into(), sc.iv(m.descent as f64));
            sk.insert("leading".into(), sc.iv(m.leading as f64));
            per_loc.push(json!({"loc": l, "vals": vals, "skrifa": sk}));
        }
        out.insert(
            "mvar".into(),
            json!({"present": mvar.is_some(), "tags": rec_tags, "at": per_loc}),
        );
        // also: is there a record for a tag we have no default table for?
        let unknown: Vec<String> = recs
            .keys()
            .filter(|t| !defaults.iter().any(|(d, v)| d == t && v.is_some()))
            .cloned()
            .collect();
        out.insert("mvar_unknown_tags".into(), json!(unknown));
        let _ = Tag::new(b"MVAR");
    }
    if want("defaults") {
        let mut d = Map::new();
        for (tag, v) in mvar_defaults(&font) {
            if let Some(v) = v {
                d.insert(tag.into(), json!(v as i64));
            }
        }
        if let Ok(h) = font.hhea() {
            d.insert("hhea.ascender".into(), json!(h.ascender().to_i16()));
            d.insert("hhea.descender".into(), json!(h.descender().to_i16()));
            d.insert("hhea.lineGap".into(), json!(h.line_gap().to_i16()));
        }
        out.insert("defaults".into(), Value::Object(d));
    }
    Ok(Value::Object(out))
}

fn handle(line: &str) -> Value {
    let req: Req = match serde_json::from_str(line) {
        Ok(r) => r,
        Err(e) => return json!({"ok": false, "error": format!("bad request: {e}")}),
    };
    let tag = req.tag.clone();
    match std::panic::catch_unwind(std::panic::AssertUnwindSafe(|| measure(&req))) {
        Ok(Ok(v)) => v,
        Ok(Err(e)) => json!({"tag": tag, "ok": false, "error": e}),
        Err(p) => json!({"tag": tag, "ok": false, "error": format!("panic: {}", crate::compile::panic_message(p))}),
    }
}

pub fn run(args: &[String]) -> i32 {
    if std::env::var("VH_PANIC_VERBOSE").is_err() {
        std::panic::set_hook(Box::new(|_| {}));
    }
    let reader: Box<dyn BufRead> = match args.first() {
        Some(p) => match std::fs::File::open(p) {
            Ok(f) => Box::new(std::io::BufReader::new(f)),
            Err(e) => {
                eprintln!("cannot open {p}: {e}");
                return 2;
            }
        },
        None => Box::new(std::io::BufReader::new(std::io::stdin())),
    };
    let stdout = std::io::stdout();
    for line in reader.lines() {
        let Ok(line) = line else { break };
        if line.trim().is_empty() {
            continue;
        }
        let v = handle(&line);
        let mut o = stdout.lock();
        let _ = writeln!(o, "{v}");
        let _ = o.flush();
    }
    0
}
