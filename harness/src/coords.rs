//! `vh coords`: C08 replay driver. See /verif/docs/C08.md and /verif/spec/Coords.tla.
//!
//! One JSON request per stdin line, one JSON result per stdout line. A request is an axis definition
//! (the way a .designspace states it) plus user coordinates to evaluate. Two routes through the real code:
//!
//! * `api`: the public fontdrasil API (`CoordConverter::new` / `unmapped` / `default_normalization`,
//!   `Coord::to_design` / `to_normalized` / `to_user`, `CoordConverter::iter`);
//! * `font`: a full compile (`fontc::generate_font`) of a tiny designspace with that axis (or of a repository
//!   fixture), then fvar + avar are read back with read-fonts and evaluated by the independent
//!   implementation in this file (`fvar_normalize_units`, `avar_eval`): integer arithmetic on the raw
//!   Fixed / F2Dot14 values, nothing from fontc or fontdrasil.
//!
//! Nothing is compared here; the expected values come from TLC and the comparison is in checks/c08.py.

use std::{
    fmt::Write as _,
    io::{BufRead, Write},
    path::{Path, PathBuf},
};

use fontdrasil::coords::{CoordConverter, DesignCoord, UserCoord};
use serde::Deserialize;
use serde_json::{Value, json};
use write_fonts::read::{FontRef, TableProvider};

use crate::compile::{CompileReq, compile, panic_message};

#[derive(Debug, Default, Clone, Deserialize)]
#[serde(default)]
struct Req {
    id: Value,
    mapped: bool,
    amin: f64,
    adef: f64,
    amax: f64,
    /// (user, design) in source order
    map: Vec<(f64, f64)>,
    grid: Vec<f64>,
    /// design coordinates of named instances
    inst: Vec<f64>,
    /// call the fontdrasil API
    api: bool,
    /// do the full compile
    compile: bool,
    /// scratch directory for generated sources
    dir: String,
    /// compile this existing source instead of a generated one
    src: String,
    /// axis to project from the font (fixtures); generated sources use "wght"
    tag: String,
    /// rayon threads for the compile (0 = rayon default)
    threads: usize,
    /// only report the axes of a .glyphs source as glyphs-reader parses them (no compile)
    glyphs_axes: bool,
    /// keep the generated designspace under this name instead of overwriting case.designspace
    keep: String,
}

fn fmt_num(v: f64) -> String {
    // shortest round-trip decimal; our values are dyadic so this is exact
    format!("{v}")
}

// ------------------------------------------------------------------------------------------ api

fn api_route(req: &Req) -> Value {
    let min = UserCoord::new(req.amin);
    let def = UserCoord::new(req.adef);
    let max = UserCoord::new(req.amax);
    let conv = if req.mapped {
        // the source states the default by value; its index is its position in the list as given
        let Some(default_idx) = req.map.iter().position(|(u, _)| *u == req.adef) else {
            return json!({"outcome": "skipped", "message": "default is not a map input"});
        };
        let mappings = req
            .map
            .iter()
            .map(|(u, d)| (UserCoord::new(*u), DesignCoord::new(*d)))
            .collect();
        match CoordConverter::new(mappings, default_idx) {
            Ok(c) => c,
            Err(e) => return json!({"outcome": "error", "message": e.to_string()}),
        }
    } else {
        CoordConverter::unmapped(min, def, max)
    };
    let dconv = CoordConverter::default_normalization(min, def, max);
    let nodes: Vec<_> = conv
        .iter()
        .map(|(u, d, n)| json!([u.to_f64(), d.to_f64(), n.to_f64()]))
        .collect();
    let mut design = Vec::new();
    let mut norm = Vec::new();
    let mut dnorm = Vec::new();
    let mut back = Vec::new();
    for u in &req.grid {
        let uc = UserCoord::new(*u);
        let d = uc.to_design(&conv);
        design.push(d.to_f64());
        norm.push(uc.to_normalized(&conv).to_f64());
        dnorm.push(uc.to_normalized(&dconv).to_f64());
        // normalized -> design: must give back a design coordinate with the same normalized value
        back.push(d.to_normalized(&conv).to_design(&conv).to_f64());
    }
    let inst_user: Vec<f64> = req
        .inst
        .iter()
        .map(|d| DesignCoord::new(*d).to_user(&conv).to_f64())
        .collect();
    json!({"outcome": "ok", "len": conv.len(), "nodes": nodes, "design": design, "norm": norm, "dnorm": dnorm,
           "norm_to_design": back, "inst_user": inst_user})
}

// ------------------------------------------------------------------------------------------ sources

fn write_file(path: &Path, text: &str) -> Result<(), String> {
    if let Some(p) = path.parent() {
        std::fs::create_dir_all(p).map_err(|e| format!("{p:?}: {e}"))?;
    }
    std::fs::write(path, text).map_err(|e| format!("{path:?}: {e}"))
}

const PLIST_HEAD: &str = "<?xml version='1.0' encoding='UTF-8'?>\n<!DOCTYPE plist PUBLIC \"-//Apple//DTD PLIST 1.0//EN\" \"http://www.apple.com/DTDs/PropertyList-1.0.dtd\">\n<plist version=\"1.0\">\n";

/// A one-glyph UFO (structure copied from resources/testdata/WghtVar-Regular.ufo); `w` varies per master.
fn write_ufo(dir: &Path, style: &str, w: i32) -> Result<(), String> {
    write_file(
        &dir.join("metainfo.plist"),
        &format!("{PLIST_HEAD}<dict><key>creator</key><string>verif.c08</string><key>formatVersion</key><integer>3</integer></dict></plist>\n"),
    )?;
    write_file(
        &dir.join("layercontents.plist"),
        &format!("{PLIST_HEAD}<array><array><string>public.default</string><string>glyphs</string></array></array></plist>\n"),
    )?;
    write_file(
        &dir.join("fontinfo.plist"),
        &format!("{PLIST_HEAD}<dict><key>unitsPerEm</key><integer>1000</integer><key>ascender</key><real>800</real><key>descender</key><real>-200</real><key>familyName</key><string>C08</string><key>styleName</key><string>{style}</string></dict></plist>\n"),
    )?;
    write_file(
        &dir.join("lib.plist"),
        &format!("{PLIST_HEAD}<dict><key>public.glyphOrder</key><array><string>bar</string></array></dict></plist>\n"),
    )?;
    write_file(
        &dir.join("glyphs/contents.plist"),
        &format!("{PLIST_HEAD}<dict><key>bar</key><string>bar.glif</string></dict></plist>\n"),
    )?;
    let x1 = 100 + w;
    write_file(
        &dir.join("glyphs/bar.glif"),
        &format!(
            "<?xml version='1.0' encoding='UTF-8'?>\n<glyph name=\"bar\" format=\"2\">\n<advance width=\"{}\"/>\n<unicode hex=\"007C\"/>\n<outline><contour>\n<point x=\"100\" y=\"0\" type=\"line\"/><point x=\"{x1}\" y=\"0\" type=\"line\"/><point x=\"{x1}\" y=\"700\" type=\"line\"/><point x=\"100\" y=\"700\" type=\"line\"/>\n</contour></outline>\n</glyph>\n",
            200 + w
        ),
    )
}

/// Write the designspace for `req` (masters at the design default and at each design extreme that
/// differs from it) and return its path.
fn write_designspace(req: &Req, dir: &Path) -> Result<PathBuf, String> {
    for (name, style, w) in [("lo.ufo", "Lo", 40), ("def.ufo", "Def", 100), ("hi.ufo", "Hi", 220)] {
        let u = dir.join(name);
        if !u.join("glyphs/bar.glif").exists() {
            write_ufo(&u, style, w)?;
        }
    }
    // where the masters sit, in design coordinates
    let (dmin, ddef, dmax) = if req.mapped {
        let ddef = req
            .map
            .iter()
            .find(|(u, _)| *u == req.adef)
            .map(|(_, d)| *d)
            .ok_or("default is not a map input")?;
        let dmin = req.map.iter().map(|(_, d)| *d).fold(f64::INFINITY, f64::min);
        let dmax = req.map.iter().map(|(_, d)| *d).fold(f64::NEG_INFINITY, f64::max);
        (dmin, ddef, dmax)
    } else {
        (req.amin, req.adef, req.amax)
    };
    let mut s = String::new();
    s.push_str("<?xml version='1.0' encoding='UTF-8'?>\n<designspace format=\"4.1\">\n  <axes>\n");
    let _ = write!(
        s,
        "    <axis tag=\"wght\" name=\"Weight\" minimum=\"{}\" maximum=\"{}\" default=\"{}\"",
        fmt_num(req.amin),
        fmt_num(req.amax),
        fmt_num(req.adef)
    );
    if req.mapped {
        s.push_str(">\n");
        for (u, d) in &req.map {
            let _ = writeln!(s, "      <map input=\"{}\" output=\"{}\"/>", fmt_num(*u), fmt_num(*d));
        }
        s.push_str("    </axis>\n");
    } else {
        s.push_str("/>\n");
    }
    s.push_str("  </axes>\n  <sources>\n");
    let mut source = |file: &str, style: &str, at: f64| {
        let _ = writeln!(
            s,
            "    <source filename=\"{file}\" name=\"C08 {style}\" familyname=\"C08\" stylename=\"{style}\"><location><dimension name=\"Weight\" xvalue=\"{}\"/></location></source>",
            fmt_num(at)
        );
    };
    source("def.ufo", "Def", ddef);
    if dmin < ddef {
        source("lo.ufo", "Lo", dmin);
    }
    if dmax > ddef {
        source("hi.ufo", "Hi", dmax);
    }
    s.push_str("  </sources>\n  <instances>\n");
    for (i, d) in req.inst.iter().enumerate() {
        let _ = writeln!(
            s,
            "    <instance name=\"C08 I{i}\" familyname=\"C08\" stylename=\"I{i}\"><location><dimension name=\"Weight\" xvalue=\"{}\"/></location></instance>",
            fmt_num(*d)
        );
    }
    s.push_str("  </instances>\n</designspace>\n");
    let name = if req.keep.is_empty() { "case.designspace" } else { req.keep.as_str() };
    let path = dir.join(name);
    write_file(&path, &s)?;
    Ok(path)
}

// ------------------------------------------------------------------------------------------ independent evaluation

/// round(num / den) to the nearest integer, ties away from zero; den > 0
fn div_round(num: i128, den: i128) -> i128 {
    if num >= 0 {
        (2 * num + den) / (2 * den)
    } else {
        -((2 * -num + den) / (2 * den))
    }
}

/// OpenType default normalisation of a user coordinate (Fixed 16.16 raw values), clamped to [min, max];
/// the result is rounded to F2Dot14 units (what goes into avar).
fn fvar_normalize_units(min: i64, def: i64, max: i64, u: i64) -> i64 {
    let u = u.clamp(min.min(max), max.max(min));
    if u < def && def > min {
        -(div_round(((def - u) as i128) * 16384, (def - min) as i128) as i64)
    } else if u > def && max > def {
        div_round(((u - def) as i128) * 16384, (max - def) as i128) as i64
    } else {
        0
    }
}

/// The avar segment-map rule on F2Dot14 units: a coordinate that is a node maps to the node's value (first
/// one if the key repeats); otherwise linear between the neighbouring nodes. Exact rational (num, den) in
/// units. Outside the nodes (a malformed map) the coordinate is returned unchanged, `covered` = false.
fn avar_eval(seg: &[(i64, i64)], x: i64) -> (i128, i128, bool) {
    if seg.is_empty() {
        return (x as i128, 1, true);
    }
    if let Some((_, to)) = seg.iter().find(|(from, _)| *from == x) {
        return (*to as i128, 1, true);
    }
    let mut left: Option<(i64, i64)> = None;
    let mut right: Option<(i64, i64)> = None;
    for (from, to) in seg {
        if *from < x && left.map(|(f, _)| *from >= f).unwrap_or(true) {
            left = Some((*from, *to));
        }
        if *from > x && right.map(|(f, _)| *from < f).unwrap_or(true) {
            right = Some((*from, *to));
        }
    }
    match (left, right) {
        (Some((fl, tl)), Some((fr, tr))) => {
            let den = (fr - fl) as i128;
            let num = (tl as i128) * den + ((tr - tl) as i128) * ((x - fl) as i128);
            (num, den, true)
        }
        _ => (x as i128, 1, false),
    }
}

fn project_font(bytes: &[u8], tag: &str, grid: &[f64]) -> Result<Value, String> {
    let font = FontRef::new(bytes).map_err(|e| format!("unreadable font: {e}"))?;
    let Ok(fvar) = font.fvar() else {
        return Ok(json!({"has_fvar": false}));
    };
    let axes = fvar.axes().map_err(|e| format!("fvar axes: {e}"))?;
    let axis_tags: Vec<String> = axes.iter().map(|a| a.axis_tag().to_string()).collect();
    let insts = fvar.instances().map_err(|e| format!("fvar instances: {e}"))?;
    let mut inst_coords: Vec<Vec<i64>> = Vec::new();
    for inst in insts.iter() {
        let inst = inst.map_err(|e| format!("fvar instance: {e}"))?;
        inst_coords.push(inst.coordinates.iter().map(|c| c.get().to_bits() as i64).collect());
    }
    let mut segs: Vec<Option<Vec<(i64, i64)>>> = vec![None; axes.len()];
    let has_avar = font.avar().is_ok();
    if let Ok(avar) = font.avar() {
        for (i, m) in avar.axis_segment_maps().iter().enumerate() {
            let m = m.map_err(|e| format!("avar segment map: {e}"))?;
            if i < segs.len() {
                segs[i] = Some(
                    m.axis_value_maps()
                        .iter()
                        .map(|av| (av.from_coordinate().to_bits() as i64, av.to_coordinate().to_bits() as i64))
                        .collect(),
                );
            }
        }
    }
    let seg_json = |s: &Option<Vec<(i64, i64)>>| s.as_ref().map(|s| s.iter().map(|(a, b)| json!([a, b])).collect::<Vec<_>>());
    let mut all_axes = Vec::new();
    for (i, rec) in axes.iter().enumerate() {
        let coords: Vec<Option<i64>> = inst_coords.iter().map(|c| c.get(i).copied()).collect();
        all_axes.push(json!({
            "index": i, "tag": axis_tags[i],
            "fvar": [rec.min_value().to_bits() as i64, rec.default_value().to_bits() as i64, rec.max_value().to_bits() as i64],
            "avar": seg_json(&segs[i]),
            "instances": coords,
        }));
    }
    let mut v = json!({"has_fvar": true, "has_avar": has_avar, "axis_tags": axis_tags, "all_axes": all_axes});
    let Some(ai) = axis_tags.iter().position(|t| t == tag) else {
        v["has_axis"] = json!(false);
        return Ok(v);
    };
    let rec = &axes[ai];
    let (fmin, fdef, fmax) = (
        rec.min_value().to_bits() as i64,
        rec.default_value().to_bits() as i64,
        rec.max_value().to_bits() as i64,
    );
    let seg = &segs[ai];
    let mut fnorm = Vec::new();
    let mut out = Vec::new();
    let mut covered = true;
    for u in grid {
        let uf = (u * 65536.0).round() as i64;
        let x = fvar_normalize_units(fmin, fdef, fmax, uf);
        fnorm.push(x);
        let (n, d, c) = match seg {
            Some(s) => avar_eval(s, x),
            None => (x as i128, 1, true),
        };
        covered &= c;
        out.push(json!([n as i64, d as i64]));
    }
    v["has_axis"] = json!(true);
    v["axis_index"] = json!(ai);
    v["fvar"] = json!([fmin, fdef, fmax]);
    v["instances"] = json!(inst_coords.iter().filter_map(|c| c.get(ai).copied()).collect::<Vec<_>>());
    v["avar"] = json!(seg_json(seg));
    v["fnorm_units"] = json!(fnorm);
    v["norm_units"] = json!(out);
    v["covered"] = json!(covered);
    Ok(v)
}

fn font_route(req: &Req) -> Value {
    let (src, tag) = if req.src.is_empty() {
        let dir = PathBuf::from(&req.dir).join(format!("p{}", std::process::id()));
        match write_designspace(req, &dir) {
            Ok(p) => (p.to_string_lossy().to_string(), "wght".to_string()),
            Err(e) => return json!({"outcome": "harness-error", "message": e}),
        }
    } else {
        (req.src.clone(), if req.tag.is_empty() { "wght".to_string() } else { req.tag.clone() })
    };
    let creq = CompileReq {
        src: src.clone(),
        threads: req.threads,
        ..Default::default()
    };
    let (res, bytes) = compile(&creq);
    let mut v = json!({"outcome": res.outcome, "message": res.message, "src": src, "wall_ms": res.wall_ms as u64});
    if let Some(bytes) = bytes {
        match project_font(&bytes, &tag, &req.grid) {
            Ok(p) => {
                for (k, val) in p.as_object().unwrap() {
                    v[k] = val.clone();
                }
            }
            Err(e) => {
                v["outcome"] = json!("unreadable");
                v["message"] = json!(e);
            }
        }
    }
    v
}

/// The axis statements of a .glyphs / .glyphspackage source, as parsed by glyphs-reader: per axis the
/// user:design mapping in list order and every master's design coordinate, plus the default master.
fn glyphs_axes(path: &str) -> Value {
    let font = match glyphs_reader::Font::load(Path::new(path)) {
        Ok(f) => f,
        Err(e) => return json!({"outcome": "error", "message": e.to_string()}),
    };
    let axes: Vec<Value> = font
        .axes
        .iter()
        .enumerate()
        .map(|(i, a)| {
            let map: Vec<Value> = font
                .axis_mappings
                .get(&a.name)
                .map(|m| m.iter().map(|(u, d)| json!([u.into_inner(), d.into_inner()])).collect())
                .unwrap_or_default();
            // master positions, then the positions named by "Virtual Master" parameters (they extend the
            // axis range the source states)
            let masters: Vec<Option<f64>> = font
                .masters
                .iter()
                .map(|m| m.axes_values.get(i).map(|v| v.into_inner()))
                .chain(
                    font.virtual_masters
                        .iter()
                        .filter_map(|vm| vm.get(&a.name).map(|v| Some(v.into_inner()))),
                )
                .collect();
            json!({"name": a.name, "tag": a.tag, "map": map, "masters": masters})
        })
        .collect();
    json!({"outcome": "ok", "axes": axes, "default_master": font.default_master_idx})
}

pub fn run(args: &[String]) -> i32 {
    if std::env::var("VH_PANIC_VERBOSE").is_err() {
        std::panic::set_hook(Box::new(|_| {}));
    }
    let reader: Box<dyn BufRead> = match args.first() {
        Some(path) => match std::fs::File::open(path) {
            Ok(f) => Box::new(std::io::BufReader::new(f)),
            Err(e) => {
                eprintln!("vh coords: {path}: {e}");
                return 2;
            }
        },
        None => Box::new(std::io::BufReader::new(std::io::stdin())),
    };
    let stdout = std::io::stdout();
    for line in reader.lines() {
        let Ok(line) = line else { break };
        if line.trim().is_empty() {
            continue;
        }
        let req: Req = match serde_json::from_str(&line) {
            Ok(r) => r,
            Err(e) => {
                eprintln!("vh coords: bad request: {e}");
                return 2;
            }
        };
        let mut res = json!({"id": req.id});
        if req.glyphs_axes {
            let src = req.src.clone();
            res["glyphs"] = match std::panic::catch_unwind(move || glyphs_axes(&src)) {
                Ok(v) => v,
                Err(p) => json!({"outcome": "panic", "message": panic_message(p)}),
            };
        }
        if req.api {
            res["api"] = match std::panic::catch_unwind(|| api_route(&req)) {
                Ok(v) => v,
                Err(p) => json!({"outcome": "panic", "message": panic_message(p)}),
            };
        }
        if req.compile {
            // compile() catches panics of the compiler itself
            res["font"] = match std::panic::catch_unwind(|| font_route(&req)) {
                Ok(v) => v,
                Err(p) => json!({"outcome": "harness-panic", "message": panic_message(p)}),
            };
        }
        let mut out = stdout.lock();
        let _ = writeln!(out, "{res}");
        let _ = out.flush();
    }
    0
}
