//! `vh persist`: the real file names of persisted items (C14).
//!
//! stdin: one JSON request per line
//!   {"name": "<glyph name>"}                        -> {"file","glyph_ir","anchor_ir","glyf","gvar"}
//!   {"kern": [["wght", 0.004], ...]}                -> {"kern_file"}
//! Everything goes through the public path functions of fontdrasil / fontir / fontbe.

use std::{
    io::{BufRead, Write},
    path::Path,
};

use fontdrasil::{
    coords::{NormalizedCoord, NormalizedLocation},
    types::GlyphName,
};
use serde_json::{Value, json};
use write_fonts::types::Tag;

fn fname(p: std::path::PathBuf) -> String {
    p.to_string_lossy().into_owned()
}

fn one(req: &Value) -> Value {
    let dir = Path::new("D");
    if let Some(name) = req.get("name").and_then(|v| v.as_str()) {
        let gn = GlyphName::new(name);
        json!({
            "name": name,
            "file": fontdrasil::paths::string_to_filename(name, ""),
            "glyph_ir": fname(fontir::paths::Paths::target_file(dir, &fontir::orchestration::WorkId::Glyph(gn.clone()))),
            "anchor_ir": fname(fontir::paths::Paths::target_file(dir, &fontir::orchestration::WorkId::Anchor(gn.clone()))),
            "glyf": fname(fontbe::paths::Paths::target_file(dir, &fontbe::orchestration::WorkId::GlyfFragment(gn.clone()))),
            "gvar": fname(fontbe::paths::Paths::target_file(dir, &fontbe::orchestration::WorkId::GvarFragment(gn))),
        })
    } else if let Some(kern) = req.get("kern").and_then(|v| v.as_array()) {
        let mut loc = NormalizedLocation::new();
        for pair in kern {
            let tag = pair.get(0).and_then(|v| v.as_str()).unwrap_or("wght");
            let val = pair.get(1).and_then(|v| v.as_f64()).unwrap_or(0.0);
            if let Ok(tag) = Tag::new_checked(tag.as_bytes()) {
                loc.insert(tag, NormalizedCoord::new(val));
            }
        }
        json!({
            "kern": kern,
            "kern_file": fname(fontir::paths::Paths::target_file(dir, &fontir::orchestration::WorkId::KernInstance(loc))),
        })
    } else {
        json!({"error": "bad request"})
    }
}

pub fn run(_args: &[String]) -> i32 {
    std::panic::set_hook(Box::new(|_| {}));
    let stdin = std::io::stdin();
    let stdout = std::io::stdout();
    let mut out = stdout.lock();
    for line in stdin.lock().lines() {
        let Ok(line) = line else { break };
        if line.trim().is_empty() {
            continue;
        }
        let req: Value = match serde_json::from_str(&line) {
            Ok(v) => v,
            Err(e) => {
                eprintln!("bad request: {e}");
                return 2;
            }
        };
        let res = std::panic::catch_unwind(|| one(&req))
            .unwrap_or_else(|p| json!({"outcome": "panic", "message": crate::compile::panic_message(p)}));
        let _ = writeln!(out, "{res}");
    }
    0
}
