//! `vh components`: compile one source under several subsets of the component options and report, for every
//! build, how each glyph is stored (glyf: simple / composite + component records) and what it looks like
//! (every glyph drawn with skrifa at the requested normalized locations) plus its advance. C12.
//!
//! stdin: one JSON request per line
//!   {"tag": "...", "src": "<designspace|ufo|glyphs>", "masks": [0..15],      (default: all 16)
//!    "locs": [[normalized coords in fvar axis order], ...] | null,           (null: default + all gvar peaks)
//!    "skip_features": true, "threads": 1, "save_dir": ""}                    (save_dir: keep the fonts there)
//! mask bits: 1 flatten, 2 decompose (all), 4 decompose_transformed, 8 prefer_simple; a clear bit forces the
//! option off. production_names is always off so that glyph names stay the source's.
//! stdout: one JSON line per request
//!   {"tag", "locs", "runs": [{"mask", "outcome": "ok|error|panic", "message", "same_as": <mask>}
//!                          | {"mask", "outcome": "ok", "pic": PIC}]}
//!   PIC = {"names": [..], "glyphs": [{"kind": "simple|composite|empty", "depth": n,
//!                                     "comps": [[name, xx, yx, xy, yy, dx, dy], ..]}, ..],
//!          "at": [{"adv": [advance|null per glyph],
//!                  "draw": [null | [{"p": [[x, y, on], ..], "s": 1|-1, "lv": n, "tol": t}, ..] per glyph]}, ..]}
//!   Per drawn contour: "p" the closed node cycle (on = 1 on-curve, 0 off-curve) in drawing order, "s" the sign
//!   of the determinant accumulated along the composite path that produced it (a renderer mirrors the contours
//!   of a flipped component without reversing them), "lv" the number of component levels on that path and "tol"
//!   one unit per level (the glyph's own outline is a level), a level's unit being multiplied by the
//!   magnification of the accumulated 2x2 above it where that is > 1.
//! Nothing is interpreted here: the comparison is done by checks/c12.py.

use std::io::{BufRead, Write};

use serde::Deserialize;
use serde_json::{Value, json};
use skrifa::{
    MetadataProvider,
    raw::{
        FontRef, TableProvider,
        tables::glyf::{Anchor, Glyph},
        types::GlyphId,
    },
};

use crate::{
    compile::{CompileReq, compile},
    fontutil,
};

#[derive(Debug, Default, Clone, Deserialize)]
#[serde(default)]
struct Req {
    tag: String,
    src: String,
    masks: Option<Vec<u32>>,
    locs: Option<Vec<Vec<f64>>>,
    skip_features: Option<bool>,
    threads: Option<usize>,
    save_dir: String,
    /// at most this many automatic locations
    max_locs: Option<usize>,
}

const OPTS: [(&str, u32); 4] = [
    ("flatten", 1),
    ("decompose", 2),
    ("decompose_transformed", 4),
    ("prefer_simple", 8),
];

fn compile_req(req: &Req, mask: u32) -> CompileReq {
    let mut flags = Vec::new();
    let mut no_flags = vec!["production_names".to_string()];
    for (name, bit) in OPTS {
        if mask & bit != 0 {
            flags.push(name.to_string());
        } else {
            no_flags.push(name.to_string());
        }
    }
    CompileReq {
        tag: format!("{}:{}", req.tag, mask),
        src: req.src.clone(),
        out: if req.save_dir.is_empty() {
            String::new()
        } else {
            format!("{}/{}_{}.ttf", req.save_dir, req.tag.replace('/', "_"), mask)
        },
        threads: req.threads.unwrap_or(1),
        flags,
        no_flags,
        skip_features: req.skip_features.unwrap_or(true),
        ..Default::default()
    }
}

#[derive(Clone, Copy)]
struct M2 {
    xx: f64,
    yx: f64,
    xy: f64,
    yy: f64,
}

impl M2 {
    const ID: M2 = M2 {
        xx: 1.0,
        yx: 0.0,
        xy: 0.0,
        yy: 1.0,
    };
    /// self applied after `o`
    fn mul(&self, o: &M2) -> M2 {
        M2 {
            xx: self.xx * o.xx + self.xy * o.yx,
            yx: self.yx * o.xx + self.yy * o.yx,
            xy: self.xx * o.xy + self.xy * o.yy,
            yy: self.yx * o.xy + self.yy * o.yy,
        }
    }
    fn det(&self) -> f64 {
        self.xx * self.yy - self.xy * self.yx
    }
    fn magnification(&self) -> f64 {
        (self.xx.abs() + self.xy.abs()).max(self.yx.abs() + self.yy.abs())
    }
}

#[derive(Clone, Copy)]
struct LeafInfo {
    sign: i32,
    level: u32,
    tol: f64,
}

/// One entry per contour in drawing order (components in order, depth first).
fn leaf_infos(font: &FontRef, gid: u32, acc: M2, level: u32, tol: f64, out: &mut Vec<LeafInfo>) -> Option<()> {
    if level > 16 {
        return None;
    }
    let loca = font.loca(None).ok()?;
    let glyf = font.glyf().ok()?;
    match loca.get_glyf(GlyphId::new(gid), &glyf).ok()? {
        None => {}
        Some(Glyph::Simple(s)) => {
            let info = LeafInfo {
                sign: if acc.det() < 0.0 { -1 } else { 1 },
                level,
                tol,
            };
            for _ in 0..s.number_of_contours().max(0) {
                out.push(info);
            }
        }
        Some(Glyph::Composite(c)) => {
            for k in c.components() {
                let t = M2 {
                    xx: k.transform.xx.to_f32() as f64,
                    yx: k.transform.yx.to_f32() as f64,
                    xy: k.transform.xy.to_f32() as f64,
                    yy: k.transform.yy.to_f32() as f64,
                };
                let t = acc.mul(&t);
                leaf_infos(font, k.glyph.to_u32(), t, level + 1, tol + t.magnification().max(1.0), out)?;
            }
        }
    }
    Some(())
}

fn composite_depth(font: &FontRef, gid: u32, guard: u32) -> u32 {
    if guard > 16 {
        return guard;
    }
    let (Ok(loca), Ok(glyf)) = (font.loca(None), font.glyf()) else {
        return 0;
    };
    match loca.get_glyf(GlyphId::new(gid), &glyf) {
        Ok(Some(Glyph::Composite(c))) => {
            1 + c
                .components()
                .map(|k| composite_depth(font, k.glyph.to_u32(), guard + 1))
                .max()
                .unwrap_or(0)
        }
        _ => 0,
    }
}

/// Pen commands -> closed node cycles [[x, y, on], ..]
fn contours_of(cmds: &[Value]) -> Vec<Vec<[f64; 3]>> {
    let mut out: Vec<Vec<[f64; 3]>> = Vec::new();
    let num = |v: &Value, i: usize| v.get(i).and_then(|x| x.as_f64()).unwrap_or(f64::NAN);
    for c in cmds {
        match c.get(0).and_then(|x| x.as_str()).unwrap_or("") {
            "M" => out.push(vec![[num(c, 1), num(c, 2), 1.0]]),
            "L" => {
                if let Some(cur) = out.last_mut() {
                    cur.push([num(c, 1), num(c, 2), 1.0]);
                }
            }
            "Q" => {
                if let Some(cur) = out.last_mut() {
                    cur.push([num(c, 1), num(c, 2), 0.0]);
                    cur.push([num(c, 3), num(c, 4), 1.0]);
                }
            }
            "C" => {
                if let Some(cur) = out.last_mut() {
                    cur.push([num(c, 1), num(c, 2), 0.0]);
                    cur.push([num(c, 3), num(c, 4), 0.0]);
                    cur.push([num(c, 5), num(c, 6), 1.0]);
                }
            }
            _ => {
                // "Z": drop an explicit return to the start point
                if let Some(cur) = out.last_mut()
                    && cur.len() > 1
                    && cur[0] == cur[cur.len() - 1]
                {
                    cur.pop();
                }
            }
        }
    }
    out
}

/// default location + every gvar peak tuple (the locations of the sources some glyph has)
fn auto_locs(font: &FontRef, ng: u32, max: usize) -> Vec<Vec<f64>> {
    let n_axes = font.axes().len();
    let mut locs: Vec<Vec<f64>> = vec![vec![0.0; n_axes]];
    if n_axes == 0 {
        return vec![vec![]];
    }
    if let Ok(gvar) = font.gvar() {
        for gid in 0..ng {
            let Ok(Some(data)) = gvar.glyph_variation_data(GlyphId::new(gid)) else {
                continue;
            };
            for t in data.tuples() {
                let peak = t.peak();
                let v: Vec<f64> = (0..n_axes)
                    .map(|i| peak.get(i).map(|x| x.to_f32() as f64).unwrap_or(0.0))
                    .collect();
                if !locs.contains(&v) {
                    locs.push(v);
                }
            }
        }
    }
    locs.sort_by(|a, b| a.partial_cmp(b).unwrap_or(std::cmp::Ordering::Equal));
    if locs.len() > max {
        // keep the default and an evenly spread selection of the rest
        let dflt = vec![0.0; n_axes];
        let rest: Vec<Vec<f64>> = locs.iter().filter(|l| **l != dflt).cloned().collect();
        let step = rest.len() as f64 / (max - 1) as f64;
        let mut pick = vec![dflt];
        for i in 0..(max - 1) {
            pick.push(rest[(i as f64 * step) as usize].clone());
        }
        locs = pick;
    }
    locs
}

fn picture(data: &[u8], locs: &[Vec<f64>]) -> Result<Value, String> {
    let font = FontRef::new(data).map_err(|e| format!("cannot parse font: {e}"))?;
    let names = fontutil::glyph_names(&font);
    let ng = names.len() as u32;
    let mut glyphs = Vec::new();
    let mut infos: Vec<Option<Vec<LeafInfo>>> = Vec::new();
    let (loca, glyf) = (
        font.loca(None).map_err(|e| e.to_string())?,
        font.glyf().map_err(|e| e.to_string())?,
    );
    for gid in 0..ng {
        let g = loca.get_glyf(GlyphId::new(gid), &glyf);
        glyphs.push(match g {
            Ok(None) => json!({"kind": "empty", "depth": 0, "comps": []}),
            Ok(Some(Glyph::Simple(_))) => json!({"kind": "simple", "depth": 0, "comps": []}),
            Ok(Some(Glyph::Composite(c))) => {
                let comps: Vec<Value> = c
                    .components()
                    .map(|k| {
                        let (dx, dy) = match k.anchor {
                            Anchor::Offset { x, y } => (x as i32, y as i32),
                            Anchor::Point { base, component } => (base as i32, component as i32),
                        };
                        json!([names.get(k.glyph.to_u32() as usize), k.transform.xx.to_f32(), k.transform.yx.to_f32(),
                               k.transform.xy.to_f32(), k.transform.yy.to_f32(), dx, dy])
                    })
                    .collect();
                json!({"kind": "composite", "depth": composite_depth(&font, gid, 0), "comps": comps})
            }
            Err(e) => json!({"kind": "error", "message": e.to_string()}),
        });
        let mut v = Vec::new();
        infos.push(leaf_infos(&font, gid, M2::ID, 0, 1.0, &mut v).map(|_| v));
    }
    let mut at = Vec::new();
    for loc in locs {
        let coords = fontutil::f2dot14s(loc);
        let mut adv = Vec::new();
        let mut draw = Vec::new();
        for gid in 0..ng {
            adv.push(json!(fontutil::h_metrics(&font, gid, &coords).0));
            draw.push(match fontutil::draw(&font, gid, &coords) {
                None => Value::Null,
                Some(cmds) => {
                    let cs = contours_of(&cmds);
                    let info = infos[gid as usize].as_ref().filter(|v| v.len() == cs.len());
                    Value::Array(
                        cs.iter()
                            .enumerate()
                            .map(|(i, p)| match info {
                                Some(v) => json!({"p": p, "s": v[i].sign, "lv": v[i].level, "tol": v[i].tol}),
                                None => json!({"p": p, "s": Value::Null, "lv": Value::Null, "tol": Value::Null}),
                            })
                            .collect(),
                    )
                }
            });
        }
        at.push(json!({"adv": adv, "draw": draw}));
    }
    Ok(json!({"names": names, "glyphs": glyphs, "at": at}))
}

fn handle(req: &Req) -> Value {
    let masks: Vec<u32> = req.masks.clone().unwrap_or_else(|| (0..16).collect());
    let mut locs: Option<Vec<Vec<f64>>> = req.locs.clone();
    let mut runs: Vec<Value> = Vec::new();
    let mut seen: Vec<(u32, String)> = Vec::new();
    for mask in masks {
        let (res, bytes) = compile(&compile_req(req, mask));
        let Some(bytes) = bytes else {
            runs.push(json!({"mask": mask, "outcome": res.outcome, "message": res.message}));
            continue;
        };
        if locs.is_none()
            && let Ok(font) = FontRef::new(&bytes)
        {
            let ng = font.maxp().map(|m| m.num_glyphs()).unwrap_or(0) as u32;
            locs = Some(auto_locs(&font, ng, req.max_locs.unwrap_or(9)));
        }
        let pic = std::panic::catch_unwind(std::panic::AssertUnwindSafe(|| {
            picture(&bytes, locs.as_deref().unwrap_or(&[]))
        }));
        match pic {
            Ok(Ok(pic)) => {
                let text = pic.to_string();
                if let Some((m0, _)) = seen.iter().find(|(_, t)| *t == text) {
                    runs.push(json!({"mask": mask, "outcome": "ok", "same_as": m0}));
                } else {
                    runs.push(json!({"mask": mask, "outcome": "ok", "pic": pic}));
                    seen.push((mask, text));
                }
            }
            Ok(Err(e)) => runs.push(json!({"mask": mask, "outcome": "unreadable", "message": e})),
            Err(p) => runs.push(
                json!({"mask": mask, "outcome": "unreadable", "message": crate::compile::panic_message(p)}),
            ),
        }
    }
    json!({"tag": req.tag, "locs": locs, "runs": runs})
}

pub fn run(_args: &[String]) -> i32 {
    if std::env::var("VH_PANIC_VERBOSE").is_err() {
        std::panic::set_hook(Box::new(|_| {}));
    }
    let stdin = std::io::stdin();
    let stdout = std::io::stdout();
    for line in stdin.lock().lines() {
        let Ok(line) = line else { break };
        if line.trim().is_empty() {
            continue;
        }
        let req: Req = match serde_json::from_str(&line) {
            Ok(r) => r,
            Err(e) => {
                eprintln!("bad request: {e}");
                return 2;
            }
        };
        let res = handle(&req);
        let mut out = stdout.lock();
        let _ = writeln!(out, "{res}");
        let _ = out.flush();
    }
    0
}
