//! `vh components`: see /verif/docs/MODULE_CONTRACT.md

pub fn run(_args: &[String]) -> i32 {
    eprintln!("vh components: not implemented yet");
    2
}
