//! `vh project <font.ttf> '<json spec>'`: project a compiled font into JSON.
//!
//! spec: {"sections": ["tables","names","cmap","fvar","avar","hmtx","glyf","draw","metrics",
//!                      "head","hhea","maxp","os2","post","name"],
//!        "locs": [[normalized coords in fvar axis order], ...]}     (for draw / metrics)
//! Everything is measured from the binary with read-fonts/skrifa; nothing is interpreted.

use serde_json::{Map, Value, json};
use skrifa::{
    MetadataProvider,
    raw::{
        FontRef, TableProvider,
        tables::glyf::{Anchor, Glyph},
        types::GlyphId,
    },
};

use crate::fontutil;

pub fn project(data: &[u8], spec: &Value) -> Result<Value, String> {
    let font = FontRef::new(data).map_err(|e| format!("cannot parse font: {e}"))?;
    let want = |s: &str| {
        spec.get("sections")
            .and_then(|v| v.as_array())
            .map(|a| a.iter().any(|x| x.as_str() == Some(s)))
            .unwrap_or(false)
    };
    let mut out = Map::new();
    let names = fontutil::glyph_names(&font);
    let ng = names.len() as u32;
    out.insert("num_glyphs".into(), json!(ng));
    if want("tables") {
        let tags: Vec<String> = font
            .table_directory
            .table_records()
            .iter()
            .map(|r| r.tag().to_string())
            .collect();
        out.insert("tables".into(), json!(tags));
    }
    if want("names") {
        out.insert("names".into(), json!(names));
    }
    if want("cmap") {
        let cm = font.charmap();
        let mut v: Vec<(u32, u32)> = cm.mappings().map(|(c, g)| (c, g.to_u32())).collect();
        v.sort();
        out.insert("cmap".into(), json!(v));
    }
    if want("fvar") {
        let mut axes = Vec::new();
        let mut insts = Vec::new();
        if let Ok(fvar) = font.fvar() {
            if let Ok(ax) = fvar.axes() {
                for a in ax {
                    axes.push(json!({"tag": a.axis_tag().to_string(), "min": a.min_value().to_f64(),
                        "default": a.default_value().to_f64(), "max": a.max_value().to_f64(),
                        "name_id": a.axis_name_id().to_u16(), "flags": a.flags()}));
                }
            }
            if let Ok(instances) = fvar.instances() {
                for i in instances.iter().flatten() {
                    insts.push(json!({"subfamily_name_id": i.subfamily_name_id.to_u16(),
                        "post_script_name_id": i.post_script_name_id.map(|n| n.to_u16()),
                        "coords": i.coordinates.iter().map(|c| c.get().to_f64()).collect::<Vec<_>>()}));
                }
            }
        }
        out.insert("fvar".into(), json!({"axes": axes, "instances": insts}));
    }
    if want("avar") {
        let mut maps = Vec::new();
        if let Ok(avar) = font.avar() {
            for m in avar.axis_segment_maps().iter().flatten() {
                let seg: Vec<(f64, f64)> = m
                    .axis_value_maps()
                    .iter()
                    .map(|p| (p.from_coordinate().to_f32() as f64, p.to_coordinate().to_f32() as f64))
                    .collect();
                maps.push(seg);
            }
            out.insert("avar".into(), json!(maps));
        } else {
            out.insert("avar".into(), Value::Null);
        }
    }
    if want("hmtx") {
        let mut v = Vec::new();
        if let Ok(hmtx) = font.hmtx() {
            for gid in 0..ng {
                v.push(json!([hmtx.advance(GlyphId::new(gid)), hmtx.side_bearing(GlyphId::new(gid))]));
            }
        }
        out.insert("hmtx".into(), json!(v));
        if let Ok(hhea) = font.hhea() {
            out.insert("number_of_h_metrics".into(), json!(hhea.number_of_h_metrics()));
        }
    }
    if want("glyf") {
        let mut v = Vec::new();
        if let (Ok(loca), Ok(glyf)) = (font.loca(None), font.glyf()) {
            for gid in 0..ng {
                let g = loca.get_glyf(GlyphId::new(gid), &glyf);
                v.push(match g {
                    Ok(None) => json!({"kind": "empty"}),
                    Ok(Some(Glyph::Simple(s))) => {
                        let pts: Vec<Value> = s
                            .points()
                            .map(|p| json!([p.x, p.y, p.on_curve as u8]))
                            .collect();
                        let ends: Vec<u16> = s.end_pts_of_contours().iter().map(|e| e.get()).collect();
                        json!({"kind": "simple", "points": pts, "ends": ends,
                            "bbox": [s.x_min(), s.y_min(), s.x_max(), s.y_max()]})
                    }
                    Ok(Some(Glyph::Composite(c))) => {
                        let comps: Vec<Value> = c
                            .components()
                            .map(|k| {
                                let (dx, dy, by_point) = match k.anchor {
                                    Anchor::Offset { x, y } => (x as i32, y as i32, false),
                                    Anchor::Point { base, component } => (base as i32, component as i32, true),
                                };
                                json!({"gid": k.glyph.to_u16(), "name": names.get(k.glyph.to_u16() as usize),
                                    "flags": k.flags.bits(), "dx": dx, "dy": dy, "by_point": by_point,
                                    "xform": [k.transform.xx.to_f32(), k.transform.yx.to_f32(),
                                              k.transform.xy.to_f32(), k.transform.yy.to_f32()]})
                            })
                            .collect();
                        json!({"kind": "composite", "components": comps,
                            "bbox": [c.x_min(), c.y_min(), c.x_max(), c.y_max()]})
                    }
                    Err(e) => json!({"kind": "error", "message": e.to_string()}),
                });
            }
        }
        out.insert("glyf".into(), json!(v));
    }
    let locs: Vec<Vec<f64>> = spec
        .get("locs")
        .and_then(|v| serde_json::from_value(v.clone()).ok())
        .unwrap_or_default();
    if want("draw") || want("metrics") {
        let mut per_loc = Vec::new();
        for loc in &locs {
            let coords = fontutil::f2dot14s(loc);
            let mut glyphs = Vec::new();
            for gid in 0..ng {
                let mut g = Map::new();
                if want("draw") {
                    g.insert("path".into(), json!(fontutil::draw(&font, gid, &coords)));
                }
                if want("metrics") {
                    let (adv, lsb) = fontutil::h_metrics(&font, gid, &coords);
                    g.insert("advance".into(), json!(adv));
                    g.insert("lsb".into(), json!(lsb));
                }
                glyphs.push(Value::Object(g));
            }
            per_loc.push(json!({"loc": loc, "glyphs": glyphs}));
        }
        out.insert("at".into(), json!(per_loc));
    }
    if want("head")
        && let Ok(h) = font.head()
    {
        out.insert("head".into(), json!({"units_per_em": h.units_per_em(), "x_min": h.x_min(), "y_min": h.y_min(),
            "x_max": h.x_max(), "y_max": h.y_max(), "index_to_loc_format": h.index_to_loc_format(),
            "mac_style": h.mac_style().bits(), "flags": h.flags().bits(), "created": h.created().as_secs(),
            "modified": h.modified().as_secs(), "font_revision": h.font_revision().to_f64()}));
    }
    if want("hhea")
        && let Ok(h) = font.hhea()
    {
        out.insert("hhea".into(), json!({"ascender": h.ascender().to_i16(), "descender": h.descender().to_i16(),
            "line_gap": h.line_gap().to_i16(), "advance_width_max": h.advance_width_max().to_u16(),
            "min_left_side_bearing": h.min_left_side_bearing().to_i16(),
            "min_right_side_bearing": h.min_right_side_bearing().to_i16(),
            "x_max_extent": h.x_max_extent().to_i16(), "caret_slope_rise": h.caret_slope_rise(),
            "caret_slope_run": h.caret_slope_run(), "caret_offset": h.caret_offset(),
            "number_of_h_metrics": h.number_of_h_metrics()}));
    }
    if want("maxp")
        && let Ok(m) = font.maxp()
    {
        out.insert("maxp".into(), json!({"num_glyphs": m.num_glyphs(), "max_points": m.max_points(),
            "max_contours": m.max_contours(), "max_composite_points": m.max_composite_points(),
            "max_composite_contours": m.max_composite_contours(),
            "max_component_elements": m.max_component_elements(), "max_component_depth": m.max_component_depth()}));
    }
    if want("name")
        && let Ok(n) = font.name()
    {
        let mut recs = Vec::new();
        for r in n.name_record() {
            let s = r
                .string(n.string_data())
                .map(|s| s.chars().collect::<String>())
                .unwrap_or_default();
            recs.push(json!({"id": r.name_id().to_u16(), "platform": r.platform_id(), "encoding": r.encoding_id(),
                "language": r.language_id(), "string": s}));
        }
        out.insert("name".into(), json!(recs));
    }
    Ok(Value::Object(out))
}

pub fn run(args: &[String]) -> i32 {
    let (Some(path), Some(spec)) = (args.first(), args.get(1)) else {
        eprintln!("usage: vh project <font> '<json spec>'");
        return 2;
    };
    let spec: Value = match serde_json::from_str(spec) {
        Ok(v) => v,
        Err(e) => {
            eprintln!("bad spec: {e}");
            return 2;
        }
    };
    let data = match std::fs::read(path) {
        Ok(d) => d,
        Err(e) => {
            eprintln!("cannot read {path}: {e}");
            return 2;
        }
    };
    match project(&data, &spec) {
        Ok(v) => {
            println!("{v}");
            0
        }
        Err(e) => {
            println!("{}", json!({"error": e}));
            0
        }
    }
}
