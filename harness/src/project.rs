//! `vh project`: see /verif/docs/MODULE_CONTRACT.md

pub fn run(_args: &[String]) -> i32 {
    eprintln!("vh project: not implemented yet");
    2
}
