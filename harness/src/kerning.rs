//! `vh kerning`: an independent GPOS pair-positioning evaluator (C09).
//!
//! Reads ndjson requests on stdin (or from the file given as first argument), writes one JSON line each.
//!
//! request: {"tag": "...", "font": "<path>", "feature": "kern" (default),
//!           "scripts": ["DFLT","latn"]      (default: every script of the GPOS script list),
//!           "glyphs": ["a","b",...]          (glyph names; default: every glyph of the font),
//!           "locs": [{"name": "m0", "norm": [0.0]} | {"name": "m1", "user": [700.0]}, ...],
//!           "structure": true                (also dump lookups / subtables of the feature)}
//! result:  {"tag", "outcome": "ok"|"error"|"panic", "message",
//!           "glyphs": [...], "missing": [names not in the font], "has_gpos": bool,
//!           "scripts": {"latn": {"lookups": [idx...]}, ...}      (default language system only)
//!           "adj":   {"latn": [ per loc: [ per first glyph: [ per second glyph: xAdvance adjustment ]]]},
//!           "place": {"latn": ...same shape, xPlacement of the first glyph (RTL kerning)},
//!           "other": true if any yAdvance/yPlacement/second-glyph value was met (never produced by kerning),
//!           "unsupported": ["..."]   lookups of the feature that are not pair positioning,
//!           "structure": {"<lookup index>": {"flag": n, "subtables": [...]}}}
//!
//! Nothing of fontc / fontbe / write-fonts' builders is used: the tables are walked with read-fonts'
//! raw accessors the way an OpenType shaper does for a two-glyph run [first, second]:
//!   * the lookups of the feature (default LangSys of the script) are applied in lookup-list order,
//!   * each lookup applies at most once at the position of the first glyph: its subtables are tried in
//!     order and the first one that *matches* ends the lookup,
//!   * PairPos format 1 matches iff the first glyph is covered AND its PairSet lists the second glyph,
//!   * PairPos format 2 matches iff the first glyph is covered (class 0 of ClassDef2 is a real class:
//!     an all-zero record still ends the lookup),
//!   * the adjustment of a matching record is xAdvance (+ the delta of its VariationIndex device, looked up
//!     in the GDEF item variation store at the requested normalized location, rounded like a shaper does),
//!   * lookup flags: a glyph the flag tells the shaper to skip can be neither the first nor the second
//!     glyph of the pair, so the lookup is not applied to such a pair.

use std::collections::{BTreeMap, BTreeSet};
use std::io::{BufRead, Read};

use serde_json::{Map, Value, json};
use skrifa::raw::{
    FontData, FontRef, ReadError, TableProvider,
    tables::{
        gdef::Gdef,
        gpos::{ExtensionSubtable, PairPos, PairPosFormat1, PairPosFormat2, PositionLookup, ValueRecord},
        layout::{DeviceOrVariationIndex, LookupFlag},
        variations::{DeltaSetIndex, ItemVariationStore},
    },
    types::{F2Dot14, GlyphId16, Tag},
};

use crate::fontutil;

type R<T> = Result<T, String>;

fn re(e: ReadError) -> String {
    format!("read error: {e}")
}

/// What one matching record contributes.
#[derive(Default, Clone, Copy)]
struct Adj {
    x_adv: i32,
    x_place: i32,
    other: bool,
}

struct Ctx<'a> {
    ivs: Option<ItemVariationStore<'a>>,
    gdef: Option<Gdef<'a>>,
}

impl<'a> Ctx<'a> {
    fn delta(&self, dev: Option<Result<DeviceOrVariationIndex<'a>, ReadError>>, coords: &[F2Dot14]) -> R<i32> {
        match dev {
            None => Ok(0),
            Some(Err(e)) => Err(re(e)),
            Some(Ok(DeviceOrVariationIndex::VariationIndex(vi))) => {
                let Some(ivs) = &self.ivs else {
                    return Err("VariationIndex without a GDEF item variation store".into());
                };
                ivs.compute_delta(
                    DeltaSetIndex {
                        outer: vi.delta_set_outer_index(),
                        inner: vi.delta_set_inner_index(),
                    },
                    coords,
                )
                .map_err(re)
            }
            // hinting device tables do not apply to unscaled design units
            Some(Ok(DeviceOrVariationIndex::Device(_))) => Ok(0),
        }
    }

    fn value(&self, rec: &ValueRecord, data: FontData<'a>, coords: &[F2Dot14]) -> R<Adj> {
        let mut a = Adj {
            x_adv: rec.x_advance().unwrap_or(0) as i32,
            x_place: rec.x_placement().unwrap_or(0) as i32,
            other: rec.y_advance().unwrap_or(0) != 0 || rec.y_placement().unwrap_or(0) != 0,
        };
        a.x_adv += self.delta(rec.x_advance_device(data), coords)?;
        a.x_place += self.delta(rec.x_placement_device(data), coords)?;
        if self.delta(rec.y_advance_device(data), coords)? != 0
            || self.delta(rec.y_placement_device(data), coords)? != 0
        {
            a.other = true;
        }
        Ok(a)
    }

    fn glyph_class(&self, gid: u16) -> u16 {
        self.gdef
            .as_ref()
            .and_then(|g| g.glyph_class_def())
            .and_then(|r| r.ok())
            .map(|cd| cd.get(GlyphId16::new(gid)))
            .unwrap_or(0)
    }

    /// Would a shaper skip this glyph under this lookup flag?
    fn skipped(&self, gid: u16, flag: LookupFlag, mark_set: Option<u16>) -> bool {
        let class = self.glyph_class(gid);
        if class == 1 && flag.contains(LookupFlag::IGNORE_BASE_GLYPHS) {
            return true;
        }
        if class == 2 && flag.contains(LookupFlag::IGNORE_LIGATURES) {
            return true;
        }
        if class == 3 {
            if flag.contains(LookupFlag::IGNORE_MARKS) {
                return true;
            }
            if flag.contains(LookupFlag::USE_MARK_FILTERING_SET) {
                let in_set = mark_set
                    .and_then(|k| {
                        let sets = self.gdef.as_ref()?.mark_glyph_sets_def()?.ok()?;
                        let cov = sets.coverages().get(k as usize).ok()?;
                        Some(cov.get(GlyphId16::new(gid)).is_some())
                    })
                    .unwrap_or(false);
                if !in_set {
                    return true;
                }
            }
            if let Some(mac) = flag.mark_attachment_class() {
                let got = self
                    .gdef
                    .as_ref()
                    .and_then(|g| g.mark_attach_class_def())
                    .and_then(|r| r.ok())
                    .map(|cd| cd.get(GlyphId16::new(gid)))
                    .unwrap_or(0);
                if got != mac {
                    return true;
                }
            }
        }
        false
    }
}

/// Some((value of the first glyph, value of the second glyph is non-empty)) if the subtable matches.
fn apply_format1<'a>(cx: &Ctx<'a>, t: &PairPosFormat1<'a>, l: u16, r: u16, coords: &[F2Dot14]) -> R<Option<Adj>> {
    let cov = t.coverage().map_err(re)?;
    let Some(ci) = cov.get(GlyphId16::new(l)) else {
        return Ok(None);
    };
    let set = t.pair_sets().get(ci as usize).map_err(re)?;
    for rec in set.pair_value_records().iter() {
        let rec = rec.map_err(re)?;
        if rec.second_glyph().to_u16() == r {
            let mut a = cx.value(rec.value_record1(), set.offset_data(), coords)?;
            let b = cx.value(rec.value_record2(), set.offset_data(), coords)?;
            if b.x_adv != 0 || b.x_place != 0 || b.other {
                a.other = true;
            }
            return Ok(Some(a));
        }
    }
    Ok(None)
}

fn apply_format2<'a>(cx: &Ctx<'a>, t: &PairPosFormat2<'a>, l: u16, r: u16, coords: &[F2Dot14]) -> R<Option<Adj>> {
    let cov = t.coverage().map_err(re)?;
    if cov.get(GlyphId16::new(l)).is_none() {
        return Ok(None);
    }
    let c1 = t.class_def1().map_err(re)?.get(GlyphId16::new(l));
    let c2 = t.class_def2().map_err(re)?.get(GlyphId16::new(r));
    if c1 >= t.class1_count() || c2 >= t.class2_count() {
        return Ok(None);
    }
    let rec1 = t.class1_records().get(c1 as usize).map_err(re)?;
    let rec2 = rec1.class2_records().get(c2 as usize).map_err(re)?;
    let mut a = cx.value(rec2.value_record1(), t.offset_data(), coords)?;
    let b = cx.value(rec2.value_record2(), t.offset_data(), coords)?;
    if b.x_adv != 0 || b.x_place != 0 || b.other {
        a.other = true;
    }
    Ok(Some(a))
}

fn pair_subtables<'a>(lookup: &PositionLookup<'a>) -> R<Option<(LookupFlag, Option<u16>, Vec<PairPos<'a>>)>> {
    match lookup {
        PositionLookup::Pair(l) => {
            let subs: Result<Vec<_>, _> = l.subtables().iter().collect();
            Ok(Some((l.lookup_flag(), l.mark_filtering_set(), subs.map_err(re)?)))
        }
        PositionLookup::Extension(l) => {
            let mut subs = Vec::new();
            for s in l.subtables().iter() {
                match s.map_err(re)? {
                    ExtensionSubtable::Pair(e) => subs.push(e.extension().map_err(re)?),
                    _ => return Ok(None),
                }
            }
            Ok(Some((l.lookup_flag(), l.mark_filtering_set(), subs)))
        }
        _ => Ok(None),
    }
}

fn describe_subtable(t: &PairPos, names: &[String]) -> R<Value> {
    let name = |g: u16| names.get(g as usize).cloned().unwrap_or_else(|| format!("gid{g}"));
    match t {
        PairPos::Format1(t) => {
            let cov = t.coverage().map_err(re)?;
            let mut pairs = Vec::new();
            let mut variable = false;
            for (ci, g) in cov.iter().enumerate() {
                let set = t.pair_sets().get(ci).map_err(re)?;
                for rec in set.pair_value_records().iter() {
                    let rec = rec.map_err(re)?;
                    let v = rec.value_record1();
                    let has_dev = v.x_advance_device(set.offset_data()).is_some();
                    variable |= has_dev;
                    pairs.push(json!([name(g.to_u16()), name(rec.second_glyph().to_u16()),
                        v.x_advance().unwrap_or(0), has_dev]));
                }
            }
            Ok(json!({"format": 1, "vf1": t.value_format1().bits(), "vf2": t.value_format2().bits(),
                "variable": variable, "pairs": pairs}))
        }
        PairPos::Format2(t) => {
            let cov = t.coverage().map_err(re)?;
            let cd1 = t.class_def1().map_err(re)?;
            let cd2 = t.class_def2().map_err(re)?;
            let mut classes1: BTreeMap<u16, Vec<String>> = BTreeMap::new();
            for g in cov.iter() {
                classes1.entry(cd1.get(g)).or_default().push(name(g.to_u16()));
            }
            let mut classes2: BTreeMap<u16, Vec<String>> = BTreeMap::new();
            for (g, n) in names.iter().enumerate() {
                let c = cd2.get(GlyphId16::new(g as u16));
                if c != 0 {
                    classes2.entry(c).or_default().push(n.clone());
                }
            }
            let mut records = Vec::new();
            for (c1, r1) in t.class1_records().iter().enumerate() {
                let r1 = r1.map_err(re)?;
                for (c2, r2) in r1.class2_records().iter().enumerate() {
                    let r2 = r2.map_err(re)?;
                    let v = r2.value_record1();
                    let has_dev = v.x_advance_device(t.offset_data()).is_some();
                    if v.x_advance().unwrap_or(0) != 0 || has_dev {
                        records.push(json!([c1, c2, v.x_advance().unwrap_or(0), has_dev]));
                    }
                }
            }
            Ok(json!({"format": 2, "vf1": t.value_format1().bits(), "vf2": t.value_format2().bits(),
                "class1": classes1.into_iter().map(|(k, v)| (k.to_string(), v)).collect::<BTreeMap<_, _>>(),
                "class2": classes2.into_iter().map(|(k, v)| (k.to_string(), v)).collect::<BTreeMap<_, _>>(),
                "nclass1": t.class1_count(), "nclass2": t.class2_count(), "records": records}))
        }
    }
}

fn evaluate(req: &Value) -> R<Value> {
    let path = req.get("font").and_then(|v| v.as_str()).ok_or("no font")?;
    let bytes = std::fs::read(path).map_err(|e| format!("{path}: {e}"))?;
    let font = FontRef::new(&bytes).map_err(|e| format!("cannot parse font: {e}"))?;
    let names = fontutil::glyph_names(&font);
    let feature_tag = Tag::new_checked(req.get("feature").and_then(|v| v.as_str()).unwrap_or("kern").as_bytes())
        .map_err(|e| format!("bad feature tag: {e}"))?;

    // glyphs of interest
    let mut missing = Vec::new();
    let glyphs: Vec<(String, u16)> = match req.get("glyphs").and_then(|v| v.as_array()) {
        Some(list) => list
            .iter()
            .filter_map(|v| v.as_str())
            .filter_map(|n| match names.iter().position(|x| x == n) {
                Some(i) => Some((n.to_string(), i as u16)),
                None => {
                    missing.push(n.to_string());
                    None
                }
            })
            .collect(),
        None => names.iter().enumerate().map(|(i, n)| (n.clone(), i as u16)).collect(),
    };

    // locations
    let n_axes = font.fvar().map(|f| f.axis_count() as usize).unwrap_or(0);
    let mut locs: Vec<Vec<F2Dot14>> = Vec::new();
    for l in req.get("locs").and_then(|v| v.as_array()).cloned().unwrap_or_default() {
        let nums = |k: &str| -> Option<Vec<f64>> {
            l.get(k)?.as_array().map(|a| a.iter().filter_map(|x| x.as_f64()).collect())
        };
        let coords = if let Some(n) = nums("norm") {
            fontutil::f2dot14s(&n)
        } else if let Some(u) = nums("user") {
            fontutil::normalize_user(&font, &u)
        } else {
            vec![]
        };
        let mut coords = coords;
        coords.resize(n_axes, F2Dot14::ZERO);
        locs.push(coords);
    }
    if locs.is_empty() {
        locs.push(vec![F2Dot14::ZERO; n_axes]);
    }

    let mut out = Map::new();
    out.insert("glyphs".into(), json!(glyphs.iter().map(|g| g.0.clone()).collect::<Vec<_>>()));
    out.insert("missing".into(), json!(missing));
    out.insert("locs_f2dot14".into(),
        json!(locs.iter().map(|c| c.iter().map(|x| x.to_bits()).collect::<Vec<_>>()).collect::<Vec<_>>()));

    let Ok(gpos) = font.gpos() else {
        out.insert("has_gpos".into(), json!(false));
        out.insert("scripts".into(), json!({}));
        out.insert("adj".into(), json!({}));
        return Ok(Value::Object(out));
    };
    out.insert("has_gpos".into(), json!(true));
    let gdef = font.gdef().ok();
    let ivs = gdef.as_ref().and_then(|g| g.item_var_store()).and_then(|r| r.ok());
    let cx = Ctx { ivs, gdef };

    let script_list = gpos.script_list().map_err(re)?;
    let feature_list = gpos.feature_list().map_err(re)?;
    let lookup_list = gpos.lookup_list().map_err(re)?;
    let wanted: Option<BTreeSet<String>> = req.get("scripts").and_then(|v| v.as_array()).map(|a| {
        a.iter().filter_map(|x| x.as_str()).map(|s| s.to_string()).collect()
    });

    // script -> sorted lookup indices of the feature in the default language system
    let mut script_lookups: BTreeMap<String, Vec<u16>> = BTreeMap::new();
    for srec in script_list.script_records() {
        let tag = srec.script_tag().to_string();
        if let Some(w) = &wanted
            && !w.contains(&tag)
        {
            continue;
        }
        let script = srec.script(script_list.offset_data()).map_err(re)?;
        let Some(langsys) = script.default_lang_sys() else {
            continue;
        };
        let langsys = langsys.map_err(re)?;
        let mut idxs = BTreeSet::new();
        let mut fidx: Vec<u16> = langsys.feature_indices().iter().map(|x| x.get()).collect();
        if langsys.required_feature_index() != 0xFFFF {
            fidx.push(langsys.required_feature_index());
        }
        for fi in fidx {
            let Some(frec) = feature_list.feature_records().get(fi as usize) else {
                return Err(format!("feature index {fi} out of range"));
            };
            if frec.feature_tag() != feature_tag {
                continue;
            }
            let feature = frec.feature(feature_list.offset_data()).map_err(re)?;
            for li in feature.lookup_list_indices() {
                idxs.insert(li.get());
            }
        }
        script_lookups.insert(tag, idxs.into_iter().collect());
    }

    // resolve the lookups used
    let mut lookups: BTreeMap<u16, Option<(LookupFlag, Option<u16>, Vec<PairPos>)>> = BTreeMap::new();
    let mut unsupported = Vec::new();
    for idxs in script_lookups.values() {
        for li in idxs {
            if lookups.contains_key(li) {
                continue;
            }
            let l = lookup_list.lookups().get(*li as usize).map_err(re)?;
            let p = pair_subtables(&l)?;
            if p.is_none() {
                unsupported.push(format!("lookup {li} is not pair positioning"));
            }
            lookups.insert(*li, p);
        }
    }

    let mut adj = Map::new();
    let mut place = Map::new();
    let mut other = false;
    for (script, idxs) in &script_lookups {
        let mut per_loc_a = Vec::new();
        let mut per_loc_p = Vec::new();
        for coords in &locs {
            let mut ma = Vec::new();
            let mut mp = Vec::new();
            for (_, l) in &glyphs {
                let mut ra = Vec::new();
                let mut rp = Vec::new();
                for (_, r) in &glyphs {
                    let mut tot = Adj::default();
                    for li in idxs {
                        let Some(Some((flag, mset, subs))) = lookups.get(li) else {
                            continue;
                        };
                        if cx.skipped(*l, *flag, *mset) || cx.skipped(*r, *flag, *mset) {
                            continue;
                        }
                        for t in subs {
                            let hit = match t {
                                PairPos::Format1(t) => apply_format1(&cx, t, *l, *r, coords)?,
                                PairPos::Format2(t) => apply_format2(&cx, t, *l, *r, coords)?,
                            };
                            if let Some(a) = hit {
                                tot.x_adv += a.x_adv;
                                tot.x_place += a.x_place;
                                tot.other |= a.other;
                                break;
                            }
                        }
                    }
                    other |= tot.other;
                    ra.push(tot.x_adv);
                    rp.push(tot.x_place);
                }
                ma.push(ra);
                mp.push(rp);
            }
            per_loc_a.push(ma);
            per_loc_p.push(mp);
        }
        adj.insert(script.clone(), json!(per_loc_a));
        place.insert(script.clone(), json!(per_loc_p));
    }
    out.insert("scripts".into(),
        Value::Object(script_lookups.iter().map(|(k, v)| (k.clone(), json!({"lookups": v}))).collect()));
    out.insert("adj".into(), Value::Object(adj));
    out.insert("place".into(), Value::Object(place));
    out.insert("other".into(), json!(other));
    out.insert("unsupported".into(), json!(unsupported));

    if req.get("structure").and_then(|v| v.as_bool()).unwrap_or(false) {
        let mut st = Map::new();
        for (li, l) in &lookups {
            if let Some((flag, mset, subs)) = l {
                let subs: R<Vec<Value>> = subs.iter().map(|t| describe_subtable(t, &names)).collect();
                st.insert(li.to_string(), json!({"flag": flag.to_bits(), "mark_set": mset, "subtables": subs?}));
            }
        }
        out.insert("structure".into(), Value::Object(st));
    }
    Ok(Value::Object(out))
}

pub fn run(args: &[String]) -> i32 {
    if std::env::var("VH_PANIC_VERBOSE").is_err() {
        std::panic::set_hook(Box::new(|_| {}));
    }
    let mut input = String::new();
    let read = match args.first() {
        Some(p) if p != "-" => std::fs::read_to_string(p).map(|s| input = s).map_err(|e| e.to_string()),
        _ => std::io::stdin().read_to_string(&mut input).map(|_| ()).map_err(|e| e.to_string()),
    };
    if let Err(e) = read {
        eprintln!("vh kerning: {e}");
        return 2;
    }
    for line in input.as_bytes().lines() {
        let Ok(line) = line else { continue };
        if line.trim().is_empty() {
            continue;
        }
        let req: Value = match serde_json::from_str(&line) {
            Ok(v) => v,
            Err(e) => {
                println!("{}", json!({"outcome": "error", "message": format!("bad request: {e}")}));
                continue;
            }
        };
        let tag = req.get("tag").cloned().unwrap_or(json!(""));
        let res = std::panic::catch_unwind(std::panic::AssertUnwindSafe(|| evaluate(&req)));
        let mut out = match res {
            Ok(Ok(Value::Object(m))) => {
                let mut m = m;
                m.insert("outcome".into(), json!("ok"));
                m
            }
            Ok(Ok(_)) => unreachable!(),
            Ok(Err(e)) => {
                let mut m = Map::new();
                m.insert("outcome".into(), json!("error"));
                m.insert("message".into(), json!(e));
                m
            }
            Err(p) => {
                let mut m = Map::new();
                m.insert("outcome".into(), json!("panic"));
                m.insert("message".into(), json!(crate::compile::panic_message(p)));
                m
            }
        };
        out.insert("tag".into(), tag);
        println!("{}", Value::Object(out));
    }
    0
}
