//! `vh names`: compile sources through the library entry point and project everything the C18 property
//! talks about from the *binary* font (read-fonts only; nothing is interpreted here):
//!   name records, fvar axis/instance name ids, STAT name ids, GSUB/GPOS feature-parameter name ids.
//!
//! stdin: one JSON request per line  {"tag": .., "src": "<designspace|ufo>", "threads": n, "rounds": k}
//!        (`rounds` > 1 compiles the same source k times in this process; every round is projected)
//! stdout: one JSON line per request
//!   {"tag", "outcome": "ok"|"error"|"panic", "message", "pid", "fontc_version",
//!    "proj": {...} (first round), "same_in_process": bool, "others": [proj of rounds that differ]}
//! `vh names --font <file.ttf>` projects an existing font; `vh names --version` prints fontc's version string.
//!
//! The oracle (fallback rules, id allocation, reference integrity) lives in spec/Names.tla + checks/c18.py.

use std::io::{BufRead, Write};

use serde::Deserialize;
use serde_json::{Value, json};
use write_fonts::read::{
    FontRef, TableProvider,
    tables::{
        layout::{FeatureList, FeatureParams},
        stat::AxisValue,
    },
};

use crate::compile::{CompileReq, compile};

#[derive(Debug, Default, Clone, Deserialize)]
#[serde(default)]
struct Req {
    tag: String,
    src: String,
    threads: usize,
    rounds: usize,
    /// keep the font of the first round here (optional)
    out: String,
}

fn feature_params(list: &FeatureList, table: &str, out: &mut Vec<Value>) {
    for rec in list.feature_records() {
        let tag = rec.feature_tag().to_string();
        let Ok(feature) = rec.feature(list.offset_data()) else {
            out.push(json!({"table": table, "tag": tag, "kind": "unreadable"}));
            continue;
        };
        match feature.feature_params() {
            None => {}
            Some(Err(e)) => {
                out.push(json!({"table": table, "tag": tag, "kind": "unreadable", "message": e.to_string()}))
            }
            Some(Ok(FeatureParams::StylisticSet(p))) => out.push(json!({"table": table, "tag": tag, "kind": "ss",
                "ui_name_id": p.ui_name_id().to_u16()})),
            Some(Ok(FeatureParams::CharacterVariant(p))) => out.push(json!({"table": table, "tag": tag, "kind": "cv",
                "feat_ui_label_name_id": p.feat_ui_label_name_id().to_u16(),
                "feat_ui_tooltip_text_name_id": p.feat_ui_tooltip_text_name_id().to_u16(),
                "sample_text_name_id": p.sample_text_name_id().to_u16(),
                "num_named_parameters": p.num_named_parameters(),
                "first_param_ui_label_name_id": p.first_param_ui_label_name_id().to_u16()})),
            Some(Ok(FeatureParams::Size(p))) => out.push(json!({"table": table, "tag": tag, "kind": "size",
                "design_size": p.design_size(), "identifier": p.identifier(), "name_entry": p.name_entry(),
                "range_start": p.range_start(), "range_end": p.range_end()})),
        }
    }
}

/// Everything C18 looks at, measured from the binary.
pub fn project(data: &[u8]) -> Result<Value, String> {
    let font = FontRef::new(data).map_err(|e| format!("cannot parse font: {e}"))?;
    let tables: Vec<String> = font
        .table_directory
        .table_records()
        .iter()
        .map(|r| r.tag().to_string())
        .collect();

    // name: records in table order
    let mut name = Vec::new();
    let mut name_sorted = true;
    if let Ok(n) = font.name() {
        let mut prev: Option<(u16, u16, u16, u16)> = None;
        for r in n.name_record() {
            let (s, ok) = match r.string(n.string_data()) {
                Ok(s) => (s.chars().collect::<String>(), true),
                Err(_) => (String::new(), false),
            };
            let key = (r.platform_id(), r.encoding_id(), r.language_id(), r.name_id().to_u16());
            if let Some(p) = prev
                && p >= key
            {
                name_sorted = false;
            }
            prev = Some(key);
            name.push(json!({"id": key.3, "platform": key.0, "encoding": key.1, "language": key.2,
                "string": s, "readable": ok, "length": r.length()}));
        }
    }

    // fvar
    let mut fvar = Value::Null;
    if let Ok(t) = font.fvar() {
        let mut axes = Vec::new();
        let mut insts = Vec::new();
        if let Ok(ax) = t.axes() {
            for a in ax {
                axes.push(json!({"tag": a.axis_tag().to_string(), "name_id": a.axis_name_id().to_u16(),
                    "min": a.min_value().to_f64(), "default": a.default_value().to_f64(),
                    "max": a.max_value().to_f64(), "flags": a.flags()}));
            }
        }
        if let Ok(instances) = t.instances() {
            for i in instances.iter().flatten() {
                insts.push(json!({"subfamily_name_id": i.subfamily_name_id.to_u16(),
                    "post_script_name_id": i.post_script_name_id.map(|n| n.to_u16()),
                    "coords": i.coordinates.iter().map(|c| c.get().to_f64()).collect::<Vec<_>>()}));
            }
        }
        fvar = json!({"axes": axes, "instances": insts, "instance_count": t.instance_count()});
    }

    // STAT
    let mut stat = Value::Null;
    if let Ok(t) = font.stat() {
        let mut axes = Vec::new();
        if let Ok(recs) = t.design_axes() {
            for a in recs {
                axes.push(json!({"tag": a.axis_tag().to_string(), "name_id": a.axis_name_id().to_u16(),
                    "ordering": a.axis_ordering()}));
            }
        }
        let mut values = Vec::new();
        if let Some(Ok(arr)) = t.offset_to_axis_values() {
            for v in arr.axis_values().iter() {
                match v {
                    Ok(v) => {
                        let detail = match &v {
                            AxisValue::Format1(f) => json!({"axis": f.axis_index(), "value": f.value().to_f64()}),
                            AxisValue::Format2(f) => json!({"axis": f.axis_index(), "value": f.nominal_value().to_f64(),
                                "min": f.range_min_value().to_f64(), "max": f.range_max_value().to_f64()}),
                            AxisValue::Format3(f) => json!({"axis": f.axis_index(), "value": f.value().to_f64(),
                                "linked": f.linked_value().to_f64()}),
                            AxisValue::Format4(f) => json!({"axes": f.axis_values().iter()
                                .map(|r| json!([r.axis_index(), r.value().to_f64()])).collect::<Vec<_>>()}),
                        };
                        values.push(json!({"format": v.format(), "name_id": v.value_name_id().to_u16(),
                            "flags": v.flags().bits(), "detail": detail}));
                    }
                    Err(e) => values.push(json!({"format": 0, "unreadable": e.to_string()})),
                }
            }
        }
        stat = json!({"axes": axes, "values": values,
            "elided_fallback_name_id": t.elided_fallback_name_id().map(|n| n.to_u16())});
    }

    // layout feature parameters
    let mut params = Vec::new();
    if let Ok(gsub) = font.gsub()
        && let Ok(list) = gsub.feature_list()
    {
        feature_params(&list, "GSUB", &mut params);
    }
    if let Ok(gpos) = font.gpos()
        && let Ok(list) = gpos.feature_list()
    {
        feature_params(&list, "GPOS", &mut params);
    }

    Ok(json!({"tables": tables, "name": name, "name_sorted": name_sorted, "fvar": fvar, "stat": stat,
        "feature_params": params}))
}

fn one(req: &Req) -> Value {
    let rounds = req.rounds.max(1);
    let mut first: Option<Value> = None;
    let mut others: Vec<Value> = Vec::new();
    let mut wall = 0u128;
    for round in 0..rounds {
        let creq = CompileReq {
            tag: req.tag.clone(),
            src: req.src.clone(),
            out: if round == 0 { req.out.clone() } else { String::new() },
            threads: req.threads,
            ..Default::default()
        };
        let (res, font) = compile(&creq);
        wall += res.wall_ms;
        let Some(bytes) = font else {
            return json!({"tag": req.tag, "outcome": res.outcome, "message": res.message, "round": round,
                "pid": std::process::id(), "wall_ms": wall});
        };
        let proj = match std::panic::catch_unwind(|| project(&bytes)) {
            Ok(Ok(p)) => p,
            Ok(Err(e)) => {
                return json!({"tag": req.tag, "outcome": "unreadable", "message": e, "round": round,
                    "pid": std::process::id(), "wall_ms": wall});
            }
            Err(p) => {
                return json!({"tag": req.tag, "outcome": "unreadable",
                    "message": format!("projection panicked: {}", crate::compile::panic_message(p)),
                    "round": round, "pid": std::process::id(), "wall_ms": wall});
            }
        };
        match &first {
            None => first = Some(proj),
            Some(f) => {
                if *f != proj {
                    others.push(proj);
                }
            }
        }
    }
    json!({"tag": req.tag, "outcome": "ok", "message": "", "pid": std::process::id(),
        "fontc_version": fontc::version(), "rounds": rounds, "proj": first,
        "same_in_process": others.is_empty(), "others": others, "wall_ms": wall})
}

pub fn run(args: &[String]) -> i32 {
    if std::env::var("VH_PANIC_VERBOSE").is_err() {
        std::panic::set_hook(Box::new(|_| {}));
    }
    if args.first().map(|s| s.as_str()) == Some("--version") {
        // the string fontc stamps into name id 5
        println!("{}", fontc::version());
        return 0;
    }
    if args.first().map(|s| s.as_str()) == Some("--font") {
        let Some(path) = args.get(1) else {
            eprintln!("usage: vh names --font <file>");
            return 2;
        };
        return match std::fs::read(path).map_err(|e| e.to_string()).and_then(|d| project(&d)) {
            Ok(v) => {
                println!("{v}");
                0
            }
            Err(e) => {
                eprintln!("{e}");
                2
            }
        };
    }
    let reader: Box<dyn BufRead> = match args.first() {
        Some(path) => match std::fs::File::open(path) {
            Ok(f) => Box::new(std::io::BufReader::new(f)),
            Err(e) => {
                eprintln!("cannot open {path}: {e}");
                return 2;
            }
        },
        None => Box::new(std::io::BufReader::new(std::io::stdin())),
    };
    let stdout = std::io::stdout();
    for line in reader.lines() {
        let Ok(line) = line else { break };
        if line.trim().is_empty() {
            continue;
        }
        let req: Req = match serde_json::from_str(&line) {
            Ok(r) => r,
            Err(e) => {
                eprintln!("bad request: {e}");
                return 2;
            }
        };
        let res = one(&req);
        let mut out = stdout.lock();
        let _ = writeln!(out, "{res}");
        let _ = out.flush();
    }
    0
}
