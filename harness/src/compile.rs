//! Compile sources through the library entry point, optionally with hooks recording.

use std::{
    io::{BufRead, Write},
    path::PathBuf,
};

use fontc::{Flags, Input, Options};
use serde::{Deserialize, Serialize};

#[derive(Debug, Default, Clone, Deserialize, Serialize)]
#[serde(default)]
pub struct CompileReq {
    /// opaque tag echoed back
    pub tag: String,
    pub src: String,
    /// where to write the font; empty = don't
    pub out: String,
    /// 0 = leave rayon default
    pub threads: usize,
    /// ndjson event file; empty = no tracing
    pub trace: String,
    pub jitter: u64,
    pub jitter_max_us: u64,
    /// if non-empty, build with IR emission into this dir
    pub ir_dir: String,
    pub readback: bool,
    /// e.g. "Be(Glyf)=panic"
    pub fault: String,
    /// flag names to enable beyond source defaults: flatten, decompose, decompose_transformed,
    /// keep_direction, erase_open_corners, propagate_anchors
    pub flags: Vec<String>,
    /// flag names to force off: prefer_simple, production_names + the above
    pub no_flags: Vec<String>,
    pub skip_features: bool,
    /// treat src as Glyphs text to pass in memory
    pub glyphs_memory: bool,
}

#[derive(Debug, Default, Clone, Serialize)]
pub struct CompileRes {
    pub tag: String,
    /// "ok" | "error" | "panic"
    pub outcome: String,
    pub message: String,
    pub len: usize,
    /// fnv1a-64 of the font bytes, hex
    pub hash: String,
    pub wall_ms: u128,
}

fn flag_named(name: &str) -> Option<Flags> {
    Some(match name {
        "prefer_simple" => Flags::PREFER_SIMPLE_GLYPHS,
        "flatten" => Flags::FLATTEN_COMPONENTS,
        "decompose" => Flags::DECOMPOSE_COMPONENTS,
        "decompose_transformed" => Flags::DECOMPOSE_TRANSFORMED_COMPONENTS,
        "keep_direction" => Flags::KEEP_DIRECTION,
        "production_names" => Flags::PRODUCTION_NAMES,
        "erase_open_corners" => Flags::ERASE_OPEN_CORNERS,
        "propagate_anchors" => Flags::PROPAGATE_ANCHORS,
        _ => return None,
    })
}

pub fn fnv1a(bytes: &[u8]) -> String {
    let mut h: u64 = 0xcbf29ce484222325;
    for b in bytes {
        h ^= *b as u64;
        h = h.wrapping_mul(0x100000001b3);
    }
    format!("{h:016x}")
}

pub fn panic_message(err: Box<dyn std::any::Any + Send>) -> String {
    match err.downcast_ref::<&'static str>() {
        Some(s) => s.to_string(),
        None => match err.downcast_ref::<String>() {
            Some(s) => s.clone(),
            None => "Box<dyn Any>".to_string(),
        },
    }
}

pub fn options_for(req: &CompileReq) -> Options {
    let mut flags = Flags::default();
    for f in &req.flags {
        match flag_named(f) {
            Some(fl) => flags |= fl,
            None => eprintln!("unknown flag {f}"),
        }
    }
    let mut disable = Flags::empty();
    for f in &req.no_flags {
        match flag_named(f) {
            Some(fl) => {
                flags.remove(fl);
                disable |= fl;
            }
            None => eprintln!("unknown flag {f}"),
        }
    }
    Options {
        flags,
        flags_to_disable: disable.into(),
        skip_features: req.skip_features,
        ir_dir: (!req.ir_dir.is_empty()).then(|| PathBuf::from(&req.ir_dir)),
        ..Default::default()
    }
}

/// Compile; returns the result record and the font bytes if it succeeded.
pub fn compile(req: &CompileReq) -> (CompileRes, Option<Vec<u8>>) {
    let t0 = std::time::Instant::now();
    if std::env::var_os("SOURCE_DATE_EPOCH").is_none() {
        // head.created/modified come from the clock otherwise
        unsafe { std::env::set_var("SOURCE_DATE_EPOCH", "1700000000") };
    }
    if req.threads > 0 {
        // rayon reads this each time a pool with default size is built
        unsafe { std::env::set_var("RAYON_NUM_THREADS", req.threads.to_string()) };
    } else {
        unsafe { std::env::remove_var("RAYON_NUM_THREADS") };
    }
    fontdrasil::verif::set_jitter(req.jitter);
    if req.jitter_max_us > 0 {
        fontdrasil::verif::set_jitter_max_us(req.jitter_max_us);
    }
    fontdrasil::verif::set_readback(req.readback);
    fontdrasil::verif::set_fault(
        req.fault
            .rsplit_once('=')
            .map(|(j, k)| (j.to_string(), k.to_string())),
    );
    if !req.trace.is_empty() {
        fontdrasil::verif::install(&req.trace);
    }
    let result = std::panic::catch_unwind(std::panic::AssertUnwindSafe(|| {
        let input = if req.glyphs_memory {
            let text = std::fs::read_to_string(&req.src).map_err(|e| e.to_string())?;
            Input::from_glyphs(text)
        } else {
            Input::new(std::path::Path::new(&req.src)).map_err(|e| e.to_string())?
        };
        let source = input.create_source().map_err(|e| e.to_string())?;
        fontc::generate_font(source, options_for(req)).map_err(|e| e.to_string())
    }));
    if !req.trace.is_empty() {
        fontdrasil::verif::uninstall();
    }
    fontdrasil::verif::set_jitter(0);
    fontdrasil::verif::set_fault(None);
    fontdrasil::verif::set_readback(false);
    let mut res = CompileRes {
        tag: req.tag.clone(),
        wall_ms: t0.elapsed().as_millis(),
        ..Default::default()
    };
    let font = match result {
        Ok(Ok(bytes)) => {
            res.outcome = "ok".into();
            res.len = bytes.len();
            res.hash = fnv1a(&bytes);
            Some(bytes)
        }
        Ok(Err(e)) => {
            res.outcome = "error".into();
            res.message = e;
            None
        }
        Err(p) => {
            res.outcome = "panic".into();
            res.message = panic_message(p);
            None
        }
    };
    res.wall_ms = t0.elapsed().as_millis();
    if let Some(bytes) = &font
        && !req.out.is_empty()
        && let Err(e) = std::fs::write(&req.out, bytes)
    {
        eprintln!("unable to write {}: {e}", req.out);
    }
    (res, font)
}

fn quiet_panics() {
    if std::env::var("VH_PANIC_VERBOSE").is_err() {
        std::panic::set_hook(Box::new(|_| {}));
    }
}

/// `vh compile '<json request>'`
pub fn run(args: &[String]) -> i32 {
    quiet_panics();
    let Some(json) = args.first() else {
        eprintln!("usage: vh compile '<json CompileReq>'");
        return 2;
    };
    let req: CompileReq = match serde_json::from_str(json) {
        Ok(r) => r,
        Err(e) => {
            eprintln!("bad request: {e}");
            return 2;
        }
    };
    let (res, _) = compile(&req);
    println!("{}", serde_json::to_string(&res).unwrap());
    0
}

/// `vh batch`: one CompileReq per stdin line, one CompileRes per stdout line
pub fn run_batch(_args: &[String]) -> i32 {
    quiet_panics();
    let stdin = std::io::stdin();
    let stdout = std::io::stdout();
    for line in stdin.lock().lines() {
        let Ok(line) = line else { break };
        if line.trim().is_empty() {
            continue;
        }
        let req: CompileReq = match serde_json::from_str(&line) {
            Ok(r) => r,
            Err(e) => {
                eprintln!("bad request: {e}");
                return 2;
            }
        };
        let (res, _) = compile(&req);
        let mut out = stdout.lock();
        let _ = writeln!(out, "{}", serde_json::to_string(&res).unwrap());
        let _ = out.flush();
    }
    0
}
