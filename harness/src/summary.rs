//! `vh summary`: measure the raw data the summary fields of a font are defined over (C17).
//!
//! stdin: one JSON request per line  {"id": "...", "font": "<path>", "meta": {...}}
//! stdout: one JSON observation per line (see spec/Summary.tla for the vocabulary).
//!
//! This side only MEASURES: it decodes the binary tables with read-fonts and copies numbers out. No maximum,
//! minimum, union, average or component resolution happens here; the definitions of the summary fields live
//! in spec/Summary.tla and TLC evaluates them over these records.

use std::io::{BufRead, Write};

use serde_json::{Map, Value, json};
use skrifa::raw::{
    FontRef, TableProvider,
    tables::glyf::{Anchor, Glyph},
    types::{GlyphId, Tag},
};

fn u16_at(d: &[u8], off: usize) -> Option<u32> {
    d.get(off..off + 2)
        .map(|b| u16::from_be_bytes([b[0], b[1]]) as u32)
}

fn u32_at(d: &[u8], off: usize) -> Option<u32> {
    d.get(off..off + 4)
        .map(|b| u32::from_be_bytes([b[0], b[1], b[2], b[3]]))
}

fn halves(v: u32) -> Value {
    json!([v >> 16, v & 0xFFFF])
}

/// Per-glyph raw data of glyf: kind, stored box, contour count, point coordinates, component records.
pub fn glyph_table(font: &FontRef, ng: u32) -> Result<Vec<Value>, String> {
    let loca = font.loca(None).map_err(|e| format!("loca: {e}"))?;
    let glyf = font.glyf().map_err(|e| format!("glyf: {e}"))?;
    let mut v = Vec::with_capacity(ng as usize);
    for gid in 0..ng {
        let g = loca.get_glyf(GlyphId::new(gid), &glyf);
        v.push(match g {
            Ok(None) => json!({"k": "e"}),
            Ok(Some(Glyph::Simple(s))) => {
                let mut xs = Vec::new();
                let mut ys = Vec::new();
                for p in s.points() {
                    xs.push(p.x);
                    ys.push(p.y);
                }
                json!({"k": "s", "b": [s.x_min(), s.y_min(), s.x_max(), s.y_max()],
                       "nc": s.number_of_contours(), "px": xs, "py": ys})
            }
            Ok(Some(Glyph::Composite(c))) => {
                let comps: Vec<Value> = c
                    .components()
                    .map(|k| {
                        let (dx, dy, xy_args) = match k.anchor {
                            Anchor::Offset { x, y } => (x as i32, y as i32, true),
                            Anchor::Point { base, component } => (base as i32, component as i32, false),
                        };
                        json!({"g": k.glyph.to_u16(), "dx": dx, "dy": dy, "xyargs": xy_args,
                               "xx": k.transform.xx.to_bits(), "yx": k.transform.yx.to_bits(),
                               "xy": k.transform.xy.to_bits(), "yy": k.transform.yy.to_bits(),
                               "fl": k.flags.bits()})
                    })
                    .collect();
                json!({"k": "c", "b": [c.x_min(), c.y_min(), c.x_max(), c.y_max()], "c": comps})
            }
            Err(e) => json!({"k": "x", "err": e.to_string()}),
        });
    }
    Ok(v)
}

/// Raw loca entries (decoded per head.indexToLocFormat by hand; short entries are doubled as the format says).
pub fn loca_raw(font: &FontRef) -> Value {
    let fmt = font.head().map(|h| h.index_to_loc_format()).unwrap_or(-1);
    let Some(d) = font.table_data(Tag::new(b"loca")) else {
        return Value::Null;
    };
    let d = d.as_bytes();
    let mut offs: Vec<u32> = Vec::new();
    if fmt == 0 {
        let mut i = 0;
        while let Some(v) = u16_at(d, i) {
            offs.push(v * 2);
            i += 2;
        }
    } else if fmt == 1 {
        let mut i = 0;
        while let Some(v) = u32_at(d, i) {
            // TLC integers are 32-bit signed
            offs.push(v.min(0x7FFF_FFFF));
            i += 4;
        }
    }
    let glyf_len = font
        .table_data(Tag::new(b"glyf"))
        .map(|g| g.len())
        .unwrap_or(0);
    json!({"fmt": fmt, "len": d.len(), "offs": offs, "glyf_len": glyf_len})
}

pub fn observe(data: &[u8]) -> Result<Map<String, Value>, String> {
    let font = FontRef::new(data).map_err(|e| format!("cannot parse font: {e}"))?;
    let mut o = Map::new();
    let maxp = font.maxp().map_err(|e| format!("maxp: {e}"))?;
    let ng = maxp.num_glyphs() as u32;
    o.insert("n".into(), json!(ng));
    o.insert(
        "maxp".into(),
        json!({"points": maxp.max_points().unwrap_or(0), "contours": maxp.max_contours().unwrap_or(0),
               "cpoints": maxp.max_composite_points().unwrap_or(0), "ccontours": maxp.max_composite_contours().unwrap_or(0),
               "celems": maxp.max_component_elements().unwrap_or(0), "cdepth": maxp.max_component_depth().unwrap_or(0)}),
    );
    o.insert("g".into(), json!(glyph_table(&font, ng)?));
    o.insert("loca".into(), loca_raw(&font));
    let head = font.head().map_err(|e| format!("head: {e}"))?;
    o.insert(
        "head".into(),
        json!({"b": [head.x_min(), head.y_min(), head.x_max(), head.y_max()],
               "locfmt": head.index_to_loc_format(), "flags": head.flags().bits()}),
    );
    // horizontal
    let hhea = font.hhea().map_err(|e| format!("hhea: {e}"))?;
    o.insert(
        "hhea".into(),
        json!({"advmax": hhea.advance_width_max().to_u16(), "minfirst": hhea.min_left_side_bearing().to_i16(),
               "minsecond": hhea.min_right_side_bearing().to_i16(), "maxextent": hhea.x_max_extent().to_i16(),
               "nlong": hhea.number_of_h_metrics(),
               "len": font.table_data(Tag::new(b"hmtx")).map(|d| d.len()).unwrap_or(0)}),
    );
    let hmtx = font.hmtx().map_err(|e| format!("hmtx: {e}"))?;
    let mut adv = Vec::new();
    let mut lsb = Vec::new();
    for gid in 0..ng {
        adv.push(hmtx.advance(GlyphId::new(gid)).map(|v| v as i32).unwrap_or(-1));
        lsb.push(hmtx.side_bearing(GlyphId::new(gid)).map(|v| v as i32).unwrap_or(-99999));
    }
    o.insert("adv".into(), json!(adv));
    o.insert("lsb".into(), json!(lsb));
    // vertical
    if let (Ok(vhea), Ok(vmtx)) = (font.vhea(), font.vmtx()) {
        o.insert(
            "vhea".into(),
            json!({"advmax": vhea.advance_height_max().to_u16(), "minfirst": vhea.min_top_side_bearing().to_i16(),
                   "minsecond": vhea.min_bottom_side_bearing().to_i16(), "maxextent": vhea.y_max_extent().to_i16(),
                   "nlong": vhea.number_of_long_ver_metrics(),
                   "len": font.table_data(Tag::new(b"vmtx")).map(|d| d.len()).unwrap_or(0)}),
        );
        let mut vadv = Vec::new();
        let mut tsb = Vec::new();
        for gid in 0..ng {
            vadv.push(vmtx.advance(GlyphId::new(gid)).map(|v| v as i32).unwrap_or(-1));
            tsb.push(vmtx.side_bearing(GlyphId::new(gid)).map(|v| v as i32).unwrap_or(-99999));
        }
        o.insert("vadv".into(), json!(vadv));
        o.insert("tsb".into(), json!(tsb));
        o.insert("hasv".into(), json!(true));
    } else {
        o.insert("hasv".into(), json!(false));
    }
    // OS/2
    let os2 = font.os2().map_err(|e| format!("OS/2: {e}"))?;
    o.insert(
        "os2".into(),
        json!({"version": os2.version(), "xavg": os2.x_avg_char_width(),
               "first": os2.us_first_char_index(), "last": os2.us_last_char_index(),
               "ur": [halves(os2.ul_unicode_range_1()), halves(os2.ul_unicode_range_2()),
                      halves(os2.ul_unicode_range_3()), halves(os2.ul_unicode_range_4())],
               "hascpr": os2.ul_code_page_range_1().is_some(),
               "cpr": [halves(os2.ul_code_page_range_1().unwrap_or(0)), halves(os2.ul_code_page_range_2().unwrap_or(0))],
               "maxctx": os2.us_max_context().map(|v| v as i32).unwrap_or(-1)}),
    );
    // cmap: every code point of every Unicode subtable (distinct, sorted)
    // (except the 0xFFFF -> glyph 0 end marker every format 4 subtable carries)
    let mut cps: Vec<u32> = crate::sfnt::cmap_pairs(&font)
        .into_iter()
        .filter(|(c, g)| !(*c == 0xFFFF && *g == 0))
        .map(|(c, _)| c)
        .collect();
    cps.sort();
    cps.dedup();
    o.insert("cmap".into(), json!(cps));
    // layout: context lengths of every rule of every lookup
    o.insert("lay".into(), crate::sfnt::layout_contexts(&font));
    Ok(o)
}

pub fn run(_args: &[String]) -> i32 {
    std::panic::set_hook(Box::new(|_| {}));
    let stdin = std::io::stdin();
    let stdout = std::io::stdout();
    for line in stdin.lock().lines() {
        let Ok(line) = line else { break };
        if line.trim().is_empty() {
            continue;
        }
        let req: Value = match serde_json::from_str(&line) {
            Ok(r) => r,
            Err(e) => {
                eprintln!("bad request: {e}");
                return 2;
            }
        };
        let id = req.get("id").cloned().unwrap_or(Value::Null);
        let meta = req.get("meta").cloned().unwrap_or(json!({}));
        let path = req.get("font").and_then(|v| v.as_str()).unwrap_or("");
        let res = match std::fs::read(path) {
            Err(e) => json!({"id": id, "outcome": "error", "message": format!("cannot read {path}: {e}")}),
            Ok(data) => {
                match std::panic::catch_unwind(std::panic::AssertUnwindSafe(|| observe(&data))) {
                    Ok(Ok(mut o)) => {
                        o.insert("id".into(), id);
                        o.insert("meta".into(), meta);
                        o.insert("outcome".into(), json!("ok"));
                        Value::Object(o)
                    }
                    Ok(Err(e)) => json!({"id": id, "outcome": "unreadable", "message": e}),
                    Err(p) => json!({"id": id, "outcome": "panic", "message": crate::compile::panic_message(p)}),
                }
            }
        };
        let mut out = stdout.lock();
        let _ = writeln!(out, "{res}");
        let _ = out.flush();
    }
    0
}
