//! `vh-kerning`: stand-alone binary for the `kerning` module (generated wrapper; edit ../kerning.rs instead).
//! Each module is its own binary so that a compile error in one module cannot break the others.
#![allow(dead_code, unused_imports)]

#[path = "../compile.rs"]
mod compile;
#[path = "../fontutil.rs"]
mod fontutil;
#[path = "../project.rs"]
mod project;
#[path = "../kerning.rs"]
mod kerning;

fn main() {
    let args: Vec<String> = std::env::args().collect();
    std::process::exit(kerning::run(&args[1..]));
}
