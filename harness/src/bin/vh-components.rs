//! `vh-components`: stand-alone binary for the `components` module (generated wrapper; edit ../components.rs instead).
//! Each module is its own binary so that a compile error in one module cannot break the others.
#![allow(dead_code, unused_imports)]

#[path = "../compile.rs"]
mod compile;
#[path = "../fontutil.rs"]
mod fontutil;
#[path = "../project.rs"]
mod project;
#[path = "../components.rs"]
mod components;

fn main() {
    let args: Vec<String> = std::env::args().collect();
    std::process::exit(components::run(&args[1..]));
}
