//! `vh-glyphset`: stand-alone binary for the `glyphset` module (generated wrapper; edit ../glyphset.rs instead).
//! Each module is its own binary so that a compile error in one module cannot break the others.
#![allow(dead_code, unused_imports)]

#[path = "../compile.rs"]
mod compile;
#[path = "../fontutil.rs"]
mod fontutil;
#[path = "../project.rs"]
mod project;
#[path = "../glyphset.rs"]
mod glyphset;

fn main() {
    let args: Vec<String> = std::env::args().collect();
    std::process::exit(glyphset::run(&args[1..]));
}
