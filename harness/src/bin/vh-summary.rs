//! `vh-summary`: stand-alone binary for the `summary` module (generated wrapper; edit ../summary.rs instead).
//! Each module is its own binary so that a compile error in one module cannot break the others.
#![allow(dead_code, unused_imports)]

#[path = "../compile.rs"]
mod compile;
#[path = "../fontutil.rs"]
mod fontutil;
#[path = "../project.rs"]
mod project;
#[path = "../summary.rs"]
mod summary;
#[path = "../sfnt.rs"]
mod sfnt;

fn main() {
    let args: Vec<String> = std::env::args().collect();
    std::process::exit(summary::run(&args[1..]));
}
