//! `vh-instancing`: stand-alone binary for the `instancing` module (generated wrapper; edit ../instancing.rs instead).
//! Each module is its own binary so that a compile error in one module cannot break the others.
#![allow(dead_code, unused_imports)]

#[path = "../compile.rs"]
mod compile;
#[path = "../fontutil.rs"]
mod fontutil;
#[path = "../project.rs"]
mod project;
#[path = "../instancing.rs"]
mod instancing;

fn main() {
    let args: Vec<String> = std::env::args().collect();
    std::process::exit(instancing::run(&args[1..]));
}
