//! `vh-routes`: stand-alone binary for the `routes` module (generated wrapper; edit ../routes.rs instead).
//! Each module is its own binary so that a compile error in one module cannot break the others.
#![allow(dead_code, unused_imports)]

#[path = "../compile.rs"]
mod compile;
#[path = "../fontutil.rs"]
mod fontutil;
#[path = "../project.rs"]
mod project;
#[path = "../routes.rs"]
mod routes;

fn main() {
    let args: Vec<String> = std::env::args().collect();
    std::process::exit(routes::run(&args[1..]));
}
