//! `vh-limits`: stand-alone binary for the `limits` module (generated wrapper; edit ../limits.rs instead).
//! Each module is its own binary so that a compile error in one module cannot break the others.
#![allow(dead_code, unused_imports)]

#[path = "../compile.rs"]
mod compile;
#[path = "../fontutil.rs"]
mod fontutil;
#[path = "../project.rs"]
mod project;
#[path = "../limits.rs"]
mod limits;

fn main() {
    let args: Vec<String> = std::env::args().collect();
    std::process::exit(limits::run(&args[1..]));
}
