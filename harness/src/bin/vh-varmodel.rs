//! `vh-varmodel`: stand-alone binary for the `varmodel` module (generated wrapper; edit ../varmodel.rs instead).
//! Each module is its own binary so that a compile error in one module cannot break the others.
#![allow(dead_code, unused_imports)]

#[path = "../compile.rs"]
mod compile;
#[path = "../fontutil.rs"]
mod fontutil;
#[path = "../project.rs"]
mod project;
#[path = "../varmodel.rs"]
mod varmodel;

fn main() {
    let args: Vec<String> = std::env::args().collect();
    std::process::exit(varmodel::run(&args[1..]));
}
