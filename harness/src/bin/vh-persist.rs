//! `vh-persist`: stand-alone binary for the `persist` module (generated wrapper; edit ../persist.rs instead).
//! Each module is its own binary so that a compile error in one module cannot break the others.
#![allow(dead_code, unused_imports)]

#[path = "../compile.rs"]
mod compile;
#[path = "../fontutil.rs"]
mod fontutil;
#[path = "../project.rs"]
mod project;
#[path = "../persist.rs"]
mod persist;

fn main() {
    let args: Vec<String> = std::env::args().collect();
    std::process::exit(persist::run(&args[1..]));
}
