//! `vh-coords`: stand-alone binary for the `coords` module (generated wrapper; edit ../coords.rs instead).
//! Each module is its own binary so that a compile error in one module cannot break the others.
#![allow(dead_code, unused_imports)]

#[path = "../compile.rs"]
mod compile;
#[path = "../fontutil.rs"]
mod fontutil;
#[path = "../project.rs"]
mod project;
#[path = "../coords.rs"]
mod coords;

fn main() {
    let args: Vec<String> = std::env::args().collect();
    std::process::exit(coords::run(&args[1..]));
}
