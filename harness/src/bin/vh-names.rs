//! `vh-names`: stand-alone binary for the `names` module (generated wrapper; edit ../names.rs instead).
//! Each module is its own binary so that a compile error in one module cannot break the others.
#![allow(dead_code, unused_imports)]

#[path = "../compile.rs"]
mod compile;
#[path = "../fontutil.rs"]
mod fontutil;
#[path = "../project.rs"]
mod project;
#[path = "../names.rs"]
mod names;

fn main() {
    let args: Vec<String> = std::env::args().collect();
    std::process::exit(names::run(&args[1..]));
}
