//! `vh-feaparse`: stand-alone binary for the `feaparse` module (generated wrapper; edit ../feaparse.rs instead).
//! Each module is its own binary so that a compile error in one module cannot break the others.
#![allow(dead_code, unused_imports)]

#[path = "../compile.rs"]
mod compile;
#[path = "../fontutil.rs"]
mod fontutil;
#[path = "../project.rs"]
mod project;
#[path = "../feaparse.rs"]
mod feaparse;

fn main() {
    let args: Vec<String> = std::env::args().collect();
    std::process::exit(feaparse::run(&args[1..]));
}
