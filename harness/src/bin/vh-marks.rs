//! `vh-marks`: stand-alone binary for the `marks` module (generated wrapper; edit ../marks.rs instead).
//! Each module is its own binary so that a compile error in one module cannot break the others.
#![allow(dead_code, unused_imports)]

#[path = "../compile.rs"]
mod compile;
#[path = "../fontutil.rs"]
mod fontutil;
#[path = "../project.rs"]
mod project;
#[path = "../marks.rs"]
mod marks;

fn main() {
    let args: Vec<String> = std::env::args().collect();
    std::process::exit(marks::run(&args[1..]));
}
