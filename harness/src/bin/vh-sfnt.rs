//! `vh-sfnt`: stand-alone binary for the `sfnt` module (generated wrapper; edit ../sfnt.rs instead).
//! Each module is its own binary so that a compile error in one module cannot break the others.
#![allow(dead_code, unused_imports)]

#[path = "../compile.rs"]
mod compile;
#[path = "../fontutil.rs"]
mod fontutil;
#[path = "../project.rs"]
mod project;
#[path = "../sfnt.rs"]
mod sfnt;
#[path = "../summary.rs"]
mod summary;

fn main() {
    let args: Vec<String> = std::env::args().collect();
    std::process::exit(sfnt::run(&args[1..]));
}
