//! `vh-feasem`: stand-alone binary for the `feasem` module (generated wrapper; edit ../feasem.rs instead).
//! Each module is its own binary so that a compile error in one module cannot break the others.
#![allow(dead_code, unused_imports)]

#[path = "../compile.rs"]
mod compile;
#[path = "../fontutil.rs"]
mod fontutil;
#[path = "../project.rs"]
mod project;
#[path = "../feasem.rs"]
mod feasem;

fn main() {
    let args: Vec<String> = std::env::args().collect();
    std::process::exit(feasem::run(&args[1..]));
}
