//! `vh-featvars`: stand-alone binary for the `featvars` module (generated wrapper; edit ../featvars.rs instead).
//! Each module is its own binary so that a compile error in one module cannot break the others.
#![allow(dead_code, unused_imports)]

#[path = "../compile.rs"]
mod compile;
#[path = "../fontutil.rs"]
mod fontutil;
#[path = "../project.rs"]
mod project;
#[path = "../featvars.rs"]
mod featvars;

fn main() {
    let args: Vec<String> = std::env::args().collect();
    std::process::exit(featvars::run(&args[1..]));
}
