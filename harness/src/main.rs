//! `vh`: verification harness for fontc. One subcommand per module; see /verif/DESIGN.md.

mod compile;

use std::process::ExitCode;

/// (name, entry point, one-line help). Each module owns its own file.
const MODULES: &[(&str, fn(&[String]) -> i32, &str)] = &[
    ("compile", compile::run, "compile one source (optionally traced)"),
    ("batch", compile::run_batch, "compile many sources from ndjson requests on stdin"),
];

fn main() -> ExitCode {
    let args: Vec<String> = std::env::args().collect();
    let Some(cmd) = args.get(1) else {
        eprintln!("usage: vh <module> [args]");
        for (name, _, help) in MODULES {
            eprintln!("  {name:12} {help}");
        }
        return ExitCode::from(2);
    };
    for (name, run, _) in MODULES {
        if name == cmd {
            return ExitCode::from(run(&args[2..]) as u8);
        }
    }
    eprintln!("unknown module {cmd}");
    ExitCode::from(2)
}
