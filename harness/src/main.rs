//! `vh`: verification harness for fontc. See /verif/DESIGN.md and /verif/docs/MODULE_CONTRACT.md.
//!
//! `compile`, `batch` and `project` are built in; every other module `<m>` lives in `src/<m>.rs`, is built
//! as its own binary `vh-<m>` (src/bin/vh-<m>.rs) and `vh <m> ...` simply runs that binary.

mod compile;
mod fontutil;
mod project;

use std::process::ExitCode;

const BUILTIN: &[(&str, fn(&[String]) -> i32, &str)] = &[
    ("compile", compile::run, "compile one source (optionally traced)"),
    ("batch", compile::run_batch, "compile many sources from ndjson requests on stdin"),
    ("project", project::run, "project a font into JSON"),
];

fn main() -> ExitCode {
    let args: Vec<String> = std::env::args().collect();
    let Some(cmd) = args.get(1) else {
        eprintln!("usage: vh <module> [args]");
        for (name, _, help) in BUILTIN {
            eprintln!("  {name:12} {help}");
        }
        eprintln!("  <module>     runs the sibling binary vh-<module>");
        return ExitCode::from(2);
    };
    for (name, run, _) in BUILTIN {
        if name == cmd {
            return ExitCode::from(run(&args[2..]) as u8);
        }
    }
    // sibling binary
    let exe = std::env::current_exe().ok();
    let sibling = exe
        .as_ref()
        .and_then(|p| p.parent())
        .map(|d| d.join(format!("vh-{cmd}")));
    match sibling {
        Some(path) if path.exists() => {
            match std::process::Command::new(&path).args(&args[2..]).status() {
                Ok(status) => ExitCode::from(status.code().unwrap_or(2) as u8),
                Err(e) => {
                    eprintln!("cannot run {}: {e}", path.display());
                    ExitCode::from(2)
                }
            }
        }
        _ => {
            eprintln!("unknown module {cmd}");
            ExitCode::from(2)
        }
    }
}
