//! `vh`: verification harness for fontc. One subcommand per module; see /verif/DESIGN.md.

mod compile;
mod fontutil;
mod varmodel;
mod featvars;
mod coords;
mod feaparse;
mod feasem;
mod glyphset;
mod kerning;
mod marks;
mod components;
mod names;
mod limits;
mod routes;
mod summary;
mod sfnt;
mod instancing;
mod persist;
mod project;

use std::process::ExitCode;

/// (name, entry point, one-line help). Each module owns its own file.
const MODULES: &[(&str, fn(&[String]) -> i32, &str)] = &[
    ("compile", compile::run, "compile one source (optionally traced)"),
    ("batch", compile::run_batch, "compile many sources from ndjson requests on stdin"),
    ("varmodel", varmodel::run, "see spec/ and checks/ for the module of the same name"),
    ("featvars", featvars::run, "see spec/ and checks/ for the module of the same name"),
    ("coords", coords::run, "see spec/ and checks/ for the module of the same name"),
    ("feaparse", feaparse::run, "see spec/ and checks/ for the module of the same name"),
    ("feasem", feasem::run, "see spec/ and checks/ for the module of the same name"),
    ("glyphset", glyphset::run, "see spec/ and checks/ for the module of the same name"),
    ("kerning", kerning::run, "see spec/ and checks/ for the module of the same name"),
    ("marks", marks::run, "see spec/ and checks/ for the module of the same name"),
    ("components", components::run, "see spec/ and checks/ for the module of the same name"),
    ("names", names::run, "see spec/ and checks/ for the module of the same name"),
    ("limits", limits::run, "see spec/ and checks/ for the module of the same name"),
    ("routes", routes::run, "see spec/ and checks/ for the module of the same name"),
    ("summary", summary::run, "see spec/ and checks/ for the module of the same name"),
    ("sfnt", sfnt::run, "see spec/ and checks/ for the module of the same name"),
    ("instancing", instancing::run, "see spec/ and checks/ for the module of the same name"),
    ("persist", persist::run, "see spec/ and checks/ for the module of the same name"),
    ("project", project::run, "see spec/ and checks/ for the module of the same name"),
];

fn main() -> ExitCode {
    let args: Vec<String> = std::env::args().collect();
    let Some(cmd) = args.get(1) else {
        eprintln!("usage: vh <module> [args]");
        for (name, _, help) in MODULES {
            eprintln!("  {name:12} {help}");
        }
        return ExitCode::from(2);
    };
    for (name, run, _) in MODULES {
        if name == cmd {
            return ExitCode::from(run(&args[2..]) as u8);
        }
    }
    eprintln!("unknown module {cmd}");
    ExitCode::from(2)
}
