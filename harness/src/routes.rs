//! `vh routes`: see /verif/docs/MODULE_CONTRACT.md

pub fn run(_args: &[String]) -> i32 {
    eprintln!("vh routes: not implemented yet");
    2
}
