//! `vh routes`: execute one presentation of a design through one entry point (C20).
//!
//! stdin: one JSON request per line
//!   {"tag", "entry": "lib"|"cli", "src": path, "memory": bool, "out": path, "options": [names],
//!    "fontc": path to the CLI binary (entry=cli), "timeout_ms": n}
//! stdout: one JSON line per request
//!   {"tag", "entry", "outcome": "ok"|"error"|"panic"|"timeout"|"signal", "message", "len", "hash",
//!    "kind": Input variant chosen by `Input::new` / `from_glyphs` (lib only; internal observable),
//!    "stamp": [name-id-5 strings of the produced font], "version": fontc::version() (lib only),
//!    "argv": the CLI arguments used (cli only), "wall_ms"}
//!
//! entry=lib:  `Input::new(path)` (or `Input::from_glyphs(text)` when "memory") -> `create_source` ->
//!             `fontc::generate_font(source, options)` where `options` starts from `Options::default()` the way a
//!             library user would and only the named options are changed.
//! entry=cli:  the `fontc` binary as a subprocess, the named options given as command line flags
//!             (/repo/fontc/src/args.rs), always under a timeout.
//! Nothing is compared here; the oracle is spec/Routes.tla (+ checks/c20.py).
//!
//! `vh routes --options` prints the option vocabulary with the CLI spelling of each name.

use std::{
    io::{BufRead, Read, Write},
    path::{Path, PathBuf},
    process::{Command, Stdio},
    time::{Duration, Instant},
};

use fontc::{Flags, Input, Options};
use serde::{Deserialize, Serialize};
use write_fonts::read::{FontRef, TableProvider};

use crate::compile::{fnv1a, panic_message};

#[derive(Debug, Default, Clone, Deserialize)]
#[serde(default)]
struct Req {
    tag: String,
    entry: String,
    src: String,
    memory: bool,
    out: String,
    options: Vec<String>,
    fontc: String,
    timeout_ms: u64,
}

#[derive(Debug, Default, Clone, Serialize)]
struct Res {
    tag: String,
    entry: String,
    outcome: String,
    message: String,
    len: usize,
    hash: String,
    kind: String,
    stamp: Vec<String>,
    version: String,
    argv: Vec<String>,
    wall_ms: u128,
}

/// The option vocabulary: name -> CLI arguments. The library side is `apply_lib`.
const OPTIONS: &[(&str, &[&str])] = &[
    ("flatten", &["--flatten-components"]),
    ("no_flatten", &["--flatten-components=false"]),
    ("erase_open_corners", &["--erase-open-corners"]),
    ("no_erase_open_corners", &["--erase-open-corners=false"]),
    ("propagate_anchors", &["--propagate-anchors"]),
    ("no_propagate_anchors", &["--propagate-anchors=false"]),
    ("no_prefer_simple", &["--prefer-simple-glyphs", "false"]),
    ("decompose", &["--decompose-components"]),
    ("decompose_transformed", &["--decompose-transformed-components"]),
    ("keep_direction", &["--keep-direction"]),
    ("no_production_names", &["--no-production-names"]),
    ("skip_features", &["--skip-features"]),
    ("debg", &["--emit-lookup-debug-info"]),
];

fn cli_args(name: &str) -> Option<&'static [&'static str]> {
    OPTIONS.iter().find(|(n, _)| *n == name).map(|(_, a)| *a)
}

/// What a library user writes to get the same thing as the CLI flag.
fn apply_lib(opts: &mut Options, disable: &mut Flags, name: &str) -> bool {
    match name {
        "flatten" => opts.flags |= Flags::FLATTEN_COMPONENTS,
        "no_flatten" => *disable |= Flags::FLATTEN_COMPONENTS,
        "erase_open_corners" => opts.flags |= Flags::ERASE_OPEN_CORNERS,
        "no_erase_open_corners" => *disable |= Flags::ERASE_OPEN_CORNERS,
        "propagate_anchors" => opts.flags |= Flags::PROPAGATE_ANCHORS,
        "no_propagate_anchors" => *disable |= Flags::PROPAGATE_ANCHORS,
        "no_prefer_simple" => opts.flags.remove(Flags::PREFER_SIMPLE_GLYPHS),
        "decompose" => opts.flags |= Flags::DECOMPOSE_COMPONENTS,
        "decompose_transformed" => opts.flags |= Flags::DECOMPOSE_TRANSFORMED_COMPONENTS,
        "keep_direction" => opts.flags |= Flags::KEEP_DIRECTION,
        "no_production_names" => opts.flags.remove(Flags::PRODUCTION_NAMES),
        "skip_features" => opts.skip_features = true,
        "debg" => opts.compile_debg = true,
        _ => return false,
    }
    true
}

fn input_kind(input: &Input) -> &'static str {
    match input {
        Input::DesignSpacePath(_) => "DesignSpacePath",
        Input::GlyphsPath(_) => "GlyphsPath",
        Input::FontraPath(_) => "FontraPath",
        Input::GlyphsMemory(_) => "GlyphsMemory",
    }
}

/// name id 5 strings (where the compiler version is stamped), in table order
fn stamps(bytes: &[u8]) -> Vec<String> {
    let mut out = Vec::new();
    if let Ok(font) = FontRef::new(bytes)
        && let Ok(name) = font.name()
    {
        for r in name.name_record() {
            if r.name_id().to_u16() == 5
                && let Ok(s) = r.string(name.string_data())
            {
                out.push(s.chars().collect::<String>());
            }
        }
    }
    out
}

fn finish_ok(res: &mut Res, bytes: &[u8]) {
    res.outcome = "ok".into();
    res.len = bytes.len();
    res.hash = fnv1a(bytes);
    res.stamp = stamps(bytes);
}

fn run_lib(req: &Req, res: &mut Res) {
    res.version = fontc::version();
    let mut kind = String::new();
    let result = std::panic::catch_unwind(std::panic::AssertUnwindSafe(|| {
        let input = if req.memory {
            let text = std::fs::read_to_string(&req.src).map_err(|e| format!("harness: {e}"))?;
            Input::from_glyphs(text)
        } else {
            Input::new(Path::new(&req.src)).map_err(|e| e.to_string())?
        };
        kind = input_kind(&input).to_string();
        let mut options = Options::default();
        let mut disable = Flags::empty();
        for o in &req.options {
            if !apply_lib(&mut options, &mut disable, o) {
                return Err(format!("harness: unknown option {o}"));
            }
        }
        options.flags_to_disable = disable.into();
        let source = input.create_source().map_err(|e| e.to_string())?;
        fontc::generate_font(source, options).map_err(|e| e.to_string())
    }));
    res.kind = kind;
    match result {
        Ok(Ok(bytes)) => {
            finish_ok(res, &bytes);
            if !req.out.is_empty()
                && let Err(e) = std::fs::write(&req.out, &bytes)
            {
                res.outcome = "harness".into();
                res.message = format!("unable to write {}: {e}", req.out);
            }
        }
        Ok(Err(e)) => {
            res.outcome = if e.starts_with("harness: ") { "harness" } else { "error" }.into();
            res.message = e;
        }
        Err(p) => {
            res.outcome = "panic".into();
            res.message = panic_message(p);
        }
    }
}

fn run_cli(req: &Req, res: &mut Res) {
    let out = PathBuf::from(&req.out);
    let _ = std::fs::remove_file(&out);
    let build_dir = PathBuf::from(format!("{}.build", req.out));
    let mut argv: Vec<String> = vec![
        req.src.clone(),
        "-o".into(),
        req.out.clone(),
        "--build-dir".into(),
        build_dir.to_string_lossy().into_owned(),
    ];
    for o in &req.options {
        match cli_args(o) {
            Some(a) => argv.extend(a.iter().map(|s| s.to_string())),
            None => {
                res.outcome = "harness".into();
                res.message = format!("unknown option {o}");
                return;
            }
        }
    }
    res.argv = argv.clone();
    let child = Command::new(&req.fontc)
        .args(&argv)
        .stdin(Stdio::null())
        .stdout(Stdio::null())
        .stderr(Stdio::piped())
        .spawn();
    let mut child = match child {
        Ok(c) => c,
        Err(e) => {
            res.outcome = "harness".into();
            res.message = format!("cannot run {}: {e}", req.fontc);
            return;
        }
    };
    // drain stderr on a thread so a chatty child cannot block on the pipe
    let mut stderr = child.stderr.take().unwrap();
    let reader = std::thread::spawn(move || {
        let mut s = Vec::new();
        let _ = stderr.read_to_end(&mut s);
        String::from_utf8_lossy(&s).into_owned()
    });
    let deadline = Instant::now() + Duration::from_millis(if req.timeout_ms == 0 { 60_000 } else { req.timeout_ms });
    let status = loop {
        match child.try_wait() {
            Ok(Some(st)) => break Some(st),
            Ok(None) => {
                if Instant::now() > deadline {
                    let _ = child.kill();
                    let _ = child.wait();
                    break None;
                }
                std::thread::sleep(Duration::from_millis(2));
            }
            Err(e) => {
                res.outcome = "harness".into();
                res.message = format!("wait: {e}");
                return;
            }
        }
    };
    let err = reader.join().unwrap_or_default();
    let tail: String = {
        let n = err.chars().count();
        err.chars().skip(n.saturating_sub(600)).collect()
    };
    let _ = std::fs::remove_dir_all(&build_dir);
    match status {
        None => {
            res.outcome = "timeout".into();
            res.message = tail;
        }
        Some(st) if st.success() => match std::fs::read(&out) {
            Ok(bytes) => {
                finish_ok(res, &bytes);
                res.message = tail;
            }
            Err(e) => {
                res.outcome = "error".into();
                res.message = format!("exit 0 but no output file: {e}; {tail}");
            }
        },
        Some(st) => {
            use std::os::unix::process::ExitStatusExt;
            if let Some(sig) = st.signal() {
                res.outcome = "signal".into();
                res.message = format!("signal {sig}; {tail}");
            } else if st.code() == Some(101) {
                res.outcome = "panic".into();
                res.message = tail;
            } else {
                res.outcome = "error".into();
                res.message = format!("exit {:?}; {tail}", st.code());
            }
            let _ = std::fs::remove_file(&out);
        }
    }
}

pub fn run(args: &[String]) -> i32 {
    if args.first().map(String::as_str) == Some("--options") {
        let v: Vec<_> = OPTIONS
            .iter()
            .map(|(n, a)| serde_json::json!({"name": n, "cli": a}))
            .collect();
        println!("{}", serde_json::to_string(&v).unwrap());
        return 0;
    }
    if std::env::var("VH_PANIC_VERBOSE").is_err() {
        std::panic::set_hook(Box::new(|_| {}));
    }
    let stdin = std::io::stdin();
    let stdout = std::io::stdout();
    for line in stdin.lock().lines() {
        let Ok(line) = line else { break };
        if line.trim().is_empty() {
            continue;
        }
        let req: Req = match serde_json::from_str(&line) {
            Ok(r) => r,
            Err(e) => {
                eprintln!("bad request: {e}");
                return 2;
            }
        };
        let t0 = Instant::now();
        let mut res = Res {
            tag: req.tag.clone(),
            entry: req.entry.clone(),
            ..Default::default()
        };
        match req.entry.as_str() {
            "lib" => run_lib(&req, &mut res),
            "cli" => run_cli(&req, &mut res),
            other => {
                res.outcome = "harness".into();
                res.message = format!("unknown entry {other}");
            }
        }
        res.wall_ms = t0.elapsed().as_millis();
        let mut out = stdout.lock();
        let _ = writeln!(out, "{}", serde_json::to_string(&res).unwrap());
        let _ = out.flush();
    }
    0
}
