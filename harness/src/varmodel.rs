//! `vh varmodel [file]`: replay VarModel.tla cases (C07) against the real fontdrasil variation model.
//!
//! Input: ndjson (stdin or a file), one case per line as emitted by spec/VarModel.tla (`Emit`):
//!   n (axis count), den, locs (integer numerators, in the order to supply them), vals (per location one
//!   value per column, integer or [num, den]), defs (lists of 1-based input positions that define values).
//!   The spec's expectations in the same record are ignored here.
//! Output: one JSON line per case with what the public API returned, per variant
//!   A  tags ascending in axis order, locations inserted as given, complete locations
//!   B  same tags, locations inserted in another (seeded) order, zero coordinates omitted (sparse)
//!   C  tags *descending* in axis order (tag order != axis order), another insertion order
//! for each: outcome, model order, and per (definition, rounding) run the returned regions and deltas,
//! interpolate_from_deltas at every defined master and at the default, the scalar of every region at
//! every master, and (variant A) min/max of VariationRegion::scalar_at over a lattice of [-1,1]^n.
//! Nothing is judged here; a panic is data.

use std::{
    collections::{HashMap, HashSet},
    io::{BufRead, Write},
    panic::{AssertUnwindSafe, catch_unwind},
};

use fontdrasil::{
    coords::{NormalizedCoord, NormalizedLocation},
    types::Tag,
    variations::{RoundingBehaviour, VariationModel, VariationRegion},
};
use serde_json::{Value, json};

fn num(v: &Value) -> f64 {
    match v {
        Value::Array(a) if a.len() == 2 => a[0].as_f64().unwrap_or(f64::NAN) / a[1].as_f64().unwrap_or(f64::NAN),
        _ => v.as_f64().unwrap_or(f64::NAN),
    }
}

fn fl(x: f64) -> Value {
    if x.is_finite() {
        // -0.0 and 0.0 are the same number
        json!(if x == 0.0 { 0.0 } else { x })
    } else {
        json!(format!("{x}"))
    }
}

fn fls(xs: &[f64]) -> Value {
    Value::Array(xs.iter().map(|x| fl(*x)).collect())
}

struct Case {
    n: usize,
    /// locations in input order, coordinates by axis position
    locs: Vec<Vec<f64>>,
    /// per location the column values
    vals: Vec<Vec<f64>>,
    /// 0-based input positions
    defs: Vec<Vec<usize>>,
}

fn parse_case(v: &Value) -> Result<Case, String> {
    let n = v["n"].as_u64().ok_or("n")? as usize;
    let den = v["den"].as_f64().ok_or("den")?;
    let locs: Vec<Vec<f64>> = v["locs"]
        .as_array()
        .ok_or("locs")?
        .iter()
        .map(|l| l.as_array().map(|c| c.iter().map(|x| num(x) / den).collect()).unwrap_or_default())
        .collect();
    let vals: Vec<Vec<f64>> = v["vals"]
        .as_array()
        .ok_or("vals")?
        .iter()
        .map(|l| l.as_array().map(|c| c.iter().map(num).collect()).unwrap_or_default())
        .collect();
    let defs: Vec<Vec<usize>> = v["defs"]
        .as_array()
        .ok_or("defs")?
        .iter()
        .map(|l| l.as_array().map(|c| c.iter().map(|x| x.as_u64().unwrap_or(1) as usize - 1).collect()).unwrap_or_default())
        .collect();
    if locs.iter().any(|l| l.len() != n) || vals.len() != locs.len() {
        return Err("shape".into());
    }
    Ok(Case { n, locs, vals, defs })
}

struct Variant {
    name: &'static str,
    tags: Vec<Tag>,
    /// insertion order (input positions)
    order: Vec<usize>,
    sparse: bool,
    lattice: bool,
}

fn lcg(state: &mut u64) -> u64 {
    *state = state.wrapping_mul(6364136223846793005).wrapping_add(1442695040888963407);
    *state >> 33
}

fn shuffled(m: usize, seed: u64) -> Vec<usize> {
    let mut s = seed;
    let mut v: Vec<usize> = (0..m).collect();
    for i in (1..m).rev() {
        let j = (lcg(&mut s) % (i as u64 + 1)) as usize;
        v.swap(i, j);
    }
    v
}

fn loc_of(tags: &[Tag], coords: &[f64], sparse: bool) -> NormalizedLocation {
    tags.iter()
        .zip(coords)
        .filter(|(_, c)| !(sparse && **c == 0.0))
        .map(|(t, c)| (*t, NormalizedCoord::new(*c)))
        .collect()
}

fn lattice_steps(n: usize) -> i32 {
    // points per axis = 2 * steps + 1
    match n {
        1 => 16,
        2 => 8,
        3 => 4,
        _ => 2,
    }
}

fn region_json(tags: &[Tag], region: &VariationRegion) -> Value {
    Value::Array(
        tags.iter()
            .map(|t| match region.get(t) {
                Some(tent) => json!([fl(tent.min.to_f64()), fl(tent.peak.to_f64()), fl(tent.max.to_f64())]),
                None => Value::Null,
            })
            .collect(),
    )
}

fn run_variant(case: &Case, var: &Variant) -> Value {
    let m = case.locs.len();
    let dense: Vec<NormalizedLocation> = case.locs.iter().map(|c| loc_of(&var.tags, c, false)).collect();
    let supplied: Vec<NormalizedLocation> = case.locs.iter().map(|c| loc_of(&var.tags, c, var.sparse)).collect();

    let mut set = HashSet::new();
    for k in &var.order {
        set.insert(supplied[*k].clone());
    }
    let model = VariationModel::new(set, var.tags.clone());

    // model order as input positions
    let order: Vec<Value> = model
        .locations()
        .map(|l| match dense.iter().position(|d| d == l) {
            Some(p) => json!(p + 1),
            None => json!(format!("{l:?}")),
        })
        .collect();
    let default_loc = loc_of(&var.tags, &vec![0.0; case.n], false);

    let mut runs = Vec::new();
    let mut full_regions: Option<Vec<VariationRegion>> = None;
    for (d, def) in case.defs.iter().enumerate() {
        for (rnd, rounding) in [(0, RoundingBehaviour::None), (1, RoundingBehaviour::RoundTiesEven)] {
            let mut seqs: HashMap<NormalizedLocation, Vec<f64>> = HashMap::new();
            // insert in the variant's order
            for k in var.order.iter().filter(|k| def.contains(k)) {
                seqs.insert(supplied[*k].clone(), case.vals[*k].clone());
            }
            // `deltas` is the RoundTiesEven flavour; use it so that both public entry points are exercised
            let res = if rnd == 1 {
                model.deltas::<f64, f64>(&seqs)
            } else {
                model.deltas_with_rounding::<f64, f64>(&seqs, rounding)
            };
            let deltas = match res {
                Ok(d) => d,
                Err(e) => {
                    runs.push(json!({"d": d + 1, "rnd": rnd, "outcome": "error", "message": format!("{e}")}));
                    continue;
                }
            };
            if d == 0 && rnd == 0 && deltas.len() == m {
                full_regions = Some(deltas.iter().map(|(r, _)| r.clone()).collect());
            }
            let regions: Vec<Value> = deltas.iter().map(|(r, _)| region_json(&var.tags, r)).collect();
            let dvals: Vec<Value> = deltas.iter().map(|(_, v)| fls(v)).collect();
            // interpolate at every defined master (input positions, ascending) and at the default
            let mut at = Vec::new();
            let mut positions: Vec<usize> = def.clone();
            positions.sort();
            for k in &positions {
                let got: Vec<f64> = model.interpolate_from_deltas(&dense[*k], &deltas);
                at.push(json!([k + 1, fls(&got)]));
            }
            let at0: Vec<f64> = model.interpolate_from_deltas(&default_loc, &deltas);
            runs.push(json!({"d": d + 1, "rnd": rnd, "outcome": "ok", "regions": regions, "deltas": dvals,
                             "interp": at, "interp0": fls(&at0)}));
        }
    }

    let mut out = json!({"name": var.name, "outcome": "ok", "order": order, "runs": runs,
                         "supports_all": supplied.iter().all(|l| { let mut l = l.clone(); l.fit_to_axes(&var.tags); model.supports(&l) }),
                         "num_locations": model.num_locations()});
    if let Some(regions) = full_regions {
        // sm[j][i]: region of the j-th master (model order) at the i-th master's location (model order)
        let model_locs: Vec<&NormalizedLocation> = model.locations().collect();
        let sm: Vec<Value> = regions
            .iter()
            .map(|r| Value::Array(model_locs.iter().map(|l| fl(r.scalar_at(l).into_inner())).collect()))
            .collect();
        out["sm"] = Value::Array(sm);
        out["default_region_first"] = json!(regions.first().map(|r| r.is_default()).unwrap_or(false));
        if var.lattice {
            let steps = lattice_steps(case.n);
            let per = (2 * steps + 1) as usize;
            let total = per.pow(case.n as u32);
            let (mut lo, mut hi, mut bad) = (f64::INFINITY, f64::NEG_INFINITY, 0usize);
            let mut coords = vec![0.0; case.n];
            for idx in 0..total {
                let mut rest = idx;
                for c in coords.iter_mut() {
                    *c = ((rest % per) as i32 - steps) as f64 / steps as f64;
                    rest /= per;
                }
                let l = loc_of(&var.tags, &coords, false);
                for r in &regions {
                    let s = r.scalar_at(&l).into_inner();
                    if s.is_nan() {
                        bad += 1;
                    } else {
                        lo = lo.min(s);
                        hi = hi.max(s);
                    }
                }
            }
            out["lattice"] = json!({"points": total, "evaluations": total * regions.len(), "min": fl(lo), "max": fl(hi), "nan": bad});
        }
    }
    out
}

fn run_case(line: &str) -> Value {
    let v: Value = match serde_json::from_str(line) {
        Ok(v) => v,
        Err(e) => return json!({"outcome": "bad-request", "message": format!("{e}")}),
    };
    let case = match parse_case(&v) {
        Ok(c) => c,
        Err(e) => return json!({"outcome": "bad-request", "message": e}),
    };
    let m = case.locs.len();
    let seed = v["seed"].as_u64().unwrap_or(1)
        ^ case.locs.iter().flatten().fold(0xcbf29ce484222325u64, |h, c| (h ^ c.to_bits()).wrapping_mul(0x100000001b3));
    let asc: Vec<Tag> = (0..case.n).map(|a| Tag::new(&[b'a', b'x', b'0', b'1' + a as u8])).collect();
    let desc: Vec<Tag> = (0..case.n).map(|a| Tag::new(&[b'Z', b'z', b'0', b'9' - a as u8])).collect();
    let variants = [
        Variant { name: "A", tags: asc.clone(), order: (0..m).collect(), sparse: false, lattice: true },
        Variant { name: "B", tags: asc, order: shuffled(m, seed), sparse: true, lattice: false },
        Variant { name: "C", tags: desc, order: shuffled(m, seed ^ 0x9e3779b97f4a7c15), sparse: false, lattice: false },
    ];
    let mut outs = Vec::new();
    for var in &variants {
        let res = catch_unwind(AssertUnwindSafe(|| run_variant(&case, var)));
        outs.push(match res {
            Ok(v) => v,
            Err(p) => {
                let msg = p
                    .downcast_ref::<String>()
                    .cloned()
                    .or_else(|| p.downcast_ref::<&str>().map(|s| s.to_string()))
                    .unwrap_or_else(|| "panic".into());
                json!({"name": var.name, "outcome": "panic", "message": msg})
            }
        });
    }
    json!({"outcome": "ok", "variants": outs})
}

pub fn run(args: &[String]) -> i32 {
    // keep panics of the code under test quiet; they are reported as data
    std::panic::set_hook(Box::new(|_| {}));
    let input: Box<dyn BufRead> = match args.first() {
        Some(path) => match std::fs::File::open(path) {
            Ok(f) => Box::new(std::io::BufReader::new(f)),
            Err(e) => {
                eprintln!("vh varmodel: cannot open {path}: {e}");
                return 2;
            }
        },
        None => Box::new(std::io::BufReader::new(std::io::stdin())),
    };
    let stdout = std::io::stdout();
    let mut out = std::io::BufWriter::new(stdout.lock());
    for line in input.lines() {
        let Ok(line) = line else { break };
        if line.trim().is_empty() {
            continue;
        }
        let res = run_case(&line);
        if writeln!(out, "{res}").is_err() {
            return 2;
        }
    }
    let _ = out.flush();
    0
}
