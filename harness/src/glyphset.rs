//! `vh glyphset`: compile a source (or read a font) and project what property C06 talks about.
//!
//! stdin: one JSON request per line. A request is a `CompileReq` (see compile.rs: src, flags, no_flags, tag,
//! out, ...) or `{"tag":..,"font":"<path to a compiled font>"}`. stdout: one JSON line per request:
//!
//! {"tag","outcome":"ok"|"error"|"panic"|"unreadable","message",
//!  "num_glyphs": maxp.numGlyphs,
//!  "post": {"version": 0x00020000, "num_glyphs": n, "names": [...]}   raw post table (no gidN fallback)
//!  "advances": [hmtx advance per gid]       (the check gives every source glyph its own advance, so this is
//!                                            the identity of a glyph independent of its post name)
//!  "cmap": [{"platform","encoding","format","map":[[cp,gid],...]}]    every subtable separately
//!  "glyf": [{"kind":"empty"|"simple"|"composite","comps":[gid,...]}]  per gid
//!  "gsub": [{"type":t,"cov":[gid..],"single":[[gid,gid]..]}]          per lookup subtable
//!  "gpos": [{"type":t,"cov":[gid..],"pairs":[[gid,gid,xadv]..]}]      per lookup subtable
//!  "gdef_classes": [[gid,class]..]}
//!
//! Nothing is interpreted here: the comparison with the expectation computed by spec/GlyphSet.tla is done by
//! checks/c06.py.

use std::io::{BufRead, Write};

use serde_json::{Map, Value, json};
use write_fonts::read::{
    FontRef, TableProvider,
    tables::{
        cmap::CmapSubtable,
        glyf::Glyph,
        gpos::{PairPos, PositionSubtables},
        gsub::{SingleSubst, SubstitutionSubtables},
        layout::CoverageTable,
    },
    types::GlyphId,
};

use crate::compile::{CompileReq, compile, panic_message};

fn cov_gids(cov: &CoverageTable) -> Vec<u32> {
    cov.iter().map(|g| g.to_u32()).collect()
}

fn project_cmap(font: &FontRef) -> Result<Value, String> {
    let cmap = font.cmap().map_err(|e| format!("cmap: {e}"))?;
    let mut out = Vec::new();
    for rec in cmap.encoding_records() {
        let st = rec
            .subtable(cmap.offset_data())
            .map_err(|e| format!("cmap subtable: {e}"))?;
        let (format, map): (u16, Vec<(u32, u32)>) = match &st {
            CmapSubtable::Format4(t) => (4, t.iter().map(|(c, g)| (c, g.to_u32())).collect()),
            CmapSubtable::Format12(t) => (12, t.iter().map(|(c, g)| (c, g.to_u32())).collect()),
            other => (other.format(), vec![]),
        };
        out.push(json!({"platform": rec.platform_id() as u16, "encoding": rec.encoding_id(),
            "format": format, "map": map}));
    }
    Ok(json!(out))
}

fn project_post(font: &FontRef) -> Result<Value, String> {
    let post = font.post().map_err(|e| format!("post: {e}"))?;
    let version = post.version().to_major_minor();
    let n = post.num_glyphs().unwrap_or(0);
    let mut names = Vec::new();
    for gid in 0..n {
        names.push(post.glyph_name(write_fonts::types::GlyphId16::new(gid)).map(|s| s.to_string()));
    }
    Ok(json!({"version": [version.0, version.1], "num_glyphs": n, "names": names}))
}

fn project_glyf(font: &FontRef, ng: u32) -> Result<Value, String> {
    let loca = font.loca(None).map_err(|e| format!("loca: {e}"))?;
    let glyf = font.glyf().map_err(|e| format!("glyf: {e}"))?;
    let mut v = Vec::new();
    for gid in 0..ng {
        v.push(match loca.get_glyf(GlyphId::new(gid), &glyf) {
            Ok(None) => json!({"kind": "empty", "comps": []}),
            Ok(Some(Glyph::Simple(_))) => json!({"kind": "simple", "comps": []}),
            Ok(Some(Glyph::Composite(c))) => {
                let comps: Vec<u32> = c.components().map(|k| k.glyph.to_u32()).collect();
                json!({"kind": "composite", "comps": comps})
            }
            Err(e) => json!({"kind": "error", "message": e.to_string(), "comps": []}),
        });
    }
    Ok(json!(v))
}

fn project_gsub(font: &FontRef) -> Result<Value, String> {
    let Ok(gsub) = font.gsub() else {
        return Ok(Value::Null);
    };
    let mut out = Vec::new();
    let llist = gsub.lookup_list().map_err(|e| format!("GSUB lookup list: {e}"))?;
    for (i, lk) in llist.lookups().iter().enumerate() {
        let lk = lk.map_err(|e| format!("GSUB lookup {i}: {e}"))?;
        let ty = lk.lookup_type();
        let subtables = lk.subtables().map_err(|e| format!("GSUB lookup {i}: {e}"))?;
        match subtables {
            SubstitutionSubtables::Single(subs) => {
                for st in subs.iter() {
                    let st = st.map_err(|e| format!("GSUB lookup {i} subtable: {e}"))?;
                    let mut single: Vec<(u32, u32)> = Vec::new();
                    let cov = match st {
                        SingleSubst::Format1(t) => {
                            let cov = t.coverage().map_err(|e| format!("coverage: {e}"))?;
                            let d = t.delta_glyph_id() as i32;
                            for g in cov.iter() {
                                single.push((g.to_u32(), (g.to_u32() as i32 + d).rem_euclid(65536) as u32));
                            }
                            cov_gids(&cov)
                        }
                        SingleSubst::Format2(t) => {
                            let cov = t.coverage().map_err(|e| format!("coverage: {e}"))?;
                            for (g, s) in cov.iter().zip(t.substitute_glyph_ids()) {
                                single.push((g.to_u32(), s.get().to_u32()));
                            }
                            cov_gids(&cov)
                        }
                    };
                    out.push(json!({"lookup": i, "type": ty, "cov": cov, "single": single}));
                }
            }
            _ => {
                // the check only generates single substitutions; anything else is reported as is
                out.push(json!({"lookup": i, "type": ty, "cov": Value::Null, "single": []}));
            }
        }
    }
    Ok(json!(out))
}

fn project_gpos(font: &FontRef, ng: u32) -> Result<Value, String> {
    let Ok(gpos) = font.gpos() else {
        return Ok(Value::Null);
    };
    let mut out = Vec::new();
    let llist = gpos.lookup_list().map_err(|e| format!("GPOS lookup list: {e}"))?;
    for (i, lk) in llist.lookups().iter().enumerate() {
        let lk = lk.map_err(|e| format!("GPOS lookup {i}: {e}"))?;
        let ty = lk.lookup_type();
        let subtables = lk.subtables().map_err(|e| format!("GPOS lookup {i}: {e}"))?;
        match subtables {
            PositionSubtables::Pair(subs) => {
                for st in subs.iter() {
                    let st = st.map_err(|e| format!("GPOS lookup {i} subtable: {e}"))?;
                    let mut pairs: Vec<(u32, u32, i32)> = Vec::new();
                    let cov = match st {
                        PairPos::Format1(t) => {
                            let cov = t.coverage().map_err(|e| format!("coverage: {e}"))?;
                            for (g, ps) in cov.iter().zip(t.pair_sets().iter()) {
                                let ps = ps.map_err(|e| format!("pair set: {e}"))?;
                                for rec in ps.pair_value_records().iter() {
                                    let rec = rec.map_err(|e| format!("pair record: {e}"))?;
                                    pairs.push((
                                        g.to_u32(),
                                        rec.second_glyph().to_u32(),
                                        rec.value_record1().x_advance().unwrap_or(0) as i32,
                                    ));
                                }
                            }
                            cov_gids(&cov)
                        }
                        PairPos::Format2(t) => {
                            let cov = t.coverage().map_err(|e| format!("coverage: {e}"))?;
                            let cd1 = t.class_def1().map_err(|e| format!("classdef1: {e}"))?;
                            let cd2 = t.class_def2().map_err(|e| format!("classdef2: {e}"))?;
                            let recs = t.class1_records();
                            for g in cov.iter() {
                                let c1 = cd1.get(g) as usize;
                                let Ok(c1rec) = recs.get(c1) else { continue };
                                for g2 in 0..ng {
                                    let c2 = cd2.get(GlyphId::new(g2)) as usize;
                                    if let Ok(c2rec) = c1rec.class2_records().get(c2) {
                                        let xadv = c2rec.value_record1().x_advance().unwrap_or(0) as i32;
                                        if xadv != 0 {
                                            pairs.push((g.to_u32(), g2, xadv));
                                        }
                                    }
                                }
                            }
                            cov_gids(&cov)
                        }
                    };
                    out.push(json!({"lookup": i, "type": ty, "cov": cov, "pairs": pairs}));
                }
            }
            _ => out.push(json!({"lookup": i, "type": ty, "cov": Value::Null, "pairs": []})),
        }
    }
    Ok(json!(out))
}

fn project_font(data: &[u8]) -> Result<Map<String, Value>, String> {
    let font = FontRef::new(data).map_err(|e| format!("cannot parse font: {e}"))?;
    let mut out = Map::new();
    let ng = font.maxp().map_err(|e| format!("maxp: {e}"))?.num_glyphs() as u32;
    out.insert("num_glyphs".into(), json!(ng));
    out.insert("post".into(), project_post(&font)?);
    let hmtx = font.hmtx().map_err(|e| format!("hmtx: {e}"))?;
    let adv: Vec<Option<u16>> = (0..ng).map(|g| hmtx.advance(GlyphId::new(g))).collect();
    out.insert("advances".into(), json!(adv));
    out.insert("cmap".into(), project_cmap(&font)?);
    out.insert("glyf".into(), project_glyf(&font, ng)?);
    out.insert("gsub".into(), project_gsub(&font)?);
    out.insert("gpos".into(), project_gpos(&font, ng)?);
    let mut classes: Vec<(u32, u16)> = Vec::new();
    if let Ok(gdef) = font.gdef()
        && let Some(Ok(cd)) = gdef.glyph_class_def()
    {
        for g in 0..ng {
            let c = cd.get(GlyphId::new(g));
            if c != 0 {
                classes.push((g, c));
            }
        }
    }
    out.insert("gdef_classes".into(), json!(classes));
    Ok(out)
}

fn handle(line: &str) -> Value {
    let raw: Value = match serde_json::from_str(line) {
        Ok(v) => v,
        Err(e) => return json!({"outcome": "bad_request", "message": e.to_string()}),
    };
    let tag = raw.get("tag").and_then(|t| t.as_str()).unwrap_or("").to_string();
    let mut out = Map::new();
    out.insert("tag".into(), json!(tag));
    let bytes: Vec<u8> = if let Some(path) = raw.get("font").and_then(|f| f.as_str()) {
        match std::fs::read(path) {
            Ok(b) => {
                out.insert("outcome".into(), json!("ok"));
                out.insert("message".into(), json!(""));
                b
            }
            Err(e) => {
                out.insert("outcome".into(), json!("unreadable"));
                out.insert("message".into(), json!(e.to_string()));
                return Value::Object(out);
            }
        }
    } else {
        let req: CompileReq = match serde_json::from_value(raw) {
            Ok(r) => r,
            Err(e) => return json!({"tag": tag, "outcome": "bad_request", "message": e.to_string()}),
        };
        let (res, font) = compile(&req);
        out.insert("outcome".into(), json!(res.outcome));
        out.insert("message".into(), json!(res.message));
        out.insert("wall_ms".into(), json!(res.wall_ms as u64));
        match font {
            Some(b) => b,
            None => return Value::Object(out),
        }
    };
    // reading the font back is also wrapped: a panic in the reader is data, not a harness crash
    match std::panic::catch_unwind(|| project_font(&bytes)) {
        Ok(Ok(m)) => out.extend(m),
        Ok(Err(e)) => {
            out.insert("outcome".into(), json!("unreadable"));
            out.insert("message".into(), json!(e));
        }
        Err(p) => {
            out.insert("outcome".into(), json!("unreadable"));
            out.insert("message".into(), json!(format!("reader panic: {}", panic_message(p))));
        }
    }
    Value::Object(out)
}

pub fn run(args: &[String]) -> i32 {
    if std::env::var("VH_PANIC_VERBOSE").is_err() {
        std::panic::set_hook(Box::new(|_| {}));
    }
    let reader: Box<dyn BufRead> = match args.first() {
        Some(path) => match std::fs::File::open(path) {
            Ok(f) => Box::new(std::io::BufReader::new(f)),
            Err(e) => {
                eprintln!("cannot open {path}: {e}");
                return 2;
            }
        },
        None => Box::new(std::io::BufReader::new(std::io::stdin())),
    };
    let stdout = std::io::stdout();
    for line in reader.lines() {
        let Ok(line) = line else { break };
        if line.trim().is_empty() {
            continue;
        }
        let v = handle(&line);
        let mut out = stdout.lock();
        let _ = writeln!(out, "{v}");
        let _ = out.flush();
    }
    0
}
