//! Shared helpers for reading fonts back (read-fonts / skrifa): names, drawing, metrics, IVS deltas.
#![allow(dead_code)]

use serde_json::{Value, json};
use skrifa::{
    GlyphId, MetadataProvider,
    instance::{LocationRef, Size},
    outline::{DrawSettings, OutlinePen},
    raw::{FontRef, TableProvider, types::F2Dot14},
};

/// Glyph names in glyph order (post table; falls back to gidN).
pub fn glyph_names(font: &FontRef) -> Vec<String> {
    let n = font.maxp().map(|m| m.num_glyphs()).unwrap_or(0) as u32;
    let names = font.glyph_names();
    (0..n)
        .map(|gid| {
            names
                .get(GlyphId::new(gid))
                .map(|n| n.to_string())
                .unwrap_or_else(|| format!("gid{gid}"))
        })
        .collect()
}

pub fn f2dot14s(coords: &[f64]) -> Vec<F2Dot14> {
    coords.iter().map(|c| F2Dot14::from_f32(*c as f32)).collect()
}

#[derive(Default)]
struct PathPen {
    cmds: Vec<Value>,
}

impl OutlinePen for PathPen {
    fn move_to(&mut self, x: f32, y: f32) {
        self.cmds.push(json!(["M", x, y]));
    }
    fn line_to(&mut self, x: f32, y: f32) {
        self.cmds.push(json!(["L", x, y]));
    }
    fn quad_to(&mut self, cx0: f32, cy0: f32, x: f32, y: f32) {
        self.cmds.push(json!(["Q", cx0, cy0, x, y]));
    }
    fn curve_to(&mut self, cx0: f32, cy0: f32, cx1: f32, cy1: f32, x: f32, y: f32) {
        self.cmds.push(json!(["C", cx0, cy0, cx1, cy1, x, y]));
    }
    fn close(&mut self) {
        self.cmds.push(json!(["Z"]));
    }
}

/// Draw glyph `gid` at normalized `coords`, unscaled, unhinted. None if it has no outline entry.
pub fn draw(font: &FontRef, gid: u32, coords: &[F2Dot14]) -> Option<Vec<Value>> {
    let glyph = font.outline_glyphs().get(GlyphId::new(gid))?;
    let mut pen = PathPen::default();
    let settings = DrawSettings::unhinted(Size::unscaled(), LocationRef::new(coords));
    glyph.draw(settings, &mut pen).ok()?;
    Some(pen.cmds)
}

/// (advance width, lsb) at normalized coords via skrifa (hmtx + HVAR, falling back to gvar phantoms).
pub fn h_metrics(font: &FontRef, gid: u32, coords: &[F2Dot14]) -> (Option<f32>, Option<f32>) {
    let gm = font.glyph_metrics(Size::unscaled(), LocationRef::new(coords));
    (
        gm.advance_width(GlyphId::new(gid)),
        gm.left_side_bearing(GlyphId::new(gid)),
    )
}

/// Normalized coordinates (after avar) for user coordinates given in fvar axis order.
pub fn normalize_user(font: &FontRef, user: &[f64]) -> Vec<F2Dot14> {
    let axes = font.axes();
    let loc = axes.location(
        axes.iter()
            .zip(user.iter())
            .map(|(a, v)| (a.tag(), *v as f32)),
    );
    loc.coords().to_vec()
}
