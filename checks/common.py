"""Shared machinery for the per-property checks: harness build, TLC runner, evidence, findings."""
import json, os, re, subprocess, sys, time, hashlib, shutil, random, concurrent.futures

VERIF = os.path.dirname(os.path.dirname(os.path.abspath(__file__)))
REPO = os.environ.get("VERIF_REPO", "/repo")
SPEC = os.path.join(VERIF, "spec")
HARNESS = os.path.join(VERIF, "harness")
VH = os.path.join(HARNESS, "target", "debug", "vh")
FONTC = os.path.join(HARNESS, "target", "debug", "fontc")
TESTDATA = os.path.join(REPO, "resources", "testdata")
TLA_CP = "/opt/veriftools/tla/tla2tools.jar:/opt/veriftools/tla/CommunityModules-deps.jar"


class ToolError(Exception):
    pass


def tool_error(msg):
    print("TOOL-ERROR: %s" % msg, flush=True)
    sys.exit(2)


def log(msg):
    print("[%s] %s" % (time.strftime("%H:%M:%S"), msg), flush=True)


# ----------------------------------------------------------------------------- context


class Ctx:
    def __init__(self, pid, tier, seed, replay=None):
        self.pid = pid
        self.tier = tier
        self.seed = seed
        self.replay = replay
        self.t0 = time.time()
        self.work = os.path.join(VERIF, "work", pid)
        shutil.rmtree(self.work, ignore_errors=True)
        os.makedirs(self.work, exist_ok=True)
        self.rng = random.Random(seed)
        self.ev = Evidence(self)
        self.violations = []  # (signature, replay_path, text)
        self.known = load_known(pid)
        self.known_hit = set()

    @property
    def quick(self):
        return self.tier == "quick"

    def path(self, *parts):
        p = os.path.join(self.work, *parts)
        os.makedirs(os.path.dirname(p), exist_ok=True)
        return p

    # -- reporting
    def violation(self, signature, what, replay_obj):
        """Report a property-level violation observed on the real code.

        signature: stable string identifying the failing input/call site/history; matched against
        KNOWN_FINDINGS.jsonl (prefix match on the `signature` field)."""
        for k in self.known:
            if k.get("status") == "open" and signature.startswith(k["signature"]):
                if k["signature"] not in self.known_hit:
                    self.known_hit.add(k["signature"])
                    print("KNOWN-FINDING: property=%s %s" % (self.pid, k["what"]), flush=True)
                self.ev.known += 1
                return False
        d = os.path.join(VERIF, "replays", self.pid)
        os.makedirs(d, exist_ok=True)
        name = "%s.json" % hashlib.sha1(signature.encode()).hexdigest()[:12]
        path = os.path.join(d, name)
        with open(path, "w") as f:
            json.dump({"property": self.pid, "signature": signature, "what": what, "seed": self.seed,
                       "tier": self.tier, "replay": replay_obj}, f, indent=1, default=str)
        if len(self.violations) < 20:
            print("VIOLATION property=%s replay=%s" % (self.pid, path), flush=True)
            print("  %s" % what[:2000], flush=True)
        self.violations.append((signature, path, what))
        return True

    def drift(self, module, what):
        self.ev.drift.append({"module": module, "what": what[:500]})
        if len(self.ev.drift) <= 10:
            print("DRIFT module=%s %s" % (module, what[:500]), flush=True)

    def finish(self):
        self.ev.write()
        if self.violations:
            log("%s: %d violation(s)" % (self.pid, len(self.violations)))
            sys.exit(1)
        log("%s: ok (%.0fs)" % (self.pid, time.time() - self.t0))
        sys.exit(0)


def load_known(pid):
    path = os.path.join(VERIF, "KNOWN_FINDINGS.jsonl")
    out = []
    if os.path.exists(path):
        for line in open(path):
            line = line.strip()
            if line and not line.startswith("#"):
                k = json.loads(line)
                if k.get("property") == pid:
                    out.append(k)
    return out


class Evidence:
    def __init__(self, ctx):
        self.ctx = ctx
        self.states = 0
        self.transitions = 0
        self.traces = 0
        self.evaluations = 0
        self.nontrivial = set()
        self.samples = []
        self.rule = ""
        self.drift = []
        self.known = 0
        self.exhaustive = None
        self.extra = {}
        self.assumptions = []
        self.tlc_runs = []

    def sample(self, obj, limit=6):
        if len(self.samples) < limit:
            self.samples.append(obj)

    def nontrivial_add(self, key):
        self.nontrivial.add(key if isinstance(key, (str, int, tuple)) else json.dumps(key, sort_keys=True))

    def add_tlc(self, res):
        self.states += res.distinct
        self.transitions += res.generated
        self.tlc_runs.append({"spec": res.spec, "cfg": res.cfg, "mode": res.mode, "distinct": res.distinct,
                              "generated": res.generated, "depth": res.depth, "wall_s": round(res.wall, 1),
                              "complete": res.complete, "coverage_zero": res.zero_cov[:20]})

    def write(self):
        ctx = self.ctx
        cov = {
            "states": max(self.states, 0),
            "transitions": max(self.transitions, 0),
            "traces_validated_against_impl": self.traces,
            "samples": self.samples if self.samples else ["(none recorded)"],
            "evaluations": self.evaluations,
            "distinct_nontrivial": len(self.nontrivial),
            "rule": self.rule,
            "drift": self.drift[:50],
            "known_finding_hits": self.known,
            "tlc_runs": self.tlc_runs,
        }
        if self.exhaustive is not None:
            cov["exhaustive"] = bool(self.exhaustive)
        cov.update(self.extra)
        doc = {
            "property_id": ctx.pid,
            "tier": ctx.tier,
            "seed": ctx.seed,
            "level": "model_checking",
            "coverage": cov,
            "assumptions": self.assumptions,
            "wall_s": round(time.time() - ctx.t0, 2),
            "violations": len(ctx.violations),
        }
        os.makedirs(os.path.join(VERIF, "evidence"), exist_ok=True)
        with open(os.path.join(VERIF, "evidence", "%s.json" % ctx.pid), "w") as f:
            json.dump(doc, f, indent=1, default=str)


# ----------------------------------------------------------------------------- harness


_built = False

# which harness binaries each check needs (besides vh and fontc); a compile error in any OTHER module's
# binary must not stop this check (cargo --keep-going leaves the others alone)
CHECK_BINS = {
    "C03": ["vh-instancing"], "C04": ["vh-instancing"], "C05": ["vh-sfnt", "vh-summary"], "C06": ["vh-glyphset"],
    "C07": ["vh-varmodel"], "C08": ["vh-coords"], "C09": ["vh-kerning"], "C10": ["vh-marks"],
    "C11": ["vh-feasem"], "C12": ["vh-components"], "C13": ["vh-feaparse"], "C14": ["vh-persist"],
    "C16": ["vh-featvars"], "C17": ["vh-summary", "vh-sfnt"], "C18": ["vh-names"], "C19": ["vh-limits"],
    "C20": ["vh-routes"],
}
CURRENT_PID = None


def build_harness(need=None):
    """Rebuild the harness binaries + the fontc CLI from /repo's working tree (hooks on). Incremental.

    Every module is its own binary (vh-<module>); only a failure to build a binary this check needs
    (vh, fontc, CHECK_BINS[pid] or `need`) is an error."""
    global _built
    if _built:
        return
    env = dict(os.environ)
    env["CARGO_NET_OFFLINE"] = "true"
    needed = {"vh", "fontc"} | set(need or CHECK_BINS.get(CURRENT_PID or "", []))
    t = time.time()
    r = subprocess.run(["cargo", "build", "--offline", "-p", "vh", "-p", "fontc", "--bins", "--keep-going"],
                       cwd=HARNESS, env=env, capture_output=True, text=True)
    if r.returncode != 0:
        failed = set(re.findall(r'could not compile `\w+` \(bin "([\w-]+)"\)', r.stderr))
        libfail = re.findall(r"could not compile `([\w-]+)` \(lib\)", r.stderr)
        if libfail or (failed & needed) or not failed:
            sys.stderr.write(r.stderr[-4000:])
            tool_error("harness build failed: %s" % sorted((failed & needed) or libfail or ["?"]))
        log("note: other modules' binaries do not build right now (ignored): %s" % sorted(failed))
    for b in needed:
        if not os.path.exists(os.path.join(HARNESS, "target", "debug", b)):
            tool_error("harness binary %s missing after build" % b)
    log("harness built in %.0fs" % (time.time() - t))
    _built = True


def vh(args, input=None, timeout=600, env=None):
    e = dict(os.environ)
    if env:
        e.update(env)
    return subprocess.run([VH] + list(args), input=input, capture_output=True, text=True, timeout=timeout, env=e)


def vh_batch(reqs, procs=8, timeout=1800, module="batch", extra_args=()):
    """Run requests through `vh <module>` in `procs` parallel processes; returns results in order."""
    if not reqs:
        return []
    procs = max(1, min(procs, len(reqs)))
    chunks = [reqs[i::procs] for i in range(procs)]

    def run(chunk):
        inp = "\n".join(json.dumps(r) for r in chunk) + "\n"
        r = subprocess.run([VH, module] + list(extra_args), input=inp, capture_output=True, text=True,
                           timeout=timeout)
        out = [json.loads(l) for l in r.stdout.splitlines() if l.startswith("{")]
        return r.returncode, out, r.stderr

    results = [None] * len(reqs)
    with concurrent.futures.ThreadPoolExecutor(procs) as ex:
        futs = {ex.submit(run, c): k for k, c in enumerate(chunks)}
        for f in concurrent.futures.as_completed(futs):
            k = futs[f]
            rc, out, err = f.result()
            idxs = list(range(k, len(reqs), procs))
            for n, o in enumerate(out):
                if n < len(idxs):
                    results[idxs[n]] = o
            if len(out) < len(idxs):
                # the process died (abort / stack overflow) on request number len(out)
                results[idxs[len(out)]] = {"outcome": "crash", "rc": rc, "message": err[-500:],
                                           "tag": chunks[k][len(out)].get("tag", "")}
                # run the rest of the chunk again in a fresh process
                rest = chunks[k][len(out) + 1:]
                if rest:
                    more = vh_batch(rest, 1, timeout, module, extra_args)
                    for n, o in enumerate(more):
                        results[idxs[len(out) + 1 + n]] = o
    return results


# ----------------------------------------------------------------------------- TLC


class TlcResult:
    pass


_RE_STATES = re.compile(r"(\d+) states generated, (\d+) distinct states found, (\d+) states left on queue")
_RE_DEPTH = re.compile(r"The depth of the complete state graph search is (\d+)")


def run_tlc(ctx, spec, cfg, workers=4, timeout=600, env=None, simulate=None, depth=None, extra=(), xmx="4g",
            deque=False, coverage=False, seed=None, tag=None, dfid=None, deadlock=None):
    """Run TLC on spec/<spec>.tla with spec/<cfg>. Returns TlcResult (never raises on violations)."""
    tag = tag or cfg.replace(".cfg", "")
    ctx._tlc_n = getattr(ctx, "_tlc_n", 0) + 1
    meta = os.path.join(ctx.work, "tlc", "%s_%d" % (tag, ctx._tlc_n))
    shutil.rmtree(meta, ignore_errors=True)
    os.makedirs(meta, exist_ok=True)
    jopts = ["-XX:+UseParallelGC", "-Xss1g", "-Xmx" + xmx]
    if deque:
        jopts.append("-Dtlc2.tool.queue.IStateQueue=StateDeque")
    cmd = ["java"] + jopts + ["-cp", TLA_CP, "tlc2.TLC", "-workers", str(workers), "-metadir", meta, "-cleanup",
                              "-noGenerateSpecTE", "-config", os.path.join(SPEC, cfg)]
    if coverage:
        cmd += ["-coverage", "1"]
    if simulate is not None:
        cmd += ["-simulate", "num=%d" % simulate]
        if depth:
            cmd += ["-depth", str(depth)]
        cmd += ["-seed", str(seed if seed is not None else ctx.seed)]
    if deadlock is True:
        pass
    elif deadlock is False:
        cmd += ["-deadlock"]
    cmd += list(extra)
    cmd += [os.path.join(SPEC, spec if spec.endswith(".tla") else spec + ".tla")]
    e = dict(os.environ)
    if env:
        e.update({k: str(v) for k, v in env.items()})
    t = time.time()
    timed_out = False
    try:
        p = subprocess.run(cmd, cwd=meta, env=e, capture_output=True, text=True, timeout=timeout)
        out = p.stdout + p.stderr
        rc = p.returncode
    except subprocess.TimeoutExpired as ex:
        out = (ex.stdout.decode() if isinstance(ex.stdout, bytes) else (ex.stdout or ""))
        rc = -9
        timed_out = True
    r = TlcResult()
    r.spec, r.cfg, r.out, r.rc, r.wall, r.timed_out = spec, cfg, out, rc, time.time() - t, timed_out
    r.mode = "simulate" if simulate is not None else "bfs"
    m = _RE_STATES.findall(out)
    if not m:
        m = re.findall(r"(\d[\d,]*) states generated \([^)]*\), (\d[\d,]*) distinct states found \([^)]*\), (\d[\d,]*) states left", out)
        m = [tuple(x.replace(",", "") for x in t) for t in m]
    r.generated, r.distinct, r.left = (int(m[-1][0]), int(m[-1][1]), int(m[-1][2])) if m else (0, 0, 0)
    if simulate is not None:
        m2 = re.findall(r"Progress: (\d+) states checked, (\d+) traces generated", out)
        if m2:
            r.generated, r.distinct, r.left = int(m2[-1][0]), int(m2[-1][0]), 0
            r.sim_traces = int(m2[-1][1])
    m = _RE_DEPTH.search(out)
    r.depth = int(m.group(1)) if m else 0
    r.violated = None
    m = re.search(r"Error: Invariant (\S+) is violated", out)
    if m:
        r.violated = m.group(1)
    elif "Error: Deadlock reached" in out:
        r.violated = "Deadlock"
    elif re.search(r"Error: Temporal properties were violated", out):
        r.violated = "Temporal"
    elif "Error: Action property" in out or "Error: Postcondition" in out:
        r.violated = "Property"
    r.error = None
    if r.violated is None and ("Error:" in out or rc not in (0,)):
        if not timed_out:
            m = re.search(r"Error: (.*)", out)
            r.error = (m.group(1) if m else "rc=%d" % rc)
    r.complete = ("Model checking completed" in out and r.left == 0 and r.violated is None and r.error is None)
    r.prints = [l for l in out.splitlines() if l.startswith("<<") or l.startswith('"')]
    r.zero_cov = []
    if coverage:
        for m in re.finditer(r"<(\w+) line \d+, col \d+ to line \d+, col \d+ of module (\w+)>: (\d+):(\d+)", out):
            if int(m.group(4)) == 0 and m.group(1) not in ("Init",):
                r.zero_cov.append(m.group(1))
    with open(os.path.join(meta, "tlc.out"), "w") as f:
        f.write(out)
    r.meta = meta
    ctx.ev.add_tlc(r)
    return r


def tlc_trace_text(out, limit=200):
    """The counterexample part of a TLC output."""
    lines = out.splitlines()
    keep = []
    on = False
    for l in lines:
        if l.startswith("Error:"):
            on = True
        if on:
            keep.append(l)
        if len(keep) > limit:
            break
    return "\n".join(keep)


def replay_lines(out, marker="REPLAY"):
    """Extract JSON payloads printed by TLC as <<"REPLAY", "json...">> (PrintT of a tuple)."""
    res = []
    pat = re.compile(r'^<<"%s", "(.*)">>$' % marker)
    for l in out.splitlines():
        m = pat.match(l)
        if m:
            s = m.group(1).encode().decode("unicode_escape") if "\\" in m.group(1) else m.group(1)
            try:
                res.append(json.loads(s))
            except Exception:
                try:
                    res.append(json.loads(m.group(1).replace('\\"', '"')))
                except Exception as ex:
                    raise ToolError("cannot parse REPLAY line: %s (%s)" % (l[:200], ex))
    return res


def sha256_file(path):
    h = hashlib.sha256()
    with open(path, "rb") as f:
        for b in iter(lambda: f.read(1 << 16), b""):
            h.update(b)
    return h.hexdigest()


def fixtures(exts=(".designspace", ".glyphs", ".ufo", ".glyphspackage")):
    """All candidate source fixtures under resources/testdata (sorted, relative paths)."""
    out = []
    for root, dirs, files in os.walk(TESTDATA):
        rel = os.path.relpath(root, TESTDATA)
        keep = []
        for d in sorted(dirs):
            p = os.path.join(root, d)
            if d.endswith(".ufo") or d.endswith(".glyphspackage"):
                if d.endswith(exts):
                    out.append(os.path.normpath(os.path.join(rel, d)))
            elif d.endswith(".fontra"):
                pass
            else:
                keep.append(d)
        dirs[:] = keep
        for f in sorted(files):
            if f.endswith(exts) and not f.endswith(".ufo"):
                out.append(os.path.normpath(os.path.join(rel, f)))
    return sorted(out)


# ----------------------------------------------------------------------------- fontc CLI as a subprocess


def run_fontc(src, out, extra=(), timeout=30, mem_gb=8, env=None, binary=None):
    """Run the fontc binary on `src` writing `out`. Returns an observation dict:
    how: exited|signaled|timedout, status, signal, font: none|valid|garbage, diag (bool), stderr (tail), wall."""
    import resource, signal as _signal

    def limits():
        try:
            resource.setrlimit(resource.RLIMIT_AS, (mem_gb << 30, mem_gb << 30))
            resource.setrlimit(resource.RLIMIT_CORE, (0, 0))
        except Exception:
            pass

    if os.path.exists(out):
        os.remove(out)
    e = dict(os.environ)
    e["SOURCE_DATE_EPOCH"] = "1700000000"
    if env:
        e.update(env)
    build_dir = out + ".build"
    cmd = [binary or FONTC, src, "-o", out, "--build-dir", build_dir] + list(extra)
    t = time.time()
    obs = {"how": "exited", "status": 0, "signal": 0}
    try:
        p = subprocess.run(cmd, capture_output=True, timeout=timeout, env=e, preexec_fn=limits)
        err = p.stderr.decode("utf-8", "replace")
        if p.returncode < 0:
            obs["how"] = "signaled"
            obs["signal"] = -p.returncode
        else:
            obs["status"] = p.returncode
    except subprocess.TimeoutExpired as ex:
        obs["how"] = "timedout"
        err = (ex.stderr or b"").decode("utf-8", "replace") if isinstance(ex.stderr, (bytes, type(None))) else str(ex.stderr)
    obs["wall"] = round(time.time() - t, 3)
    obs["stderr"] = err[-600:]
    obs["diag"] = bool(err.strip())
    if os.path.exists(out) and os.path.getsize(out) > 0:
        obs["font"] = "valid" if font_parses(out) else "garbage"
    elif os.path.exists(out):
        obs["font"] = "garbage"
    else:
        obs["font"] = "none"
    shutil.rmtree(build_dir, ignore_errors=True)
    return obs


def font_parses(path):
    """Structural sanity of an sfnt file: directory in bounds, required tables present (cheap, stdlib only)."""
    import struct
    try:
        data = open(path, "rb").read()
        if len(data) < 12:
            return False
        ver, n = struct.unpack(">IH", data[:6])
        if ver not in (0x00010000, 0x4F54544F) or n == 0 or 12 + 16 * n > len(data):
            return False
        tags = set()
        for i in range(n):
            tag, _cs, off, ln = struct.unpack(">4sIII", data[12 + 16 * i: 28 + 16 * i])
            if off + ln > len(data):
                return False
            tags.add(tag.decode("latin1"))
        return {"head", "maxp", "cmap", "hmtx", "hhea", "name", "post"} <= tags
    except Exception:
        return False


def parallel(fn, items, procs=8):
    with concurrent.futures.ThreadPoolExecutor(procs) as ex:
        return list(ex.map(fn, items))
