"""Parsing of hook traces (ndjson) into a job graph + access sets."""
import json, collections


def norm_item(item):
    """FE context items print as `Glyph(a)`; BE ones as `Be(Glyf)` / `Fe(..)`. Normalise to AnyWorkId form."""
    if item.startswith("Fe(") or item.startswith("Be("):
        return item
    return "Fe(%s)" % item


def load(path):
    evs = []
    with open(path) as f:
        for line in f:
            line = line.strip()
            if line:
                evs.append(json.loads(line))
    return evs


class Graph:
    """What one traced build did."""

    def __init__(self, evs):
        self.evs = evs
        self.jobs = {}  # id -> dict(kind, disc, read (initial), write, also, creator, order)
        self.rewrites = collections.defaultdict(list)  # creator(HS id) -> [(id, access)]
        self.creates = collections.defaultdict(list)  # HS id -> [ids]
        self.skipbe = collections.defaultdict(list)  # HS id -> [ids]
        self.reads = collections.defaultdict(set)  # job -> items read with present=true
        self.reads_absent = collections.defaultdict(set)
        self.writes = collections.defaultdict(set)  # job -> items written with changed=true
        self.nopwrites = collections.defaultdict(set)
        self.main_reads = collections.defaultdict(set)  # HS id (or "init") -> items
        self.start = {}
        self.end = {}
        self.end_ok = {}
        self.launch = {}
        self.hs = {}  # id -> seq of HandleSuccess
        self.recv = {}
        self.disk_reads = []
        self.readbacks = []
        self.order = []  # JobStart order
        self.unable = None
        self.exec_ok = False
        cur_hs = None
        for e in evs:
            ev = e["ev"]
            if ev == "Insert":
                self.jobs[e["id"]] = dict(kind=e["kind"], disc=e["disc"], read=e["read"], write=e["write"],
                                          also=[], creator=cur_hs, seq=e["seq"])
                if cur_hs is not None:
                    self.creates[cur_hs].append(e["id"])
            elif ev == "AlsoCompletes":
                # emitted before the Insert of the owner
                self._pending_also = (e["id"], e["also"])
            elif ev == "Rewrite":
                self.rewrites[cur_hs].append((e["id"], e["read"]))
            elif ev == "SkipBe":
                self.skipbe[cur_hs].append(e["id"])
            elif ev == "HandleSuccess":
                cur_hs = e["id"]
                self.hs[e["id"]] = e["seq"]
            elif ev == "HandleSuccessEnd":
                cur_hs = None
            elif ev == "Launch":
                self.launch[e["id"]] = e["seq"]
            elif ev == "JobStart":
                self.start[e["id"]] = e["seq"]
                self.order.append(e["id"])
            elif ev == "JobEnd":
                self.end[e["id"]] = e["seq"]
                self.end_ok[e["id"]] = e["ok"]
            elif ev == "Recv":
                self.recv[e["id"]] = e["seq"]
            elif ev == "Read":
                it = norm_item(e["item"])
                if e["job"] == "main":
                    self.main_reads[cur_hs or "init"].add(it)
                elif e["present"]:
                    self.reads[e["job"]].add(it)
                else:
                    self.reads_absent[e["job"]].add(it)
            elif ev == "Write":
                it = norm_item(e["item"])
                if e["changed"]:
                    self.writes[e["job"]].add(it)
                else:
                    self.nopwrites[e["job"]].add(it)
            elif ev == "DiskRead":
                self.disk_reads.append((e["job"], norm_item(e["item"])))
            elif ev == "Readback":
                self.readbacks.append((e["job"], norm_item(e["item"]), e["how"], e["outcome"]))
            elif ev == "Unable":
                self.unable = e["n"]
            elif ev == "ExecReturn":
                self.exec_ok = e["ok"]
        # also-completes ownership
        for e in evs:
            if e["ev"] == "AlsoCompletes":
                if e["id"] in self.jobs:
                    self.jobs[e["id"]]["also"] = list(e["also"])

    def real_jobs(self):
        return [j for j, d in self.jobs.items() if d["kind"] == "real"]

    def conflicts(self):
        """Pairs (a, b, items) of executed jobs touching the same item, at least one writing (changed)."""
        out = []
        ran = [j for j in self.order if j in self.end]
        acc = {j: (self.reads.get(j, set()) | self.reads_absent.get(j, set()) | self.nopwrites.get(j, set()),
                   self.writes.get(j, set())) for j in ran}
        for i, a in enumerate(ran):
            ra, wa = acc[a]
            for b in ran[i + 1:]:
                rb, wb = acc[b]
                items = (wa & (rb | wb)) | (wb & ra)
                if items:
                    out.append((a, b, items))
        return out

    def ordered(self, a, b):
        """True if a's JobEnd was recorded before b's JobStart in this trace."""
        return a in self.end and b in self.start and self.end[a] < self.start[b]
