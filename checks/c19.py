"""C19 Values that do not fit the binary format are rejected, never wrapped.

Decided by spec/Limits.tla (+ LimitsObs.tla):
 (R) TLC enumerates the cases (one field at a boundary value, pairs of fields; LimitsGen*.cfg) together with the
     allowed outcome set of every item; this file turns each case into a real source (MiniFont -> UFO /
     designspace, a Glyphs file for the instance width class), compiles it with the fontc CLI in BOTH build
     profiles (dev = overflow checks + debug assertions on; `relsem` = both off) as subprocesses under a
     timeout, and measures the result (`vh limits`: raw glyf deltas, component records, hmtx, GPOS values and
     their IVS deltas, anchors, OS/2, maxp, outlines drawn by skrifa at the master locations);
 (O) the observations go back to TLC (LimitsObs.tla) which classifies every item (Exact / Fallback / Error /
     Wrapped / Clamped / Distorted ...) and evaluates the acceptance relation: each build acceptable and both
     profiles agreeing in outcome class and in bytes.
Property-level (VIOLATION): verdict "reject".  Internal (DRIFT): a representable value that is rejected with an
error; which diagnostic / which fallback was chosen is only recorded.
"""
import concurrent.futures, copy, hashlib, json, math, os, shutil, subprocess, time
import common, minifont

RELSEM = os.path.join(common.HARNESS, "target", "relsem", "fontc")
VHLIMITS = os.path.join(common.HARNESS, "target", "debug", "vh-limits")
BIN = {}     # private copies of the binaries used by this run: dbg, rel, vh-limits
BIG = 1000000
PERCENT = {50.0: 1, 62.5: 2, 75.0: 3, 87.5: 4, 100.0: 5, 112.5: 6, 125.0: 7, 150.0: 8, 200.0: 9}  # OS/2 usWidthClass


# ----------------------------------------------------------------------------- release-semantics binary


def build_relsem():
    env = dict(os.environ)
    env["CARGO_NET_OFFLINE"] = "true"
    t = time.time()
    r = subprocess.run(["cargo", "build", "--offline", "-q", "--profile", "relsem", "-p", "fontc", "--bins"],
                       cwd=common.HARNESS, env=env, capture_output=True, text=True)
    if r.returncode != 0 or not os.path.exists(RELSEM):
        raise common.ToolError("relsem build of fontc failed: %s" % r.stderr[-2000:])
    common.log("release-semantics fontc built in %.0fs" % (time.time() - t))


def private_binaries(ctx):
    """The target directory is shared: another check's build may replace a binary while this run uses it.
    Work from private copies taken right after our own build."""
    for key, src in (("dbg", common.FONTC), ("rel", RELSEM), ("vh-limits", VHLIMITS)):
        dst = ctx.path("bin", key)
        for attempt in range(60):
            try:
                shutil.copy2(src, dst)
                break
            except (FileNotFoundError, OSError):
                time.sleep(5)          # being relinked by somebody's cargo build
        else:
            raise common.ToolError("binary %s does not exist" % src)
        BIN[key] = dst


def vh_limits_batch(reqs, procs=8, timeout=1800):
    """ndjson requests through the private copy of vh-limits, `procs` processes; results in request order."""
    if not reqs:
        return []
    procs = max(1, min(procs, len(reqs)))
    chunks = [reqs[i::procs] for i in range(procs)]

    def run(chunk):
        inp = "\n".join(json.dumps(r) for r in chunk) + "\n"
        r = subprocess.run([BIN["vh-limits"]], input=inp, capture_output=True, text=True, timeout=timeout)
        out = [json.loads(l) for l in r.stdout.splitlines() if l.startswith("{")]
        if len(out) != len(chunk):
            raise common.ToolError("vh-limits answered %d of %d requests: %s" % (len(out), len(chunk), r.stderr[-500:]))
        return out

    results = [None] * len(reqs)
    with concurrent.futures.ThreadPoolExecutor(procs) as ex:
        for k, out in enumerate(ex.map(run, chunks)):
            for n, o in enumerate(out):
                results[k + n * procs] = o
    return results


# ----------------------------------------------------------------------------- geometry (measurement only)


def path_polys(path):
    """skrifa pen commands -> list of closed polylines (curves flattened by sampling)."""
    polys, cur = [], []
    for c in path or []:
        op = c[0]
        if op == "M":
            if cur:
                polys.append(cur)
            cur = [(c[1], c[2])]
        elif op == "L":
            cur.append((c[1], c[2]))
        elif op == "Q":
            x0, y0 = cur[-1]
            for k in range(1, 9):
                t = k / 8.0
                cur.append(((1 - t) ** 2 * x0 + 2 * t * (1 - t) * c[1] + t * t * c[3],
                            (1 - t) ** 2 * y0 + 2 * t * (1 - t) * c[2] + t * t * c[4]))
        elif op == "C":
            x0, y0 = cur[-1]
            for k in range(1, 9):
                t = k / 8.0
                cur.append(((1 - t) ** 3 * x0 + 3 * t * (1 - t) ** 2 * c[1] + 3 * t * t * (1 - t) * c[3] + t ** 3 * c[5],
                            (1 - t) ** 3 * y0 + 3 * t * (1 - t) ** 2 * c[2] + 3 * t * t * (1 - t) * c[4] + t ** 3 * c[6]))
        elif op == "Z":
            if cur:
                polys.append(cur)
            cur = []
    if cur:
        polys.append(cur)
    return polys


def _segments(polys):
    segs = []
    for p in polys:
        n = len(p)
        for i in range(n):
            segs.append((p[i], p[(i + 1) % n]))
    return segs


def _dist_point_seg(p, s):
    (x, y), ((x0, y0), (x1, y1)) = p, s
    dx, dy = x1 - x0, y1 - y0
    L = dx * dx + dy * dy
    t = 0.0 if L == 0 else max(0.0, min(1.0, ((x - x0) * dx + (y - y0) * dy) / L))
    return math.hypot(x - (x0 + t * dx), y - (y0 + t * dy))


def _directed(a, b, samples=8):
    sb = _segments(b)
    if not sb:
        return BIG if a else 0
    worst = 0.0
    for (p0, p1) in _segments(a):
        for k in range(samples):
            t = k / float(samples)
            p = (p0[0] + t * (p1[0] - p0[0]), p0[1] + t * (p1[1] - p0[1]))
            worst = max(worst, min(_dist_point_seg(p, s) for s in sb))
    return worst


def shape_dev(expected_polys, path):
    """Symmetric (sampled) Hausdorff distance between the source's outline and the drawn one, rounded up."""
    got = path_polys(path)
    if not expected_polys and not got:
        return 0
    if not expected_polys or not got:
        return BIG
    d = max(_directed(expected_polys, got), _directed(got, expected_polys))
    return min(BIG, int(math.ceil(d - 1e-9)))


def xform_poly(poly, xf):
    a, b, c, d, e, f = xf
    return [(a * x + c * y + e, b * x + d * y + f) for (x, y) in poly]


# ----------------------------------------------------------------------------- case -> source


SQ_R = [(50, 0), (450, 0), (450, 700), (50, 700)]
SQ_B = [(40, 0), (560, 0), (560, 700), (40, 700)]


def contour(pts):
    return [[x, y, "line"] for (x, y) in pts]


def stones(v, step=30000):
    s = step if v > 0 else -step
    return list(range(0, v, s)) + [v]


def coord_points(v, axis):
    """A contour with one extreme at v on `axis`; no two successive points are more than 30000 apart."""
    xs = stones(v)
    out = [(x, (i % 2) * 10) for i, x in enumerate(xs[:-1])] + [(v, 0), (v, 100)]
    back = [(x, 100 + (i % 2) * 10) for i, x in reversed(list(enumerate(xs[:-1])))]
    pts = out + back
    return pts if axis == "x" else [(y, x) for (x, y) in pts]


def factor(n, kmax=700, pmax=1200):
    """n = k * p with k components of p points each."""
    for k in range(min(kmax, n), 1, -1):
        if n % k == 0 and n // k <= pmax:
            return k, n // k
    raise common.ToolError("cannot factor %d" % n)


def grid_contours(npoints, per=4):
    """Small closed contours on a grid with `npoints` points in total (3- and 4-point contours)."""
    sizes = []
    left = npoints
    while left > 0:
        k = per if (left - per == 0 or left - per >= 3) else 3
        k = min(k, left)
        sizes.append(k)
        left -= k
    cs = []
    for i, k in enumerate(sizes):
        x0, y0 = (i % 100) * 20, (i // 100) * 20
        pts = [(x0, y0), (x0 + 10, y0), (x0 + 10, y0 + 10), (x0, y0 + 10)][:k]
        cs.append(pts)
    return cs


class Source:
    """A MiniFont under construction plus the probes that read each item's value back."""

    def __init__(self, src):
        self.var = src == "var"
        names = ("a", "b")
        self.mf = minifont.template_wght(names) if self.var else minifont.template_static(names)
        if not self.var:
            self.mf["as_ufo"] = True
        self.masters = [m["name"] for m in self.mf["masters"]]
        self.locs = [[0.0], [1.0]] if self.var else [[]]
        self.glyphs = []          # names to read back
        self.pairs = []
        self.marks = []
        self.probes = []          # one per item: fn(readback) -> (has_stored, stored, has_picture, pic_dev)
        self.path = None          # set for non-MiniFont sources
        self.timeout = 120
        self.big = False
        self.glyphs_text = None
        self.extra = []           # extra CLI flags

    # -- helpers
    def add_glyph(self, name, layers, unicodes=None):
        """layers: list (per master) of layer dicts"""
        self.mf["glyphs"].append({"name": name, "unicodes": unicodes or [],
                                  "layers": {m: l for m, l in zip(self.masters, layers)}})
        self.glyphs.append(name)

    def per_master(self, v0, v1=None):
        return [v0, v0 if v1 is None else v1][:len(self.masters)]

    def base_polys(self):
        return self.per_master([SQ_R], [SQ_B])

    def outline_probe(self, g, expected, stored_fn):
        """expected: per master list of polygons"""

        def probe(rb):
            hs, st = stored_fn(rb)
            dev = 0
            for li in range(len(self.locs)):
                at = rb["at"][li]["glyphs"].get(g) or {}
                dev = max(dev, shape_dev(expected[li], at.get("path")))
            return hs, st, True, dev
        return probe

    def ensure_mark(self):
        if not any(g["name"] == "acutecomb" for g in self.mf["glyphs"]):
            lay = {"width": 0, "contours": [contour([(80, 520), (120, 520), (100, 600)])],
                   "anchors": [{"name": "_top", "x": 100, "y": 500}]}
            self.mf["glyphs"].append({"name": "acutecomb", "unicodes": [0x301],
                                      "layers": {m: copy.deepcopy(lay) for m in self.masters}})
            self.mf["categories"] = {"acutecomb": "mark", "a": "base", "b": "base"}

    def glyph_layer(self, name, mi):
        for g in self.mf["glyphs"]:
            if g["name"] == name:
                return g["layers"][self.masters[mi]]
        raise KeyError(name)

    # -- items
    def add(self, field, v, case, item=None):
        if field in ("comp_xx_nx", "comp_xx_fl"):
            getattr(self, "f_" + field)(v, case, item)
        else:
            getattr(self, "f_" + field)(v, case)

    def _coord(self, v, axis, g):
        pts = coord_points(v, axis)
        k = 0 if axis == "x" else 1
        self.add_glyph(g, self.per_master({"width": 500, "contours": [contour(pts)]}))

        def stored(rb):
            raw = (rb["glyphs"].get(g) or {}).get("raw")
            if not raw:
                return False, 0
            cs = [p[k] for p in raw["points"]]
            return True, (max(cs) if v > 0 else min(cs))
        self.probes.append(self.outline_probe(g, self.per_master([pts]), stored))

    def f_coord_x(self, v, case):
        self._coord(v, "x", "cx")

    def f_coord_y(self, v, case):
        self._coord(v, "y", "cy")

    def f_lsb(self, v, case):
        w = 1 if v > 0 else 100
        pts = [(v, 0), (v + w, 50), (v, 100)]
        self.add_glyph("lb", self.per_master({"width": 500, "contours": [contour(pts)]}))

        def probe(rb):      # the hmtx field alone (the outline is the business of coord_x)
            g = rb["glyphs"].get("lb") or {}
            return (g.get("lsb") is not None), g.get("lsb") or 0, False, 0
        self.probes.append(probe)

    def _pdelta(self, v, axis, g):
        x0 = -((v + 1) // 2)
        pts = [(x0, 0), (x0 + v, 0), (x0 + v, 100), (x0, 100)]
        if axis == "y":
            pts = [(y, x) for (x, y) in pts]
        self.add_glyph(g, self.per_master({"width": 500, "contours": [contour(pts)]}))
        key = "dx" if axis == "x" else "dy"

        def stored(rb):
            raw = (rb["glyphs"].get(g) or {}).get("raw")
            if not raw or len(raw[key]) < 2:
                return False, 0
            return True, max(abs(d) for d in raw[key][1:])
        self.probes.append(self.outline_probe(g, self.per_master([pts]), stored))

    def f_pdelta_x(self, v, case):
        # (v > 65535, the case named in the property record, puts both ends beyond the coordinate range too)
        self._pdelta(v, "x", "px")

    def f_pdelta_y(self, v, case):
        self._pdelta(v, "y", "py")

    def _component(self, g, xf, slot):
        self.add_glyph(g, self.per_master({"width": 500, "components": [{"base": "a", "xform": xf}]}))
        expected = [[xform_poly(p, xf) for p in polys] for polys in self.base_polys()]

        def stored(rb):
            gl = rb["glyphs"].get(g) or {}
            comps = gl.get("components") or []
            if gl.get("kind") != "composite" or len(comps) != 1 or comps[0]["by_point"]:
                return False, 0
            return True, comps[0][slot]
        self.probes.append(self.outline_probe(g, expected, stored))

    def f_comp_dx(self, v, case):
        self._component("kdx", [1, 0, 0, 1, v, 0], "dx")

    def f_comp_dy(self, v, case):
        self._component("kdy", [1, 0, 0, 1, 0, v], "dy")

    def f_comp_xx(self, v, case):
        self._component("kxx", [v / 16384.0, 0, 0, 1, 0, 0], "xx")

    def f_comp_xy(self, v, case):
        # UFO xyScale is the second coefficient of the affine (y' = xyScale * x + yScale * y)
        self._component("kxy", [1, v / 16384.0, 0, 1, 0, 0], "yx")

    def _composed(self, top, mid, item, export_mid):
        """`top` = component of `mid` scaled a, `mid` = component of `a` scaled b (x scales, q14): the drawn glyph
        is `a` scaled a*b.  The value only exists in the font if the two levels are merged into one component."""
        fa, fb = item["a"] / 16384.0, item["b"] / 16384.0
        self.add_glyph(mid, self.per_master({"width": 500, "components": [{"base": "a", "xform": [fb, 0, 0, 1, 0, 0]}]}))
        self.add_glyph(top, self.per_master({"width": 500, "components": [{"base": mid, "xform": [fa, 0, 0, 1, 0, 0]}]}))
        self.glyphs = [g for g in self.glyphs if g != mid]
        if not export_mid:
            self.mf["skip_export"] = list(self.mf.get("skip_export") or []) + [mid]
        xf = [fa * fb, 0, 0, 1, 0, 0]
        expected = [[xform_poly(p, xf) for p in polys] for polys in self.base_polys()]

        def stored(rb):
            gl = rb["glyphs"].get(top) or {}
            comps = gl.get("components") or []
            # only a single component that references `a` directly carries the composed value
            if gl.get("kind") != "composite" or len(comps) != 1 or comps[0]["by_point"] or comps[0]["name"] != "a":
                return False, 0
            return True, comps[0]["xx"]
        self.probes.append(self.outline_probe(top, expected, stored))

    def f_comp_xx_nx(self, v, case, item):
        self._composed("nn", "np", item, export_mid=False)

    def f_comp_xx_fl(self, v, case, item):
        self._composed("ft", "fm", item, export_mid=True)
        self.extra = ["--flatten-components=true"]

    def f_advance(self, v, case):
        self.add_glyph("w", self.per_master({"width": v, "contours": [contour(SQ_R)]}))

        def probe(rb):
            g = rb["glyphs"].get("w") or {}
            if g.get("advance") is None:
                return False, 0, True, BIG
            dev = 0
            for li in range(len(self.locs)):
                adv = (rb["at"][li]["glyphs"].get("w") or {}).get("advance")
                dev = max(dev, BIG if adv is None else abs(adv - v))
            return True, g["advance"], True, min(BIG, dev)
        self.probes.append(probe)

    def _vertical(self):
        for m in self.mf["masters"]:
            m.setdefault("info", {}).update({"openTypeVheaVertTypoAscender": 500, "openTypeVheaVertTypoDescender": -500,
                                             "openTypeVheaVertTypoLineGap": 0})

    def f_vadvance(self, v, case):
        self._vertical()
        self.add_glyph("vh", self.per_master({"width": 500, "height": v, "contours": [contour(SQ_R)]}))

        def probe(rb):
            g = rb["glyphs"].get("vh") or {}
            return (g.get("vadvance") is not None), g.get("vadvance") or 0, False, 0
        self.probes.append(probe)

    def f_tsb(self, v, case):
        # top side bearing = vertical origin - yMax, both chosen inside the 16-bit range
        self._vertical()
        vo = v // 2 if v > 0 else -((1 - v) // 2)
        ymax = vo - v
        pts = [(0, ymax - 100), (100, ymax - 100), (50, ymax)]
        self.add_glyph("tb", self.per_master({"width": 500, "height": 1000, "contours": [contour(pts)],
                                              "lib": {"public.verticalOrigin": vo}}))

        def probe(rb):
            g = rb["glyphs"].get("tb") or {}
            return (g.get("tsb") is not None), g.get("tsb") or 0, False, 0
        self.probes.append(probe)

    def _kern(self, vals):
        for m, k in zip(self.mf["masters"], vals):
            m["kerning"] = {"a": {"b": k}}
        self.pairs.append(["a", "b"])

    def _pair_probe(self, expected, stored_of):
        def probe(rb):
            p = (rb.get("pairs") or [{}])[0]
            if not p.get("found"):
                return False, 0, True, min(BIG, max(abs(e) for e in expected))
            val = p["value"]
            dev = max(abs(val["x_advance"] + val["deltas"][li] - expected[li]) for li in range(len(self.locs)))
            hs, st = stored_of(val)
            return hs, st, True, min(BIG, dev)
        return probe

    def f_kern(self, v, case):
        self._kern(self.per_master(v))
        self.probes.append(self._pair_probe(self.per_master(v), lambda val: (True, val["x_advance"])))

    def f_kern_delta(self, v, case):
        k0 = -((v + 1) // 2) if v > 0 else (-v) // 2
        self._kern([k0, k0 + v])
        self.probes.append(self._pair_probe([k0, k0 + v], lambda val: (val["var"], val["deltas"][1])))

    def _anchor(self, base, xs, ys):
        self.ensure_mark()
        for mi in range(len(self.masters)):
            self.glyph_layer(base, mi)["anchors"] = [{"name": "top", "x": xs[mi], "y": ys[mi]}]
        self.marks.append([base, "acutecomb"])
        return len(self.marks) - 1

    def _anchor_probe(self, k, axis, expected, delta):
        dk = "dx" if axis == "x" else "dy"

        def probe(rb):
            m = (rb.get("marks") or [])
            m = m[k] if k < len(m) else {}
            if not m.get("found"):
                return False, 0, True, BIG
            a = m["base_anchor"]
            dev = max(abs(a[axis] + a[dk][li] - expected[li]) for li in range(len(self.locs)))
            if delta:
                return a["var"], a[dk][1], True, min(BIG, dev)
            return True, a[axis], True, min(BIG, dev)
        return probe

    def f_anchor_x(self, v, case):
        k = self._anchor("a", self.per_master(v), self.per_master(700))
        self.probes.append(self._anchor_probe(k, "x", self.per_master(v), False))

    def f_anchor_y(self, v, case):
        k = self._anchor("b", self.per_master(200), self.per_master(v))
        self.probes.append(self._anchor_probe(k, "y", self.per_master(v), False))

    def f_anchor_delta(self, v, case):
        x0 = -((v + 1) // 2) if v > 0 else (-v) // 2
        k = self._anchor("a", [x0, x0 + v], [700, 700])
        self.probes.append(self._anchor_probe(k, "x", [x0, x0 + v], True))

    def f_gvar_delta(self, v, case):
        x0 = -((v + 1) // 2) if v > 0 else (-v) // 2
        p0 = [(0, 0), (x0, 50), (0, 100)]
        p1 = [(0, 0), (x0 + v, 50), (0, 100)]
        self.add_glyph("gv", [{"width": 500, "contours": [contour(p0)]}, {"width": 500, "contours": [contour(p1)]}])

        def stored(rb):
            g = rb["glyphs"].get("gv") or {}
            tuples = (rb.get("gvar") or {}).get("gv") or []
            n = g.get("num_points") or 0
            ds = [d[1] for t in tuples for d in t["deltas"] if d[0] < n]
            if not ds:
                return False, 0
            return True, max(ds, key=abs)
        self.probes.append(self.outline_probe("gv", [[p0], [p1]], stored))

    def f_compoff_delta(self, v, case):
        x0 = -((v + 1) // 2) if v > 0 else (-v) // 2
        xs = [x0, x0 + v]
        self.add_glyph("kv", [{"width": 500, "components": [{"base": "a", "xform": [1, 0, 0, 1, x, 0]}]} for x in xs])
        expected = [[xform_poly(p, [1, 0, 0, 1, x, 0]) for p in polys] for polys, x in zip(self.base_polys(), xs)]

        def stored(rb):
            g = rb["glyphs"].get("kv") or {}
            tuples = (rb.get("gvar") or {}).get("kv") or []
            if g.get("kind") != "composite":
                return False, 0
            ds = [d[1] for t in tuples for d in t["deltas"] if d[0] == 0]
            if not ds:
                return False, 0
            return True, max(ds, key=abs)
        self.probes.append(self.outline_probe("kv", expected, stored))

    def f_adv_delta(self, v, case):
        w0 = 0 if v > 0 else -v
        ws = [w0, w0 + v]
        self.add_glyph("wv", [{"width": w, "contours": [contour(SQ_R)]} for w in ws])

        def probe(rb):
            dev, hd = 0, None
            for li in range(2):
                at = (rb["at"][li]["glyphs"].get("wv") or {})
                adv = at.get("advance")
                dev = max(dev, BIG if adv is None else abs(adv - ws[li]))
                if li == 1:
                    hd = at.get("hvar_delta")
            if hd is None:
                return False, 0, True, min(BIG, dev)
            return True, int(round(hd)), True, min(BIG, dev)
        self.probes.append(probe)

    # -- counts
    def f_glyph_count(self, n, case):
        self.big = True
        self.timeout = 900
        # n glyphs: the 258 standard Macintosh names first (a post format 2 table holds at most 65278 other
        # names: its glyphNameIndex is a u16 starting at 258), then g00258, g00259 ...; neighbouring advances
        # differ, so hmtx has no trailing run and numberOfHMetrics = n
        std = std_names()
        names = ["a", "b"] + [x for x in std if x not in ("a", "b")] + ["g%05d" % i for i in range(len(std), n)]
        for i, nm in enumerate(names[2:], 2):
            self.mf["glyphs"].append({"name": nm, "unicodes": [], "layers": {self.masters[0]: {"width": 500 + i % 2}}})
        self.mf["glyph_order"] = [".notdef"] + [x for x in names if x != ".notdef"]
        self.count = n

        def probe(rb):
            ll = rb.get("loca_len")
            return True, rb["num_glyphs"], True, (BIG if ll is None else min(BIG, abs(ll - n)))
        self.probes.append(probe)

    def f_num_h_metrics(self, n, case):
        def probe(rb):
            v = rb.get("number_of_h_metrics")
            return (v is not None), v or 0, False, 0
        self.probes.append(probe)

    def _maxp_probe(self, key):
        def probe(rb):
            v = (rb.get("maxp") or {}).get(key)
            return (v is not None), v or 0, False, 0
        return probe

    def f_comp_points(self, v, case):
        linked = [it for it in case["items"] if it["field"] == "comp_contours"]
        if linked:
            n = linked[0]["v"]          # n contours of 3 points
            k, c = factor(n)
            base = [[(i * 20, 0), (i * 20 + 10, 0), (i * 20 + 5, 10)] for i in range(c)]
        else:
            k, p = factor(v)
            base = grid_contours(p)
        self.timeout = 180
        self.add_glyph("pp", self.per_master({"width": 500, "contours": [contour(c) for c in base]}))
        comps = [{"base": "pp", "xform": [1, 0, 0, 1, 0, 20 * i]} for i in range(k)]
        self.add_glyph("kp", self.per_master({"width": 500, "components": comps}))
        self.glyphs = [g for g in self.glyphs if g not in ("pp", "kp")]   # too big to draw; judged by maxp
        self.probes.append(self._maxp_probe("max_composite_points"))

    def f_comp_contours(self, v, case):
        self.probes.append(self._maxp_probe("max_composite_contours"))

    def f_glyph_points(self, v, case):
        self.timeout = 180
        self.add_glyph("gp", self.per_master({"width": 500, "contours": [contour(c) for c in grid_contours(v)]}))
        self.glyphs = [g for g in self.glyphs if g != "gp"]
        self.probes.append(self._maxp_probe("max_points"))

    def f_width_class(self, v, case):
        self.mf["masters"][0]["info"] = {"openTypeOS2WidthClass": v}

        def probe(rb):
            o = rb.get("os2")
            return (o is not None), (o or {}).get("width_class", 0), False, 0
        self.probes.append(probe)

    def f_width_class_g(self, v, case):
        # Glyphs 3 source, 'wdth' axis, masters at design 22 / 62 without axis locations: the instance width
        # classes give the user-space ends of the axis.  The tested instance sits at the low end unless v >= 9.
        low = v < 9
        other = 9 if low else 1
        lo_cls, hi_cls = (v, other) if low else (other, v)
        self.glyphs_text = GLYPHS_WDTH % {"lo": lo_cls, "hi": hi_cls}
        self.locs = [[0.0]]
        self.glyphs = []

        def probe(rb):
            axes = rb.get("axes") or []
            if len(axes) != 1:
                return False, 0, False, 0
            user = axes[0]["min"] if low else axes[0]["max"]
            cls = PERCENT.get(user)
            if cls is None:
                return False, 0, False, 0
            return True, cls, False, 0
        self.probes.append(probe)


GLYPHS_WDTH = """{
.appVersion = "3316";
.formatVersion = 3;
axes = (
{
name = Width;
tag = wdth;
}
);
familyName = MiniWdth;
fontMaster = (
{
axesValues = (
22
);
id = m01;
metricValues = (
{
pos = 800;
},
{
pos = 700;
},
{
pos = 500;
},
{
},
{
pos = -200;
}
);
name = Condensed;
},
{
axesValues = (
62
);
id = m02;
metricValues = (
{
pos = 800;
},
{
pos = 700;
},
{
pos = 500;
},
{
},
{
pos = -200;
}
);
name = Expanded;
}
);
glyphs = (
{
glyphname = space;
layers = (
{
layerId = m01;
width = 200;
},
{
layerId = m02;
width = 600;
}
);
unicode = 32;
},
{
glyphname = hyphen;
layers = (
{
layerId = m01;
shapes = (
{
closed = 1;
nodes = (
(151,250,l),
(451,250,l),
(451,330,l),
(151,330,l)
);
}
);
width = 600;
},
{
layerId = m02;
shapes = (
{
closed = 1;
nodes = (
(75,224,l),
(525,224,l),
(525,356,l),
(75,356,l)
);
}
);
width = 600;
}
);
unicode = 45;
}
);
instances = (
{
axesValues = (
22
);
instanceInterpolations = {
m01 = 1;
};
name = Low;
widthClass = %(lo)d;
},
{
axesValues = (
62
);
instanceInterpolations = {
m02 = 1;
};
name = High;
widthClass = %(hi)d;
}
);
metrics = (
{
type = ascender;
},
{
type = "cap height";
},
{
type = "x-height";
},
{
type = baseline;
},
{
type = descender;
}
);
unitsPerEm = 1000;
versionMajor = 1;
versionMinor = 0;
}
"""


_STD = []


def std_names():
    if not _STD:
        r = subprocess.run([BIN.get("vh-limits", VHLIMITS), "std-names"], capture_output=True, text=True, timeout=60)
        _STD.extend(json.loads(r.stdout))
        if len(_STD) != 258:
            raise common.ToolError("vh limits std-names: %s" % r.stderr[-300:])
    return _STD


def make_source(case, outdir):
    s = Source(case["src"])
    for it in case["items"]:
        s.add(it["field"], it["v"], case, it)
    os.makedirs(outdir, exist_ok=True)
    if s.glyphs_text is not None:
        s.path = os.path.join(outdir, "MiniWdth.glyphs")
        with open(s.path, "w") as f:
            f.write(s.glyphs_text)
    else:
        s.path = minifont.materialize(s.mf, os.path.join(outdir, "src"))
    return s


# ----------------------------------------------------------------------------- running


def observe(case, s, outdir, parallel=False):
    """Build with both profiles; returns {"dbg": obs, "rel": obs} (run_fontc observation + sha)."""
    res = {}
    os.makedirs(outdir, exist_ok=True)

    def one(prof, binary):
        out = os.path.join(outdir, "%s.ttf" % prof)
        # two worker threads per compiler process: the box is shared and 8 compilers run at a time; no
        # backtraces: symbolising one takes the debug binary tens of seconds on a loaded machine
        env = {"RAYON_NUM_THREADS": "2", "RUST_BACKTRACE": "0"}
        o = common.run_fontc(s.path, out, s.extra, timeout=s.timeout, binary=binary, mem_gb=16, env=env)
        if o["how"] == "timedout":
            # a build of these tiny sources takes well under a second; before calling it a hang give it
            # up to ten times the time once more (the machine may just be overloaded)
            o = common.run_fontc(s.path, out, s.extra, timeout=min(10 * s.timeout, 1800), binary=binary, mem_gb=16,
                                 env=env)
            o["retried_after_timeout"] = True
        o["sha"] = common.sha256_file(out) if os.path.exists(out) else ""
        o["out"] = out
        o["panic"] = "panicked" in o.get("stderr", "")
        res[prof] = o

    profiles = (("dbg", BIN["dbg"]), ("rel", BIN["rel"]))
    if parallel:
        with concurrent.futures.ThreadPoolExecutor(2) as ex:
            list(ex.map(lambda pb: one(*pb), profiles))
    else:
        for pb in profiles:
            one(*pb)
    return res


def grow_ufo(ufo, n0, n1):
    """Add the glyphs g<n0> .. g<n1-1> (empty, alternating advances) to the big UFO made for n0 glyphs."""
    import plistlib
    gdir = os.path.join(ufo, "glyphs")
    cpath, lpath = os.path.join(gdir, "contents.plist"), os.path.join(ufo, "lib.plist")
    contents = plistlib.load(open(cpath, "rb"))
    lib = plistlib.load(open(lpath, "rb"))
    for i in range(n0, n1):
        name, fn = "g%05d" % i, "g%04d.glif" % i
        with open(os.path.join(gdir, fn), "w") as f:
            f.write(minifont.glif(name, [], {"width": 500 + i % 2}))
        contents[name] = fn
        lib["public.glyphOrder"].append(name)
    plistlib.dump(contents, open(cpath, "wb"), sort_keys=True)
    plistlib.dump(lib, open(lpath, "wb"), sort_keys=True)


def run_big(ctx, cases, idxs):
    """The 65535-glyph sources: one UFO, grown from the smallest count to the largest, built in both profiles
    (concurrently) at each size; the 65536 files are written once and removed in the background."""
    import threading
    out = {}
    d = ctx.path("big", "x")[:-2]
    ufo, cur = None, None
    for k in sorted(idxs, key=lambda k: max(it["v"] for it in cases[k]["items"])):
        case = cases[k]
        s = Source(case["src"])
        for it in case["items"]:
            s.add(it["field"], it["v"], case)
        t = time.time()
        if ufo is None:
            ufo = minifont.materialize(s.mf, os.path.join(d, "src"))
        else:
            grow_ufo(ufo, cur, s.count)
        cur = s.count
        s.path = ufo
        s.mf = None
        obs = observe(case, s, os.path.join(d, "n%d" % cur), parallel=True)
        out[k] = (s, obs, time.time() - t)
        common.log("%d-glyph source built in both profiles in %.0fs" % (cur, time.time() - t))
    cleaner = threading.Thread(target=shutil.rmtree, args=(os.path.join(d, "src"),), kwargs={"ignore_errors": True})
    cleaner.start()
    return out, cleaner


def item_obs(s, o, rb):
    """Project the readback of one build into the per-item observation records of LimitsObs.tla."""
    if not (o["how"] == "exited" and o["status"] == 0 and o["font"] == "valid"):
        return []
    items = []
    for probe in s.probes:
        if rb is None or rb.get("outcome") != "ok":
            items.append({"has_stored": False, "stored": 0, "has_picture": True, "pic_dev": BIG})
            continue
        try:
            hs, st, hp, dev = probe(rb)
        except (KeyError, IndexError, TypeError) as ex:
            raise common.ToolError("probe failed on readback: %r" % (ex,))
        items.append({"has_stored": bool(hs), "stored": int(st), "has_picture": bool(hp), "pic_dev": int(dev)})
    return items


def case_key(case):
    def one(it):
        if it.get("a"):
            return "%s=%d(%dx%d)" % (it["field"], it["v"], it["a"], it["b"])
        return "%s=%d" % (it["field"], it["v"])
    return "%s|%s" % (case["src"], "+".join(one(it) for it in case["items"]))


def select_cases(ctx, cases):
    """Returns (must, optional): every single-field case on its natural source kind and the linked cases must
    run; the remaining ones (pairs of fields, single fields on a two-master source) are optional: a seeded 40 of
    them in the quick tier, in the thorough tier as many (seeded order) as fit into the build-time budget -
    all of them on a machine that is not overloaded."""
    must, rest = [], []
    for c in cases:
        single = len(c["items"]) == 1
        natural = c["src"] == "static" or c["items"][0]["kind"] in ("delta", "enum")
        linked = len(c["items"]) > 1 and any(it["kind"] == "count" for it in c["items"])
        (must if (single and natural) or linked else rest).append(c)
    rest.sort(key=case_key)
    ctx.rng.shuffle(rest)
    return must, (rest[:40] if ctx.quick else rest)


def signature_items(case, verdict, blame):
    """Signatures of the failing items of a rejected case (see docs/C19.md)."""
    sigs = []
    db, rb = verdict["dbg_build"], verdict["rel_build"]
    n = len(case["items"])
    both_fonts = db == "Font" and rb == "Font"
    for i, it in enumerate(case["items"]):
        f, d = it["field"], verdict["dirs"][i]
        allowed = set(verdict["allowed"][i])
        cd, cr = verdict["dbg_items"][i], verdict["rel_items"][i]
        if both_fonts or db == rb:
            if cd == cr:
                if db == "Font" and cd not in allowed or db not in ("Font", "Error"):
                    sigs.append("C19-KF1:%s:%s:%s" % (f, d, cd))
            else:
                sigs.append("C19-KF2:%s:%s:debug=%s,release=%s" % (f, d, cd, cr))
        else:
            # the builds differ as a whole; blame the items known (from single-field cases) to do that alone
            culprit = n == 1 or (f, d) in blame
            if culprit:
                sigs.append("C19-KF2:%s:%s:debug=%s,release=%s" % (f, d, cd, cr))
            else:
                for bc, c in ((db, cd), (rb, cr)):
                    if bc == "Font" and c not in allowed:
                        sigs.append("C19-KF1:%s:%s:%s" % (f, d, c))
                    elif bc not in ("Font", "Error"):
                        sigs.append("C19-KF1:%s:%s:%s" % (f, d, c))
    if not sigs:
        if both_fonts and not verdict["same"]:
            sigs.append("C19-KF2:%s:bytes-differ" % "+".join(sorted(it["field"] for it in case["items"])))
        else:
            sigs.append("C19-KF2:pair:%s:debug=%s,release=%s" % (
                "+".join("%s:%s" % (it["field"], verdict["dirs"][i]) for i, it in enumerate(case["items"])), db, rb))
    return sorted(set(sigs))


def main(ctx):
    common.build_harness()
    build_relsem()
    private_binaries(ctx)
    ev = ctx.ev
    ev.rule = ("a case is non-trivial when at least one of its items lies at, next to (<= 3 units) or beyond a limit "
               "of its field; distinct = distinct (source kind, field=value...) keys")
    # ---- (1) generator
    if ctx.replay:
        rep = json.load(open(ctx.replay))
        base = rep["replay"]["case"]
        cases = [base] + [dict(items=[it], src=base["src"]) for it in base["items"] if len(base["items"]) > 1]
        optional = []
        common.log("replaying %s (+ %d single-field companions)" % (case_key(base), len(cases) - 1))
    else:
        cfg = "LimitsGenQuick.cfg" if ctx.quick else "LimitsGenThorough.cfg"
        r = common.run_tlc(ctx, "Limits", cfg, workers=2, timeout=600)
        if r.violated or r.error or not r.complete:
            raise common.ToolError("Limits generator: %s" % (r.violated or r.error or "incomplete"))
        allcases = common.replay_lines(r.out)
        allcases.sort(key=case_key)
        cases, optional = select_cases(ctx, allcases)
        only = os.environ.get("C19_FIELDS")          # debugging aid: restrict the run to some fields
        if only:
            cases = [c for c in cases if all(it["field"] in only.split(",") for it in c["items"])]
            optional = [c for c in optional if all(it["field"] in only.split(",") for it in c["items"])]
        ev.extra["cases_generated"] = len(allcases)
        common.log("TLC generated %d cases: %d mandatory, %d optional" % (len(allcases), len(cases), len(optional)))

    # ---- (2) sources + builds (subprocesses, both profiles)
    def work(k):
        case = cases[k]
        d = ctx.path("cases", "%04d" % k, "x")[:-2]
        try:
            s = make_source(case, d)
            t = time.time()
            obs = observe(case, s, d)
        except OSError as ex:
            raise common.ToolError("cannot build case %s: %r" % (case_key(case), ex))
        return k, s, obs, time.time() - t

    is_big = lambda c: any(it["field"] == "glyph_count" for it in c["items"])
    results = {}
    t0 = time.time()
    bigpool = concurrent.futures.ThreadPoolExecutor(1)           # the 65535-glyph sources run alongside
    bigfut = bigpool.submit(run_big, ctx, cases, [k for k, c in enumerate(cases) if is_big(c)])
    small = [k for k, c in enumerate(cases) if not is_big(c)]
    with concurrent.futures.ThreadPoolExecutor(8) as ex:
        for k, s, obs, w in ex.map(work, small):
            results[k] = (s, obs, w)
        # optional cases: as many as the build-time budget allows at the speed measured so far
        budget = 150 if ctx.quick else 840
        per_case = (time.time() - t0) / max(1, len(small))
        n_opt = max(0, min(len(optional), int((budget - (time.time() - t0)) / max(per_case, 1e-3))))
        n_opt = max(n_opt, min(len(optional), 10 if ctx.quick else 60))     # some pairs run whatever the load
        first = len(cases)
        cases.extend(optional[:n_opt])
        common.log("%d mandatory cases built in %.0fs (%.2fs per case); running %d of %d optional cases" % (
            len(small), time.time() - t0, per_case, n_opt, len(optional)))
        for k, s, obs, w in ex.map(work, range(first, len(cases))):
            results[k] = (s, obs, w)
    bigres, cleaner = bigfut.result()
    results.update(bigres)
    bigpool.shutdown()
    ev.exhaustive = (not ctx.replay) and not os.environ.get("C19_FIELDS") and n_opt == len(optional) and not ctx.quick
    ev.extra["optional_cases_run"] = n_opt
    ev.extra["optional_cases_generated"] = len(optional)
    ev.extra["build_wall_s"] = round(time.time() - t0, 1)
    common.log("%d cases built in both profiles in %.0fs" % (len(cases), time.time() - t0))

    # ---- (3) read the fonts back
    reqs, where = [], []
    for k in range(len(cases)):
        s, obs, _ = results[k]
        for prof in ("dbg", "rel"):
            o = obs[prof]
            if o["how"] == "exited" and o["status"] == 0 and o["font"] == "valid":
                reqs.append({"tag": "%d:%s" % (k, prof), "font": o["out"], "glyphs": s.glyphs, "locs": s.locs,
                             "pairs": s.pairs, "marks": s.marks})
                where.append((k, prof))
    rbs = vh_limits_batch(reqs, procs=8, timeout=1200)
    readback = {}
    for (k, prof), rb in zip(where, rbs):
        if rb is None:
            raise common.ToolError("vh limits gave no answer for case %d" % k)
        readback[(k, prof)] = rb

    # ---- (4) observations -> TLC
    obs_path = ctx.path("obs.ndjson")
    recs = []
    with open(obs_path, "w") as f:
        for k, case in enumerate(cases):
            s, obs, _ = results[k]
            rec = {"id": k, "case": {"items": [{"field": it["field"], "v": it["v"]} for it in case["items"]],
                                     "src": case["src"]}}
            for prof in ("dbg", "rel"):
                o = obs[prof]
                rec[prof] = {"how": o["how"], "status": int(o["status"]), "font": o["font"], "sha": o["sha"],
                             "diag": bool(o["diag"]),
                             "items": item_obs(s, o, readback.get((k, prof)))}
            recs.append(rec)
            f.write(json.dumps(rec) + "\n")
    r = common.run_tlc(ctx, "LimitsObs", "LimitsObs.cfg", workers=2, timeout=600, env={"OBS": obs_path})
    if r.violated or r.error or not r.complete:
        raise common.ToolError("LimitsObs: %s" % (r.violated or r.error or "incomplete"))
    verdicts = {v["id"]: v for v in common.replay_lines(r.out, marker="VERDICT")}
    if len(verdicts) != len(cases):
        raise common.ToolError("LimitsObs judged %d of %d observations" % (len(verdicts), len(cases)))

    # ---- (5) report
    hist = {"dbg": {}, "rel": {}}
    by_panic = 0
    blame = set()
    for k, case in enumerate(cases):
        v = verdicts[k]
        if len(case["items"]) == 1 and v["dbg_build"] != v["rel_build"]:
            blame.add((case["items"][0]["field"], v["dirs"][0]))
    found = {}
    for k, case in enumerate(cases):
        s, obs, wall = results[k]
        v = verdicts[k]
        ev.traces += 2
        ev.evaluations += 1 + 2 * len(case["items"])
        for it in case["items"]:
            if it["dir"] != "in" or min(abs(it["v"] - it["lo"]), abs(it["v"] - it["hi"])) <= 3:
                ev.nontrivial_add(case_key(case))
        for prof in ("dbg", "rel"):
            for c in v[prof + "_items"]:
                hist[prof][c] = hist[prof].get(c, 0) + 1
            if v[prof + "_build"] == "Error" and obs[prof]["panic"]:
                by_panic += 1
        summary = {"case": {"items": case["items"], "src": case["src"]}, "verdict": v,
                   "observed": {p: {kk: obs[p][kk] for kk in ("how", "status", "signal", "font", "panic", "wall", "sha")}
                                for p in ("dbg", "rel")},
                   "stderr": {p: obs[p]["stderr"][-400:] for p in ("dbg", "rel")},
                   "items": {p: recs[k][p]["items"] for p in ("dbg", "rel")}}
        if k % max(1, len(cases) // 5) == 0:
            ev.sample(summary)
        if v["verdict"] == "drift":
            ctx.drift("Limits", "%s: every value is representable but the build fails: %s" % (
                case_key(case), (obs["dbg"]["stderr"] or obs["rel"]["stderr"]).strip().splitlines()[-1:]))
        elif v["verdict"] == "reject":
            if (v["dbg_build"] == "Font" and v["rel_build"] == "Font" and v["dbg_ok"] and v["rel_ok"]
                    and v["dbg_items"] == v["rel_items"] and s.mf is not None and os.path.exists(s.path)):
                # only the bytes differ: is it the profile, or is the output not repeatable at all (C01's business)?
                again = common.run_fontc(s.path, obs["dbg"]["out"] + ".again", s.extra, timeout=s.timeout, binary=BIN["dbg"],
                                         mem_gb=16, env={"RAYON_NUM_THREADS": "2", "RUST_BACKTRACE": "0"})
                sha2 = common.sha256_file(obs["dbg"]["out"] + ".again") if again["font"] == "valid" else ""
                if sha2 != obs["dbg"]["sha"]:
                    ctx.drift("Limits", "%s: two debug builds of the same source differ in bytes (not repeatable: C01), "
                              "so the debug/release byte comparison says nothing" % case_key(case))
                    continue
            for sig in signature_items(case, v, blame):
                found.setdefault(sig, []).append((k, summary))
    for sig in sorted(found):
        lst = found[sig]
        # the smallest source first: fewest items, smallest magnitude
        lst.sort(key=lambda e: (len(cases[e[0]]["items"]), cases[e[0]]["src"] != "static",
                                max(abs(it["v"]) for it in cases[e[0]]["items"])))
        k, summary = lst[0]
        case = cases[k]
        v = summary["verdict"]
        what = ("%s [%d case(s), smallest: %s]: allowed %s; debug build: %s %s, release build: %s %s%s; "
                "stored/picture debug %s release %s" % (
                    sig, len(lst), case_key(case), v["allowed"], v["dbg_build"], v["dbg_items"], v["rel_build"],
                    v["rel_items"], "" if v["same"] else " (profiles disagree)",
                    summary["items"]["dbg"], summary["items"]["rel"]))
        replay = dict(summary)
        replay["all_cases"] = [case_key(cases[e[0]]) for e in lst][:60]
        if results[k][0].mf is not None:
            replay["minifont"] = results[k][0].mf if results[k][0].glyphs_text is None else results[k][0].glyphs_text
        ctx.violation(sig, what, replay)
    ev.extra["item_outcomes"] = hist
    ev.extra["error_by_panic_builds"] = by_panic
    ev.extra["cases_run"] = len(cases)
    ev.extra["verdicts"] = {x: sum(1 for v in verdicts.values() if v["verdict"] == x) for x in ("accept", "drift", "reject")}
    ev.extra["rejected_signatures"] = {sig: len(lst) for sig, lst in found.items()}
    ev.assumptions = [
        "the dev profile of the harness (overflow-checks, debug-assertions on) stands for debug builds and the "
        "`relsem` profile (inherits dev; both off) for optimised builds; the true --release binary is not built",
        "values are read back with read-fonts/skrifa and a private decoder of the raw simple-glyph deltas "
        "(trusted measurement); pictures are compared by a sampled Hausdorff distance of polygonal outlines",
        "Slack = 2 units (Limits.tla) is the reading of 'visibly different' in the property text",
    ]
    cleaner.join()
