"""C05, assembly half (lead-owned add-on to checks/c05.py): every table item a build's jobs wrote must be in the
emitted font (spec/Assembly.tla replays recorded builds through the TABLES_TO_MERGE loop)."""
import json, os, re
import common, sched, minifont, graphs


def fea_table_fonts(ctx):
    """Sources whose feature code supplies whole tables / fields that the back end merges."""
    out = []
    feas = {
        "os2-opsize-lower-only": "table OS/2 {\n  LowerOpSize 10;\n} OS/2;\n",
        "os2-opsize-both": "table OS/2 {\n  LowerOpSize 10;\n  UpperOpSize 12;\n} OS/2;\n",
        "os2-misc": "table OS/2 {\n  FSType 4;\n  Panose 2 15 0 0 2 2 8 2 9 4;\n  TypoAscender 750;\n  winAscent 900;\n  XHeight 400;\n  WeightClass 650;\n  WidthClass 3;\n  Vendor \"ABCD\";\n} OS/2;\n",
        "hhea": "table hhea {\n  CaretOffset -50;\n  Ascender 800;\n  Descender -200;\n  LineGap 200;\n} hhea;\n",
        "head": "table head {\n  FontRevision 1.1;\n} head;\n",
        "name": "table name {\n  nameid 9 \"Designer\";\n  nameid 1 \"Other Family\";\n} name;\n",
        "gdef": "table GDEF {\n  GlyphClassDef [a], , , ;\n  LigatureCaretByPos a 100;\n} GDEF;\n",
        "base": "table BASE {\n  HorizAxis.BaseTagList ideo romn;\n  HorizAxis.BaseScriptList latn romn -120 0;\n} BASE;\n",
        "vhea": "table vhea {\n  VertTypoAscender 500;\n  VertTypoDescender -500;\n  VertTypoLineGap 1000;\n} vhea;\n",
        "stat": "table STAT {\n  ElidedFallbackName { name \"Regular\"; };\n  DesignAxis wght 0 { name \"Weight\"; };\n  AxisValue { location wght 400; name \"Regular\"; flag ElidableAxisValueName; };\n} STAT;\n",
    }
    for name, fea in feas.items():
        for variable in (False, True):
            mf = minifont.template_wght(("a", "b")) if variable else minifont.template_static(("a", "b"))
            if not variable:
                mf["as_ufo"] = True
            mf["masters"][0]["features"] = fea
            d = ctx.path("assembly", "%s_%s" % (name, "var" if variable else "static"), "x")[:-2]
            out.append(("minifont:fea-table:%s:%s" % (name, "var" if variable else "static"), minifont.materialize(mf, d)))
    return out


def check_assembly(ctx):
    ev = ctx.ev
    sources = [(sched.source_path(rel), flags, rel) for rel, flags in sched.QUICK_SOURCES[: (8 if ctx.quick else 14)]]
    sources += [(p, [], label) for label, p in fea_table_fonts(ctx)]
    builds = sched.traced_builds(ctx, [(p, fl) for p, fl, _ in sources], [(4, 0)])
    label_of = {p: l for p, _fl, l in sources}
    recs, meta = [], []
    for (path, flags), runs in builds.items():
        run = runs[0]
        if run["res"].get("outcome") != "ok":
            continue  # a build that reports failure emits no font: nothing to assemble
        g = sched.load_graph(run)
        written = sorted({it for ws in g.writes.values() for it in ws if it.startswith("Be(")})
        r = common.vh(["project", run["font"], json.dumps({"sections": ["tables"]})])
        try:
            tables = json.loads(r.stdout)["tables"]
        except Exception:
            raise common.ToolError("cannot project %s: %s" % (run["font"], r.stderr[-200:]))
        recs.append({"written": written, "font": tables})
        meta.append((label_of.get(path, path), flags))
    if not recs:
        raise common.ToolError("assembly: no build succeeded")
    obs = ctx.path("assembly.ndjson")
    graphs.write_ndjson(obs, recs)
    r = common.run_tlc(ctx, "Assembly", "Assembly.cfg", workers=1, timeout=600, xmx="2g", env={"OBS": obs}, tag="assembly")
    if r.violated in ("NothingDropped", "NothingConjured"):
        bad = re.findall(r'<<(\d+), "(\w+)", "([^"]+)">>', r.out)
        seen = set()
        for b, kind, tag in bad:
            if (b, kind, tag) in seen:
                continue
            seen.add((b, kind, tag))
            label, flags = meta[int(b) - 1]
            if kind == "dropped":
                ctx.violation("assembly:table-dropped:%s:%s" % (tag, label),
                              "%s: a job produced the %s table but the emitted font does not contain it "
                              "(build reported success)" % (label, tag),
                              dict(source=label, flags=flags, record=recs[int(b) - 1]))
            else:
                ctx.drift("Assembly", "%s: font contains %s although no job wrote that item" % (label, tag))
        if not bad:
            raise common.ToolError("Assembly.tla: %s violated but no detail parsed" % r.violated)
    elif r.violated != "NotAccepted":
        raise common.ToolError("Assembly validation failed: %s" % (r.error or r.violated or "stuck"))
    ev.traces += len(recs)
    ev.evaluations += len(recs)
    ev.sample({"kind": "assembly record", "source": meta[0][0], "record": recs[0]}, limit=12)
    ev.extra["assembly_builds"] = len(recs)
