"""C07 Variation model reproduces its masters exactly and builds valid regions.

spec/VarModel.tla transcribes fontdrasil/src/variations.rs over exact rationals (spec/Rational.tla).
 (D) design level: TLC evaluates TentValid, ScalarIn01, LaterDoesNotInfluenceEarlier, Reproduces, DefaultExact,
     OrderIndependent on the transcription for every enumerated location set (VarModelA1..A4.cfg);
 (R) every enumerated input, together with the spec-computed order/regions/scalars/deltas, is printed as a REPLAY
     line and replayed by `vh varmodel` against the real public API (VariationModel::new, deltas,
     deltas_with_rounding, interpolate_from_deltas, VariationRegion::scalar_at) in three variants (as given /
     other insertion order + sparse locations / axis tags whose sort order differs from the axis order).

PROPERTY level (VIOLATION), judged on the real code's output only: no panic/error for a valid location set that
contains the default; interpolation at every defined master returns its value (float precision without rounding,
within 1/2 with rounding); at the default exactly; every returned tent has min <= peak <= max inside [-1,1] and
does not span 0; scalars within [0,1] (at the masters and on a lattice); the result does not depend on the order of
insertion.  INTERNAL (DRIFT): model order, regions, scalars, deltas differing from the spec's transcription,
tag-spelling dependence, spec-level invariant failures that the real code does not share.
"""
import json, os, re, subprocess, time, concurrent.futures
from fractions import Fraction
import common

# float precision (property text: "to float precision"): every quantity is a sum of <= ~10 products of values
# <= 32 and scalars <= 1 computed in f64 (eps 2.2e-16); 1e-9 absolute is far above the rounding noise and far
# below the smallest wrong answer on these grids (multiples of 1/32 at the very least)
FLOAT_TOL = 1e-9
MAX_REPORTED = 25


def num(x):
    return x[0] / x[1] if isinstance(x, list) else float(x)


def frac(x):
    return Fraction(x[0], x[1]) if isinstance(x, list) else Fraction(x)


def pow2(d):
    return d & (d - 1) == 0


def plan(ctx):
    """[(axes, env, optional)] TLC runs; `optional` runs are started only while the time budget lasts."""
    s = ctx.seed
    if ctx.quick:
        # ~10 000 inputs: all small sets, a seeded 1/k sample of the larger ones
        return [
            (1, {}, False),
            (2, {"VM_STRIDE4": 8, "VM_STRIDE5": 32, "VM_OFFSET": s}, False),
            (3, {"VM_STRIDE3": 3, "VM_STRIDE4": 16, "VM_OFFSET": s}, False),
            (4, {"VM_STRIDE2": 3, "VM_STRIDE3": 64, "VM_OFFSET": s}, False),
        ]
    # thorough: everything within the bounds.  The small sets always run; the big families run in slices
    # (seed-dependent starting slice, families interleaved) as long as the time budget lasts - the evidence
    # file lists the slices that did not run
    runs = [(1, {}, False), (2, {"VM_KMAX": 4}, False), (3, {"VM_KMAX": 3}, False), (4, {"VM_KMAX": 2}, False)]
    a2 = [(2, {"VM_KMIN": 5, "VM_STRIDE": 6, "VM_OFFSET": (o + s) % 6}, True) for o in range(6)]        # 42 504 sets
    a3 = [(3, {"VM_KMIN": 4, "VM_STRIDE": 2, "VM_OFFSET": (o + s) % 2}, True) for o in range(2)]        # 14 950 sets
    a4 = [(4, {"VM_KMIN": 3, "VM_STRIDE": 12, "VM_OFFSET": (o + s) % 12}, True) for o in range(12)]     # 82 160 sets
    while a2 or a3 or a4:
        for fam in (a2, a4, a3, a4):
            if fam:
                runs.append(fam.pop(0))
    return runs


THOROUGH_BUDGET_S = 17 * 60


# ----------------------------------------------------------------------------- judging one case


class Judge:
    def __init__(self, ctx):
        self.ctx = ctx
        self.suppressed = 0
        self.seen = set()
        self.drift_n = {}
        self.kinds = {}
        self.cases = 0
        self.variants = 0
        self.evals = 0
        self.identical_bc = 0
        self.skipped_tie_cols = 0
        self.nondyadic = 0

    # -- reporting
    def violation(self, kind, case, variant, what, extra=None):
        locs = [[Fraction(x, case["den"]) for x in l] for l in case["locs"]]
        sig = "%s:n%d:%s" % (kind, case["n"], sorted(["/".join(str(c) for c in l) for l in locs]))
        if sig in self.seen:         # one report per (kind, location set)
            return
        self.seen.add(sig)
        self.kinds[kind] = self.kinds.get(kind, 0) + 1
        if len(self.ctx.violations) >= MAX_REPORTED:
            self.suppressed += 1
            return
        text = "%s; %d axes, locations %s (variant %s)" % (
            what, case["n"], [[str(c) for c in l] for l in locs], variant.get("name"))
        self.ctx.violation(sig, text, {"case": strip(case), "variant": variant, "detail": extra})

    def drift(self, kind, what):
        self.drift_n[kind] = self.drift_n.get(kind, 0) + 1
        if self.drift_n[kind] <= 2:
            self.ctx.drift("VarModel", "%s: %s" % (kind, what))

    # -- property level, on one variant's real output
    def property_checks(self, case, V):
        m = len(case["locs"])
        den = case["den"]
        vals = case["_vals"]
        if V.get("outcome") != "ok":
            self.violation("outcome", case, V, "VariationModel::new/deltas %s on a valid location set: %s" % (
                V.get("outcome"), V.get("message", "")[:300]))
            return
        order = V.get("order")
        if V.get("num_locations") != m or sorted(o if isinstance(o, int) else -1 for o in order) != list(range(1, m + 1)) \
                or not V.get("supports_all"):
            self.violation("locations", case, V, "the model does not hold exactly the supplied locations: order=%s" % order)
            return
        for run in V["runs"]:
            d, rnd = run["d"], run["rnd"]
            label = "definition %s, %s" % (case["defs"][d - 1], "RoundTiesEven" if rnd else "no rounding")
            if run.get("outcome") != "ok":
                self.violation("deltas-error", case, V, "deltas returned an error (%s): %s" % (label, run.get("message")))
                continue
            # tents
            for region in run["regions"]:
                for t in region:
                    self.evals += 1
                    if t is None or any(isinstance(x, str) for x in t):
                        self.violation("tent", case, V, "region without a numeric tent for an axis (%s): %s" % (label, region))
                        break
                    mn, pk, mx = t
                    if not (mn <= pk <= mx and -1.0 <= mn and mx <= 1.0 and not (mn < 0.0 < mx)):
                        self.violation("tent", case, V, "invalid tent (min, peak, max) = %s in region %s (%s)" % (t, region, label))
                        break
            # reproduction at every defined master
            tol = (0.5 + FLOAT_TOL) if rnd else FLOAT_TOL
            for k, got in run["interp"]:
                want = vals[k - 1]
                self.evals += len(want)
                if got == want:
                    continue
                bad = None
                if len(got) != len(want):
                    bad = ("no value", None, None)
                else:
                    for c, (g, w) in enumerate(zip(got, want)):
                        if isinstance(g, str) or abs(g - w) > tol:
                            bad = (c + 1, g, w)
                            break
                if bad:
                    self.violation("reproduce", case, V,
                                   "interpolating the deltas at master %s gives %s for column %s, the master value is %s (%s)" % (
                                       [str(Fraction(x, den)) for x in case["locs"][k - 1]], bad[1], bad[0], bad[2], label),
                                   {"run": run})
                    break
            # default
            k0 = case["_origin"]
            want = vals[k0]
            got = run["interp0"]
            self.evals += len(want)
            ok = len(got) == len(want)
            if ok:
                for g, w in zip(got, want):
                    if isinstance(g, str):
                        ok = False
                    elif rnd and w != int(w):
                        ok = ok and abs(g - w) <= 0.5     # a non-integer default value cannot survive rounding
                    else:
                        ok = ok and g == w
            if not ok:
                self.violation("default", case, V, "interpolation at the default gives %s, the default master's values are %s (%s)" % (
                    got, want, label), {"run": run})
        # scalars
        sm = V.get("sm")
        if sm is not None:
            for row in sm:
                self.evals += len(row)
                for s in row:
                    if isinstance(s, str) or not (0.0 <= s <= 1.0):
                        self.violation("scalar", case, V, "region scalar %s at a master location is outside [0,1]" % s)
                        break
        lat = V.get("lattice")
        if lat is not None:
            self.evals += lat["evaluations"]
            if lat["nan"] or isinstance(lat["min"], str) or isinstance(lat["max"], str) or lat["min"] < 0.0 or lat["max"] > 1.0:
                self.violation("scalar", case, V, "region scalars over the lattice of %d points range over [%s, %s], %d NaN" % (
                    lat["points"], lat["min"], lat["max"], lat["nan"]))

    # -- internal: real (variant A) against the spec's transcription
    def internal_checks(self, case, V):
        if V.get("outcome") != "ok":
            return
        m = len(case["locs"])
        dyadic = case["_dyadic"]
        tol = 0.0 if dyadic else 1e-9
        if V["order"] != case["order"]:
            self.drift("order", "model order %s, spec %s for locations %s/%d" % (V["order"], case["order"], case["locs"], case["den"]))
            return
        sm = V.get("sm")
        if sm is not None:
            want = case["_sm"]
            if sm != want and any(isinstance(a, str) or abs(a - b) > tol for ra, rb in zip(sm, want) for a, b in zip(ra, rb)):
                self.drift("scalars", "region-at-master scalars %s, spec %s for locations %s/%d" % (sm, want, case["locs"], case["den"]))
        exp_regions = case["_regions"]
        for run, erun in zip(V["runs"], case["runs"]):
            if run.get("outcome") != "ok":
                continue
            masters = erun["masters"]        # model positions (1-based) with values
            want_r = [exp_regions[i - 1] for i in masters]
            if run["regions"] != want_r:
                self.drift("regions", "regions %s, spec %s for locations %s/%d (definition %s)" % (
                    run["regions"], want_r, case["locs"], case["den"], case["defs"][run["d"] - 1]))
                continue
            tie_cols = set(c for c, _ in erun["ties"]) if (erun["rnd"] and not dyadic) else ()
            if tie_cols:
                self.skipped_tie_cols += len(tie_cols)
            # spec deltas[c][i] (model positions) -> per returned deltaset
            ed = erun["_deltas"]
            for idx, i in enumerate(masters):
                got = run["deltas"][idx]
                want = ed[i - 1]
                if got == want:
                    continue
                for c, (g, w) in enumerate(zip(got, want)):
                    if (c + 1) in tie_cols:
                        continue
                    if isinstance(g, str) or abs(g - w) > tol:
                        self.drift("deltas", "delta %s of master %d column %d, spec %s, for locations %s/%d (%s)" % (
                            g, i, c + 1, w, case["locs"], case["den"], "rounded" if erun["rnd"] else "unrounded"))
                        return

    def judge(self, case, res):
        ev = self.ctx.ev
        self.cases += 1
        prepare(case)
        if not case["_dyadic"]:
            self.nondyadic += 1
        if res is None or res.get("outcome") != "ok":
            if res is not None and res.get("outcome") == "crash":
                self.violation("crash", case, {"name": "?"}, "the harness process died replaying this case: %s" % res.get("message", "")[:300])
                return
            raise common.ToolError("vh varmodel: %s" % (res,))
        variants = res["variants"]
        A = variants[0]
        n_before = len(self.ctx.violations) + self.suppressed
        self.property_checks(case, A)
        self.variants += 1
        for V in variants[1:]:
            self.variants += 1
            same = all(V.get(f) == A.get(f) for f in ("outcome", "order", "runs", "sm", "num_locations", "supports_all"))
            if same:
                self.identical_bc += 1
                self.evals += 1
                continue
            # judge the variant on its own
            self.property_checks(case, V)
            if V["name"] == "B":
                self.violation("order-dependent", case, V,
                               "same locations inserted in another order (and with zero coordinates omitted) give a different result: "
                               "order %s vs %s" % (V.get("order"), A.get("order")), {"A": A})
            else:
                self.drift("tag-spelling", "axis tags sorted against the axis order change the result for locations %s/%d" % (
                    case["locs"], case["den"]))
        self.internal_checks(case, A)
        if nontrivial(case):
            ev.nontrivial_add("%d:%s" % (case["n"], sorted(map(tuple, case["locs"]))))
        if self.cases % 997 == 1 and len(ev.samples) < 6:
            ev.sample({"case": {k: case[k] for k in ("n", "den", "locs", "defs", "order", "regions")},
                       "real_order": A.get("order"), "real_regions": (A.get("runs") or [{}])[0].get("regions"),
                       "violations": len(self.ctx.violations) + self.suppressed - n_before})


def strip(case):
    return {k: v for k, v in case.items() if not k.startswith("_")}


def prepare(case):
    den = case["den"]
    case["_vals"] = [[num(x) for x in row] for row in case["vals"]]
    case["_origin"] = [k for k, l in enumerate(case["locs"]) if not any(l)][0]
    case["_dyadic"] = all(pow2(x[1]) for row in case["sm"] for x in row if isinstance(x, list))
    case["_sm"] = [[num(x) for x in row] for row in case["sm"]]
    case["_regions"] = [[[num(x) for x in t] for t in region] for region in case["regions"]]
    for run in case["runs"]:
        cols = run["deltas"]       # [column][model position]
        run["_deltas"] = [[num(cols[c][i]) for c in range(len(cols))] for i in range(len(cols[0]))]


def nontrivial(case):
    """masters interact: a non-default master's region is non-zero at another master, or a tent was cut at another
    master's peak (its inner end is not 0 or its outer end is not the axis extreme)."""
    m = len(case["locs"])
    sm = case["_sm"]
    if any(sm[j][i] != 0.0 for j in range(1, m) for i in range(m) if i != j):
        return True
    n = case["n"]
    lo = [min(0, min(l[a] for l in case["locs"])) / case["den"] for a in range(n)]
    hi = [max(0, max(l[a] for l in case["locs"])) / case["den"] for a in range(n)]
    for region in case["_regions"]:
        for a, (mn, pk, mx) in enumerate(region):
            if pk > 0 and (mn != 0 or mx != hi[a]):
                return True
            if pk < 0 and (mx != 0 or mn != lo[a]):
                return True
    return False


# ----------------------------------------------------------------------------- replay


def replay(ctx, judge, cases, tagno):
    """Run the cases through `vh varmodel` in parallel batches and judge the results."""
    if not cases:
        return
    for c in cases:
        c["seed"] = ctx.seed
    size = 400
    batches = [cases[i:i + size] for i in range(0, len(cases), size)]

    def run(b):
        """results for batch b; a process that dies on a case is data for that case, the rest is re-run"""
        out = []
        while len(out) < len(b):
            rest = b[len(out):]
            inp = "\n".join(json.dumps(c) for c in rest) + "\n"
            r = subprocess.run([VH_VARMODEL], input=inp, capture_output=True, text=True, timeout=900)
            got = [json.loads(l) for l in r.stdout.splitlines() if l.startswith("{")]
            out += got[:len(rest)]
            if len(got) < len(rest):
                if r.returncode == 0:
                    raise common.ToolError("vh varmodel returned %d results for %d cases: %s" % (len(got), len(rest), r.stderr[-300:]))
                out.append({"outcome": "crash", "message": "rc=%s %s" % (r.returncode, r.stderr[-300:])})
        return out

    with concurrent.futures.ThreadPoolExecutor(5) as ex:
        for b, out in zip(batches, ex.map(run, batches)):
            for c, o in zip(b, out):
                judge.judge(c, o)
    ctx.ev.traces = judge.cases


VH_VARMODEL = os.path.join(common.HARNESS, "target", "debug", "vh-varmodel")


def build():
    """Rebuild only this module's binary (vh-varmodel) against the working tree of the repository."""
    t = time.time()
    env = dict(os.environ)
    env["CARGO_NET_OFFLINE"] = "true"
    r = subprocess.run(["cargo", "build", "--offline", "-q", "--bin", "vh-varmodel"], cwd=common.HARNESS, env=env,
                       capture_output=True, text=True)
    if r.returncode != 0 or not os.path.exists(VH_VARMODEL):
        raise common.ToolError("building vh-varmodel failed: %s" % r.stderr[-2000:])
    common.log("vh-varmodel built in %.0fs" % (time.time() - t))


def main(ctx):
    build()
    ev = ctx.ev
    judge = Judge(ctx)
    ev.rule = ("a location set is non-trivial when its masters interact: some non-default master's region is non-zero at "
               "another master's location (a non-empty delta-weight list beyond the default) or master_influence cut a "
               "tent at another master's peak; counted once per distinct (axis count, location set)")
    ev.assumptions = [
        "TLC evaluates the TLA+ transcription correctly; 32-bit overflow raises a TLC error (treated as tool error)",
        "inputs are bounded: 1 axis subsets of the 8 non-origin quarter points; 2 axes <= 5 points of the 5x5 half grid; "
        "3 axes <= 4 points of {-1,0,1}^3; 4 axes <= 3 points of {-1,0,1}^4; value columns = unit vector per master "
        "(a basis: unrounded deltas are linear in the values) + 4 seeded columns incl. tie-producing and half-integer values; "
        "definitions = all masters + one seeded proper subset containing the default",
        "float precision is taken as 1e-9 absolute on values of magnitude <= 32",
        "order independence is observed through HashSet insertion order, sparse vs complete locations and std's per-instance "
        "random hash seeds (every VariationModel::new iterates its HashSet in a fresh random order)",
    ]

    if ctx.replay:
        obj = json.load(open(ctx.replay))
        case = obj["replay"]["case"] if "replay" in obj else obj
        replay(ctx, judge, [case], 0)
        ev.extra["replayed_file"] = ctx.replay
        return

    spec_violations = {}
    skipped = []
    complete = True
    pending = None
    n_emitted = 0
    with concurrent.futures.ThreadPoolExecutor(1) as bg:
        for k, (axes, env, optional) in enumerate(plan(ctx)):
            if optional and time.time() - ctx.t0 > THOROUGH_BUDGET_S:
                skipped.append("VarModelA%d %s" % (axes, env))
                continue
            e = {"VM_SEED": ctx.seed}
            e.update(env)
            r = common.run_tlc(ctx, "VarModel", "VarModelA%d.cfg" % axes, workers=4, timeout=3000 if ctx.quick else 7500,
                               env=e, extra=["-continue"], tag="A%d" % axes)
            if r.timed_out:
                raise common.ToolError("TLC timed out on VarModelA%d.cfg %s" % (axes, env))
            bad = set(re.findall(r"Error: Invariant (\S+) is violated", r.out))
            if r.error and not bad:
                raise common.ToolError("TLC error on VarModelA%d.cfg %s: %s" % (axes, env, r.error))
            if "Model checking completed" not in r.out and not bad:
                raise common.ToolError("TLC did not complete on VarModelA%d.cfg %s" % (axes, env))
            cases = common.replay_lines(r.out)
            if not bad and 2 * len(cases) != r.distinct:
                raise common.ToolError("VarModelA%d.cfg %s: %d REPLAY lines for %d states" % (axes, env, len(cases), r.distinct))
            for b in bad:
                spec_violations[b] = spec_violations.get(b, 0) + r.out.count("Error: Invariant %s is violated" % b)
                complete = False
            n_emitted += len(cases)
            common.log("VarModelA%d %s: %d cases, %.0fs%s" % (axes, env, len(cases), r.wall,
                                                             (" SPEC-LEVEL: %s" % sorted(bad)) if bad else ""))
            r.out = ""
            if pending is not None:
                pending.result()
            pending = bg.submit(replay, ctx, judge, cases, k)
        if pending is not None:
            pending.result()

    if judge.cases != n_emitted:
        raise common.ToolError("replayed %d of %d emitted cases" % (judge.cases, n_emitted))
    # spec-level findings that the real code does not share are drift of the transcription
    for inv, cnt in sorted(spec_violations.items()):
        ctx.drift("VarModel", "TLC: invariant %s fails on the transcription for %d input(s)%s" % (
            inv, cnt, "" if ctx.violations else " while the real code satisfies the property on every replayed case"))
    ev.evaluations = judge.evals
    ev.exhaustive = (not ctx.quick) and complete and not skipped
    ev.extra.update({
        "cases_replayed": judge.cases,
        "api_variants_run": judge.variants,
        "variants_identical_to_reference": judge.identical_bc,
        "cases_with_non_dyadic_scalars": judge.nondyadic,
        "rounded_columns_not_compared_because_of_exact_ties_with_inexact_f64_weights": judge.skipped_tie_cols,
        "violation_kinds": judge.kinds,
        "violations_not_written": judge.suppressed,
        "drift_kinds": judge.drift_n,
        "spec_level_invariant_failures": spec_violations,
        "slices_skipped_for_time": skipped,
    })
    common.log("C07: %d cases replayed (%d API variants), %d property evaluations, %d non-trivial location sets" % (
        judge.cases, judge.variants, judge.evals, len(ev.nontrivial)))
