"""C04 Advances and global metrics at each master location equal the master's.

 (G) spec/Instancing.tla (mode C04) generates abstract variable fonts: the C03 master layouts x advance patterns (all
     equal / one source differs / general, sparse sources with their own variation model) x .notdef absent / in every
     master / in the default master only (the densification special case of fontbe/src/metric_variations.rs) x 0, 2, 7,
     19 or 40 filler glyphs sharing or not sharing one advance pattern (direct vs indirect HVAR store) x vertical
     metrics on/off x global-metric patterns (no metric varies / one MVAR-tagged metric alone / all / a third), with
     the expected rounded master values; the design-level check (VarModel.tla) shows that rounded deltas reproduce
     every master within 1/2;
 (R) every case is compiled by the real compiler and measured: hmtx+HVAR and vmtx+VVAR evaluated from the raw item
     variation stores (DeltaSetIndexMap when present), skrifa's glyph metrics, gvar phantom-point advances, MVAR value
     records evaluated at every master, skrifa's font metrics, raw OS/2 / hhea / vhea / post default values;
 (O) spec/InstancingObs.tla evaluates the acceptance relation on every record (advance within 1 unit of the rounded
     master advance and of the phantom-point advance; MVAR-evaluated metric within 1/2 of the rounded master value;
     defaults exact); repository designspace fixtures are validated against static builds of their masters.
"""
import json, os
import common
import instancing_common as ic


def main(ctx):
    common.build_harness()
    ev = ctx.ev
    ev.rule = ("a generated font counts as non-trivial when an advance or metric column has an exact .5 tie among its "
               "raw deltas, or a glyph has its own (sparse) advance model, or at least one MVAR-tagged metric varies; "
               "a fixture counts when it has at least one non-default full master")
    if ctx.replay:
        rp = json.load(open(ctx.replay))["replay"]
        cases = [rp["case"]] if "case" in rp else []
        fixtures = [rp["fixture"]] if "fixture" in rp else []
    else:
        cases = ic.gen_cases(ctx, "C04")
        fixtures = None
        lim = int(os.environ.get("INST_LIMIT", "0") or "0")      # debugging aid: only every n-th case
        if lim:
            cases = cases[::lim]
    by_id = {c["id"]: c for c in cases}

    recs, stats = ic.pipeline(ctx, "C04", cases, ["advance", "mvar", "defaults"], lambda c, m, om: ic.obs_metrics(c, m))
    verdicts = ic.run_obs(ctx, recs, "gen", chunk=400) if recs else {}
    notes = {"hvar_indirect": 0, "hvar_direct": 0, "vertical": 0, "mvar_patterns": {}}
    for rec in recs:
        c = by_id[rec["id"]]
        ic.report(ctx, "C04", rec["id"], verdicts[rec["id"]], {"case": c}, notes)
        ev.traces += 1
        ev.evaluations += 1
        ev.extra["glyph_location_evaluations"] = ev.extra.get("glyph_location_evaluations", 0) + \
            sum(len(g["at"]) for g in rec["glyphs"])
        ev.extra["metric_location_evaluations"] = ev.extra.get("metric_location_evaluations", 0) + \
            sum(len(a["vals"]) for a in rec["metrics"])
        notes["hvar_indirect" if rec["indirect"] == 1 else "hvar_direct"] += 1
        notes["vertical"] += c["vert"]
        notes["mvar_patterns"][str(c["mpat"])] = notes["mvar_patterns"].get(str(c["mpat"]), 0) + 1
        ties = sum(max(0, g.get("ties", 0)) for g in c["glyphs"]) + max(0, c.get("mties", 0))
        if ties > 0 or rec["nmodels"] > 1 or c["mpat"] != 0:
            ev.nontrivial_add(rec["id"])
    if recs:
        r0 = recs[0]
        ev.sample({"kind": "generated case", "id": r0["id"], "masters": by_id[r0["id"]]["masters"],
                   "glyphs": len(r0["glyphs"]), "notdef": by_id[r0["id"]]["notdef"], "indirect": r0["indirect"],
                   "metrics_at_master_2": r0["metrics"][1]["vals"][:4] if len(r0["metrics"]) > 1 else [],
                   "failures": verdicts[r0["id"]]})
    ev.extra["generated_fonts"] = len(recs)
    ev.extra["notes"] = notes
    ev.extra["mean_compile_ms"] = round(stats["compile_ms"] / max(1, stats["compiled"]), 1)

    # (O) repository fixtures
    if not ctx.replay or fixtures:
        ic.fixtures_check(ctx, "C04", "metrics", only=fixtures)
