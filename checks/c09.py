"""C09 Kerning in the font equals the source kerning at every master.

Decided by spec/Kerning.tla:
 (M) TLC evaluates, for every generated source, the ORACLE UfoLookup (the UFO kerning value lookup algorithm on
     each master's own kerning/groups) and a TRANSCRIPTION of fontc's kerning pipeline (per-master cascade,
     divergent groups and their common refinement, glyph-to-class cells, zero class pairs, pair ordering,
     PairPosBuilder subtables) interpreted with the GPOS PairPos semantics; the design-level property
     FontKern = Round(UfoLookup) is evaluated on every case (field designOk) -- a case where it fails is a
     design-level finding and is always replayed into the real compiler, which alone decides;
 (R) every emitted case becomes a MiniFont (UFO masters with kerning.plist / groups.plist + designspace), is
     compiled with `vh batch`, and `vh kerning` (an independent pair-positioning evaluator over read-fonts raw
     tables + the GDEF item variation store) gives the adjustment of every ordered glyph pair at every kerning
     master's location;
 (O) the UFO/designspace fixtures of the repository that carry kerning go through the same oracle: their
     kerning.plist / groups.plist are read with plistlib, TLC (Source = "file") computes UfoLookup, the fixture
     is compiled and evaluated the same way.

PROPERTY-LEVEL (violation): the font's adjustment of some ordered pair at some master that defines kerning differs
from Round(UfoLookup) of that master; a valid case fails to compile / panics; its GPOS cannot be read.
INTERNAL (drift): values at a default master without kerning, number of lookups / subtables, subtable formats,
class structure, glyph-pair lists differing from the transcription while the property relation holds.
"""
import concurrent.futures, hashlib, json, os, plistlib, random, re, shutil, time
import xml.etree.ElementTree as ET
from fractions import Fraction as F
import common, minifont

SCRIPTS = ("DFLT", "latn")
POS = {1: [400], 2: [400, 700], 3: [400, 550, 700]}
MAX_REPLAY_FILES = 40
MAX_CONFIRM = 3          # violations re-run through a full minifont.materialize before they are reported


# ----------------------------------------------------------------------------- case -> MiniFont


def case_id(case):
    key = json.dumps({"g": case["glyphs"], "d": case["dflt"], "den": case["den"],
                      "m": [{"g1": m["g1"], "g2": m["g2"], "k": sorted(map(tuple, m["kern"]))} for m in case["masters"]]},
                     sort_keys=True)
    return hashlib.sha1(key.encode()).hexdigest()[:14]


def num(v, den):
    f = F(v, den)
    return int(f) if f.denominator == 1 else float(f)


def master_plists(m, den):
    """(groups.plist dict, kerning.plist dict) of one abstract master."""
    groups = {}
    for side, key in ((1, "g1"), (2, "g2")):
        for g, n in sorted(m[key].items()):
            if n:
                groups.setdefault("public.kern%d.%s" % (side, n), []).append(g)
    kerning = {}
    for lk, ln, rk, rn, v in sorted(map(tuple, m["kern"])):
        l = ln if lk == "g" else "public.kern1." + ln
        r = rn if rk == "g" else "public.kern2." + rn
        kerning.setdefault(l, {})[r] = num(v, den)
    return groups, kerning


def axis_positions(case):
    n = len(case["masters"])
    return POS[n]


def norm_locs(case):
    """Normalized location of every master (exact in F2Dot14 by construction)."""
    pos = axis_positions(case)
    if len(pos) == 1:
        return [[] for _ in pos]
    d = pos[case["dflt"] - 1]
    out = []
    for p in pos:
        if p == d:
            out.append([0.0])
        elif p > d:
            out.append([float(F(p - d, pos[-1] - d))])
        else:
            out.append([-float(F(d - p, d - pos[0]))])
    return out


def to_minifont(case):
    """The complete MiniFont dict of a case (checks/minifont.py vocabulary)."""
    pos = axis_positions(case)
    n = len(pos)
    names = ["M%d" % (i + 1) for i in range(n)]
    mf = {"family": "Kern", "glyph_order": list(case["glyphs"]), "default_master": case["dflt"] - 1,
          "axes": [] if n == 1 else [{"tag": "wght", "name": "Weight", "min": pos[0],
                                      "default": pos[case["dflt"] - 1], "max": pos[-1]}],
          "masters": [], "glyphs": [], "as_ufo": n == 1}
    for i, m in enumerate(case["masters"]):
        groups, kerning = master_plists(m, case["den"])
        mf["masters"].append({"name": names[i], "style": names[i], "loc": {} if n == 1 else {"Weight": pos[i]},
                              "groups": groups, "kerning": kerning})
    for gi, g in enumerate(case["glyphs"]):
        mf["glyphs"].append({"name": g, "unicodes": [0x61 + gi],
                             "layers": {names[i]: minifont.simple_layer(500 + 10 * gi + 40 * i, 50, 0, 400 + 40 * i, 700)
                                        for i in range(n)}})
    return mf


def dirpath(ctx, *parts):
    """A fresh empty scratch directory under /verif/work/C09."""
    d = os.path.join(ctx.work, *parts)
    shutil.rmtree(d, ignore_errors=True)
    os.makedirs(d)
    return d


def interest(case):
    """How many pairs of kerning entries (of any masters) compete for a glyph pair: their first-side and
    second-side coverages intersect while their keys differ.  Only used to order the sample."""
    ents = []
    for m in case["masters"]:
        for lk, ln, rk, rn, v in m["kern"]:
            lc = {ln} if lk == "g" else {g for g, n in m["g1"].items() if n == ln}
            rc = {rn} if rk == "g" else {g for g, n in m["g2"].items() if n == rn}
            ents.append(((lk, ln, rk, rn), lc, rc, v))
    n = 0
    for i in range(len(ents)):
        for j in range(i + 1, len(ents)):
            a, b = ents[i], ents[j]
            if a[1] & b[1] and a[2] & b[2] and (a[0] != b[0] or a[3] != b[3]):
                n += 1
    n = min(n, 4)
    # a group X whose membership differs between masters next to a source group called X_<k>: the names fontc
    # synthesizes for X's refined classes compete with a real group name
    for key in ("g1", "g2"):
        names = {v for m in case["masters"] for v in m[key].values() if v}
        for x in names:
            if any(y.startswith(x + "_") for y in names):
                members = [frozenset(g for g, v in m[key].items() if v == x) for m in case["masters"]]
                if len(set(members)) > 1:
                    n += 3
    return n


class Materializer:
    """Fast materialisation: the glyph layers / fontinfo / lib / designspace of a (masters, default) shape never
    change between cases, so they are written once by minifont.materialize (the skeleton); reusable slot
    directories link to them and a case only writes its own groups.plist / kerning.plist (exactly as minifont
    does).  Violations are re-checked with a full minifont.materialize of the case (see confirm())."""

    SHARED = ("metainfo.plist", "fontinfo.plist", "lib.plist", "layercontents.plist", "glyphs")

    def __init__(self, ctx):
        self.ctx = ctx
        self.skel = {}

    def skeleton(self, case):
        key = (len(case["masters"]), case["dflt"], tuple(case["glyphs"]))
        if key not in self.skel:
            bare = dict(case)
            bare["masters"] = [{"g1": {}, "g2": {}, "kern": []} for _ in case["masters"]]
            d = dirpath(self.ctx, "skel", "%d_%d_%d" % (key[0], key[1], len(key[2])))
            mf = to_minifont(bare)
            ds = minifont.materialize(mf, d, name="Kern")
            self.skel[key] = (d, open(ds).read() if key[0] > 1 else "", ["Kern-%s.ufo" % m["name"] for m in mf["masters"]])
        return self.skel[key]

    def write(self, case, slot):
        """Materialise `case` in slot number `slot` of its shape; returns (source path, output font path).
        Slot directories are created once (links to the skeleton) and reused: a case only rewrites the
        groups.plist / kerning.plist of its masters (the box's disk is slow under load)."""
        sk, ds_text, ufos = self.skeleton(case)
        d = os.path.join(self.ctx.work, "slots", os.path.basename(sk), "%05d" % slot)
        if not os.path.isdir(d):
            os.makedirs(d)
            for ufo in ufos:
                u = os.path.join(d, ufo)
                os.mkdir(u)
                for f in self.SHARED:
                    os.symlink(os.path.join(sk, ufo, f), os.path.join(u, f))
            if len(ufos) > 1:
                with open(os.path.join(d, "Kern.designspace"), "w") as f:
                    f.write(ds_text)
        for m, ufo in zip(case["masters"], ufos):
            u = os.path.join(d, ufo)
            groups, kerning = master_plists(m, case["den"])
            for name, obj in (("groups.plist", groups), ("kerning.plist", kerning)):
                path = os.path.join(u, name)
                if obj:
                    with open(path, "wb") as f:
                        plistlib.dump(obj, f, sort_keys=True)
                elif os.path.exists(path):
                    os.remove(path)
        src = os.path.join(d, ufos[0]) if len(ufos) == 1 else os.path.join(d, "Kern.designspace")
        return src, os.path.join(d, "out.ttf")


# ----------------------------------------------------------------------------- judging


def zeros(n):
    return [[0] * n for _ in range(n)]


def canon_struct_model(st):
    out = []
    for t in st:
        if t["fmt"] == 1:
            out.append(("f1", bool(t["var"]), tuple(sorted(tuple(p) for p in t["pairs"]))))
        else:
            out.append(("f2", tuple(sorted(tuple(sorted(c)) for c in t["c1"])),
                        tuple(sorted(tuple(sorted(c)) for c in t["c2"])),
                        tuple(sorted((tuple(sorted(a)), tuple(sorted(b))) for a, b in t["recs"]))))
    return out


def canon_struct_font(lk):
    out = []
    for t in lk["subtables"]:
        if t["format"] == 1:
            out.append(("f1", bool(t["variable"]), tuple(sorted((p[0], p[1]) for p in t["pairs"]))))
        else:
            c1 = {int(k): tuple(sorted(v)) for k, v in t["class1"].items()}
            c2 = {int(k): tuple(sorted(v)) for k, v in t["class2"].items()}
            recs = set()
            for a, b, _v, _d in t["records"]:
                if a in c1 and b in c2:
                    recs.add((c1[a], c2[b]))
            out.append(("f2", tuple(sorted(c1.values())), tuple(sorted(c2.values())), tuple(sorted(recs))))
    return out


class Judge:
    def __init__(self, ctx):
        self.ctx = ctx
        self.fonts = 0
        self.evals = 0
        self.moved = 0          # fonts whose kern feature moves at least one pair
        self.viol = 0
        self.kinds = {}
        self.drifts = {}
        self.design = 0         # design-level counterexamples seen
        self.design_real = 0    # ... reproduced by the real font
        self.shapes = {}

    def drift(self, kind, what):
        self.drifts[kind] = self.drifts.get(kind, 0) + 1
        if self.drifts[kind] <= 2:
            self.ctx.drift("Kerning", "%s: %s" % (kind, what))

    def violation(self, kind, case, cid, what, extra):
        self.viol += 1
        self.kinds[kind] = self.kinds.get(kind, 0) + 1
        if self.viol > MAX_REPLAY_FILES:
            return
        self.ctx.violation("%s:%s" % (kind, cid), what, dict(case=case, **extra))

    def source_text(self, case):
        parts = []
        for i, m in enumerate(case["masters"]):
            groups, kerning = master_plists(m, case["den"])
            parts.append("master %d%s groups=%s kerning=%s" % (i + 1, " (default)" if i + 1 == case["dflt"] else "",
                                                                json.dumps(groups, sort_keys=True),
                                                                json.dumps(kerning, sort_keys=True)))
        return "; ".join(parts)

    def judge(self, case, cid, comp, kern, generated=True, label=None):
        """Compare one compiled font with the spec's expectation. Returns True if the font was compared."""
        label = label or cid
        out = (comp or {}).get("outcome")
        if out != "ok":
            self.violation("compile-%s" % out, case, cid,
                           "valid kerning source %s: compile %s: %s | %s" %
                           (label, out, ((comp or {}).get("message") or "")[:300], self.source_text(case)),
                           {"compile": comp})
            return False
        if (kern or {}).get("outcome") != "ok":
            msg = (kern or {}).get("message") or ""
            if "read error" not in msg and "cannot parse font" not in msg and (kern or {}).get("outcome") != "panic":
                raise common.ToolError("vh kerning failed on %s for a reason that is not the font: %s" % (label, msg[:300]))
            self.violation("gpos-unreadable", case, cid,
                           "%s: the compiled font's GPOS cannot be evaluated: %s %s" %
                           (label, (kern or {}).get("outcome"), ((kern or {}).get("message") or "")[:300]),
                           {"compile": comp, "kerning": kern})
            return False
        self.fonts += 1
        glyphs = case["glyphs"]
        ng = len(glyphs)
        if kern.get("missing"):
            self.violation("glyph-missing", case, cid, "%s: glyphs %s are not in the font" % (label, kern["missing"]),
                           {"kerning": kern})
            return True
        adj = kern.get("adj") or {}
        scripts = [s for s in SCRIPTS if s in adj]
        if not scripts and adj and not generated:
            scripts = sorted(adj)[:1]           # a fixture that is neither DFLT nor latn: its first script
        nks = len(case["ks"])
        if scripts:
            fonts = {s: adj[s] for s in scripts}
        else:
            # no GPOS / no DFLT or latn script: nothing moves for Latin text
            fonts = {"(none)": [zeros(ng) for _ in range(nks)]}
        if any(v != 0 for per in fonts.values() for loc in per for row in loc for v in row):
            self.moved += 1
        explained = generated and bool(case.get("model"))
        bad = None
        for s, per in fonts.items():
            for n in range(nks):
                for a in range(ng):
                    for b in range(ng):
                        self.evals += 1
                        got, want = per[n][a][b], case["exp"][n][a][b]
                        explained_here = not explained or got == case["model"][n][a][b]
                        if got != want:
                            if case["prop"][n]:
                                if bad is None:
                                    bad = (s, n, a, b, got, want)
                            else:
                                self.drift("default-master-without-kerning",
                                           "%s: %s+%s at master %d (no kerning.plist there): font %s, spec %s" %
                                           (label, glyphs[a], glyphs[b], case["ks"][n], got, want))
                        elif not explained_here:
                            self.drift("value-vs-transcription",
                                       "%s: %s+%s at master %d: font %s = UfoLookup, transcription %s" %
                                       (label, glyphs[a], glyphs[b], case["ks"][n], got, case["model"][n][a][b]))
        if generated and not case.get("designOk", True):
            self.design += 1
            if bad:
                self.design_real += 1
        if bad:
            s, n, a, b, got, want = bad
            as_model = generated and bool(case.get("model")) and all(
                per[n2][a2][b2] == case["model"][n2][a2][b2]
                for per in fonts.values() for n2 in range(nks) for a2 in range(ng) for b2 in range(ng))
            cause = "class-overlap" if case.get("overlap") else "other"
            how = "as-modelled" if as_model else "unexplained"
            allbad = [(glyphs[a2], glyphs[b2], case["ks"][n2], per[n2][a2][b2], case["exp"][n2][a2][b2])
                      for per in list(fonts.values())[:1] for n2 in range(nks) if case["prop"][n2]
                      for a2 in range(ng) for b2 in range(ng) if per[n2][a2][b2] != case["exp"][n2][a2][b2]]
            self.violation("kern-mismatch:%s:%s" % (cause, how), case, cid,
                           "%s: pair %s+%s at master %d (script %s): the font's kern feature gives %s, the UFO kerning "
                           "lookup on that master's kerning/groups gives %s; all wrong pairs (l, r, master, font, "
                           "source): %s | %s%s" %
                           (label, glyphs[a], glyphs[b], case["ks"][n], s, got, want, allbad[:12],
                            self.source_text(case) if generated else "",
                            " | two output classes of one side overlap: the class subtable split shadows later class "
                            "pairs (the transcription predicts exactly these values)" if cause == "class-overlap" and as_model else ""),
                           {"compile": comp, "kerning": kern})
        if kern.get("other"):
            self.drift("non-x-advance", "%s: kern lookups carry y / second-glyph values" % label)
        place = kern.get("place") or {}
        if generated and any(v != 0 for s in scripts for loc in place.get(s, []) for row in loc for v in row):
            self.drift("x-placement", "%s: LTR kern lookups carry xPlacement" % label)
        # internal structure vs transcription
        if generated and case.get("model") and not bad and "structure" in kern:
            want_st = canon_struct_model(case["struct"])
            lks = sorted(set(i for s in scripts for i in kern["scripts"][s]["lookups"]))
            want_lookups = 1 if want_st else 0
            if len(lks) != want_lookups:
                self.drift("lookup-count", "%s: %d kern lookups, transcription %d" % (label, len(lks), want_lookups))
            elif lks:
                got_st = canon_struct_font(kern["structure"][str(lks[0])])
                if [t[0] for t in got_st] != [t[0] for t in want_st]:
                    self.drift("subtables", "%s: subtable formats %s, transcription %s" %
                               (label, [t[0] for t in got_st], [t[0] for t in want_st]))
                elif got_st != want_st:
                    self.drift("subtable-content", "%s: subtables %s, transcription %s" % (label, got_st, want_st))
            if any(kern["scripts"][s]["lookups"] != kern["scripts"][scripts[0]]["lookups"] for s in scripts):
                self.drift("script-lookups", "%s: DFLT and latn list different kern lookups" % label)
        key = "%dm/%s" % (len(case["masters"]), "+".join(sorted(set(
            {"gg": "gg", "gc": "gc", "cg": "cg", "cc": "cc"}[e[0] + e[2]] for m in case["masters"] for e in m["kern"]))))
        self.shapes[key] = self.shapes.get(key, 0) + 1
        return True


# ----------------------------------------------------------------------------- running cases


def run_cases(ctx, judge, mat, cases, tagp, deadline, procs=8, chunk=2000):
    """Materialise, compile and evaluate generated cases chunk by chunk until `deadline`; judged in place.
    Returns the number of cases processed."""
    done = 0
    lo = 0
    while lo < len(cases):
        late = time.time() > deadline
        if done and late:
            break
        # out of budget before the first chunk: the design-level counterexamples and a token sample still run
        n = chunk if not late else max(40, sum(1 for _, c in cases[:chunk] if not c["designOk"]))
        part = cases[lo:lo + n]
        lo += n
        creqs, kreqs = [], []
        for k, (cid, case) in enumerate(part):
            ds, ttf = mat.write(case, k)
            creqs.append({"tag": cid, "src": ds, "out": ttf, "threads": 1})
            locs = norm_locs(case)
            kreqs.append({"tag": cid, "font": ttf, "glyphs": case["glyphs"], "structure": True,
                          "locs": [{"name": "m%d" % i, "norm": locs[i - 1]} for i in case["ks"]]})
        cres = common.vh_batch(creqs, procs=procs)
        ok = [i for i, r in enumerate(cres) if r and r.get("outcome") == "ok"]
        kres_ok = common.vh_batch([kreqs[i] for i in ok], procs=procs, module="kerning")
        kres = [None] * len(part)
        for i, r in zip(ok, kres_ok):
            kres[i] = r
        for (cid, case), c, k in zip(part, cres, kres):
            if c and c.get("outcome") == "ok" and (k is None or k.get("outcome") == "crash"):
                raise common.ToolError("vh kerning gave no result for %s: %s" % (cid, k))
            before = judge.viol
            judge.judge(case, cid, c, k)
            if judge.viol > before and judge.viol <= MAX_CONFIRM:
                confirm(ctx, judge, case, cid)
        done += len(part)
    common.log("%s: %d of %d emitted cases compiled and compared (%d violations so far)" %
               (tagp, done, len(cases), judge.viol))
    return done


def compile_full(ctx, case, cid, sub):
    """Full minifont.materialize of one case + compile + evaluate (no skeleton sharing)."""
    d = dirpath(ctx, sub, cid)
    ds = minifont.materialize(to_minifont(case), d, name="Kern")
    ttf = os.path.join(d, "out.ttf")
    c = common.vh_batch([{"tag": cid, "src": ds, "out": ttf, "threads": 1}], procs=1)[0]
    k = None
    if c and c.get("outcome") == "ok":
        locs = norm_locs(case)
        k = common.vh_batch([{"tag": cid, "font": ttf, "glyphs": case["glyphs"], "structure": True,
                              "locs": [{"name": "m%d" % i, "norm": locs[i - 1]} for i in case["ks"]]}],
                            procs=1, module="kerning")[0]
    return c, k, ds


def confirm(ctx, judge, case, cid):
    """A violation found through the linked skeleton must reproduce with a plain minifont.materialize."""
    c, k, ds = compile_full(ctx, case, cid, "confirm")
    probe = Judge(ctx)
    probe.violation = lambda *a, **kw: setattr(probe, "viol", probe.viol + 1)
    probe.drift = lambda *a, **kw: None
    probe.judge(case, cid, c, k)
    if probe.viol == 0:
        raise common.ToolError("violation for case %s does not reproduce with a full minifont.materialize (%s): "
                               "the fast materialiser is at fault" % (cid, ds))


# ----------------------------------------------------------------------------- TLC


def tlc_generate(ctx, cfg, simulate=None, workers=2, timeout=900, env=None, seed=None, tag=None):
    r = common.run_tlc(ctx, "Kerning", cfg, workers=workers, timeout=timeout, env=env, simulate=simulate,
                       depth=80 if simulate else None, seed=seed, tag=tag, xmx="3g")
    if r.timed_out:
        raise common.ToolError("TLC timed out on %s" % cfg)
    if r.violated or r.error:
        raise common.ToolError("TLC failed on %s: %s (see %s/tlc.out)\n%s" %
                               (cfg, r.violated or r.error, r.meta, common.tlc_trace_text(r.out, 30)))
    if simulate is None and not r.complete:
        raise common.ToolError("TLC did not finish %s (see %s/tlc.out)" % (cfg, r.meta))
    cases = common.replay_lines(r.out)
    skipped = sum(1 for l in r.out.splitlines() if l.startswith('<<"SKIPPED"'))
    common.log("%s: %d cases emitted (+%d evaluated by TLC only) in %.0fs" % (tag or cfg, len(cases), skipped, r.wall))
    return cases, skipped, r


# ----------------------------------------------------------------------------- fixtures (observation mode)


def side_of_group(name):
    if name.startswith("public.kern1.") or name.startswith("@MMK_L_"):
        return 1
    if name.startswith("public.kern2.") or name.startswith("@MMK_R_"):
        return 2
    return 0


def read_plist(path):
    if not os.path.exists(path):
        return {}
    with open(path, "rb") as f:
        return plistlib.load(f)


def piecewise(pairs, x):
    pairs = sorted(pairs)
    if x <= pairs[0][0]:
        return pairs[0][1]
    for (a, fa), (b, fb) in zip(pairs, pairs[1:]):
        if a <= x <= b:
            return fa + (fb - fa) * F(x - a, b - a) if b != a else fa
    return pairs[-1][1]


def fixture_case(path):
    """(case for Kerning.tla Source=file, normalized master locations, note) of a .designspace / .ufo fixture."""
    if path.endswith(".ufo"):
        sources = [(path, {}, None)]
        axes = []
    else:
        root = ET.parse(path).getroot()
        axes = []
        for a in root.findall("./axes/axis"):
            mp = [(F(m.get("input")), F(m.get("output"))) for m in a.findall("map")]
            conv = (lambda x, mp=mp: piecewise(mp, x)) if mp else (lambda x: x)
            amin, adef, amax = (F(a.get(k)) for k in ("minimum", "default", "maximum"))
            axes.append({"name": a.get("name"), "min": conv(amin), "default": conv(adef), "max": conv(amax)})
        sources = []
        for s in root.findall("./sources/source"):
            loc = {d.get("name"): F(d.get("xvalue")) for d in s.findall("./location/dimension")}
            sources.append((os.path.join(os.path.dirname(path), s.get("filename")), loc, s.get("layer")))
    axes = [a for a in axes if a["min"] != a["max"]]
    masters = []
    for ufo, loc, layer in sources:
        if layer:
            continue        # sparse layer sources carry no kerning
        norm = []
        for a in axes:
            v = loc.get(a["name"], a["default"])
            if v == a["default"]:
                norm.append(F(0))
            elif v > a["default"]:
                norm.append(F(v - a["default"], a["max"] - a["default"]))
            else:
                norm.append(-F(a["default"] - v, a["default"] - a["min"]))
        masters.append({"ufo": ufo, "norm": norm, "groups": read_plist(os.path.join(ufo, "groups.plist")),
                        "kerning": read_plist(os.path.join(ufo, "kerning.plist"))})
    dflt = [i for i, m in enumerate(masters) if all(x == 0 for x in m["norm"])]
    if len(dflt) != 1:
        return None, None, "no unique default master"
    return masters, dflt[0], None


def fixture_tlc_case(name, masters, dflt, font_glyphs):
    """Abstract case over the glyphs of the compiled font (glyphs the UFOs do not mention are ungrouped)."""
    gset = set(font_glyphs)
    den = 1
    vals = [v for m in masters for r in m["kerning"].values() for v in r.values()]
    for v in vals:
        den = max(den, F(v).limit_denominator(64).denominator)
    if den > 64 or any(F(v).limit_denominator(64) != F(v) for v in vals):
        return None, "kerning values are not multiples of 1/64"
    lcm = 1
    for v in vals:
        d = F(v).denominator
        lcm = lcm * d // __import__("math").gcd(lcm, d)
    out = {"name": name, "glyphs": list(font_glyphs), "dflt": dflt + 1, "den": lcm, "model": False, "masters": []}
    for m in masters:
        g = {1: {x: "" for x in font_glyphs}, 2: {x: "" for x in font_glyphs}}
        live = {1: set(), 2: set()}
        for gname, members in m["groups"].items():
            s = side_of_group(gname)
            if not s:
                continue
            for x in members:
                if x in gset:
                    if g[s][x] and g[s][x] != gname:
                        return None, "glyph %s is in two side-%d kerning groups" % (x, s)
                    g[s][x] = gname
                    live[s].add(gname)
        kern = []
        for l, row in m["kerning"].items():
            for r, v in row.items():
                ls, rs = side_of_group(l), side_of_group(r)
                if ls == 2 or rs == 1:
                    continue
                if (ls == 1 and l not in live[1]) or (ls == 0 and l not in gset):
                    continue
                if (rs == 2 and r not in live[2]) or (rs == 0 and r not in gset):
                    continue
                kern.append(["c" if ls else "g", l, "c" if rs else "g", r, int(F(v) * lcm)])
        out["masters"].append({"g1": g[1], "g2": g[2], "kern": kern})
    return out, None


QUICK_FIXTURES = ("PartialKernException.designspace", "KernlessMid.designspace", "ufo2_kern.designspace",
                  "wght_var.designspace", "designspace_from_glyphs/WghtVar.designspace",
                  "designspace_from_glyphs/WghtVar_NoExport.designspace", "Ufo2Kern-Regular.ufo",
                  "CustomNameTableInFea.ufo")


def fea_defines_kern(ufo):
    """A hand-written `feature kern` (without the insertion marker) replaces the generated one: such a source's
    kerning.plist is not what the font is supposed to carry, so it is outside the property's domain."""
    seen, todo, text = set(), [os.path.join(ufo, "features.fea")], ""
    while todo:
        p = todo.pop()
        if p in seen or not os.path.exists(p):
            continue
        seen.add(p)
        t = open(p, errors="replace").read()
        text += t
        for inc in re.findall(r"include\s*\(\s*([^)]+?)\s*\)", t):
            for basedir in (os.path.dirname(p), ufo, os.path.dirname(ufo)):
                todo.append(os.path.normpath(os.path.join(basedir, inc)))
    return bool(re.search(r"feature\s+(kern|dist)\b", text)) and "# Automatic Code" not in text


def fixtures_with_kerning(quick):
    out, skipped = [], []
    for rel in common.fixtures(exts=(".designspace", ".ufo")):
        if quick and rel not in QUICK_FIXTURES:
            continue
        p = os.path.join(common.TESTDATA, rel)
        try:
            masters, dflt, note = fixture_case(p)
        except Exception:                  # unparsable fixture: not ours to judge
            continue
        if masters is None or not any(m["kerning"] for m in masters):
            continue
        if any(fea_defines_kern(m["ufo"]) for m in masters):
            skipped.append(rel)
            continue
        out.append((rel, p, masters, dflt))
    if skipped:
        common.log("fixtures with a hand-written kern feature (outside the domain): %s" % ", ".join(skipped))
    return out


def run_file_cases(ctx, fcases, tag):
    """Oracle for file cases: Kerning.tla with Source = "file"."""
    path = ctx.path("obs", "%s.ndjson" % tag)
    with open(path, "w") as f:
        for c in fcases:
            f.write(json.dumps(c) + "\n")
    cases, _, r = tlc_generate(ctx, "KerningFile.cfg", workers=2, timeout=600, env={"C09_CASES": path}, tag=tag)
    return {c["name"]: c for c in cases}


def prepare_fixtures(ctx, quick):
    """Compile the kerning fixtures, evaluate their fonts, let TLC compute the oracle (runs in a worker thread)."""
    fx = fixtures_with_kerning(quick)
    if not fx:
        raise common.ToolError("no kerning fixture found under %s" % common.TESTDATA)
    creqs = []
    for k, (rel, p, masters, dflt) in enumerate(fx):
        ttf = ctx.path("obs", "f%02d.ttf" % k)
        creqs.append({"tag": rel, "src": p, "out": ttf, "threads": 1, "no_flags": ["production_names"]})
    cres = common.vh_batch(creqs, procs=4)
    kreqs, idx = [], []
    for k, ((rel, p, masters, dflt), c) in enumerate(zip(fx, cres)):
        if not c or c.get("outcome") != "ok":
            common.log("fixture %s does not compile (%s): skipped" % (rel, (c or {}).get("message", "")[-80:]))
            continue
        ks = [i for i, m in enumerate(masters) if i == dflt or m["kerning"]]
        kreqs.append({"tag": rel, "font": creqs[k]["out"], "structure": False,
                      "locs": [{"name": "m%d" % i, "norm": [float(x) for x in masters[i]["norm"]]} for i in ks]})
        idx.append(k)
    kres = common.vh_batch(kreqs, procs=4, module="kerning")
    fcases, keep, unreadable = [], [], []
    for k, kr in zip(idx, kres):
        rel, p, masters, dflt = fx[k]
        if not kr or kr.get("outcome") != "ok":
            unreadable.append((rel, kr))
            continue
        if kr.get("unsupported"):
            common.log("fixture %s: kern feature has non-pair lookups (%s): skipped" % (rel, kr["unsupported"][:2]))
            continue
        fc, note = fixture_tlc_case(rel, masters, dflt, list(kr["glyphs"]))
        if fc is None:
            common.log("fixture %s skipped: %s" % (rel, note))
            continue
        fcases.append(fc)
        keep.append((rel, kr, cres[k]))
    if not fcases:
        raise common.ToolError("no kerning fixture could be observed")
    expd = run_file_cases(ctx, fcases, "fixtures")
    return keep, fcases, expd, unreadable


def judge_fixtures(ctx, judge, prepared):
    keep, fcases, expd, unreadable = prepared
    for rel, kr in unreadable:
        judge.violation("gpos-unreadable", {"fixture": rel}, rel, "fixture %s: GPOS cannot be evaluated: %s" %
                        (rel, (kr or {}).get("message")), {"kerning": kr})
    n = 0
    for (rel, kr, c), fc in zip(keep, fcases):
        e = expd.get(rel)
        if e is None:
            raise common.ToolError("TLC returned no expectation for fixture %s" % rel)
        before = judge.viol
        judge.judge(e, "fixture:" + rel, c, kr, generated=False, label="fixture " + rel)
        n += 1
        if e.get("nontrivial"):
            ctx.ev.nontrivial_add("fixture:" + rel)
        if judge.viol == before and n <= 2:
            ctx.ev.sample({"kind": "fixture observation", "fixture": rel, "kerning_masters": e["ks"],
                           "pairs_compared": len(e["glyphs"]) ** 2 * len(e["ks"])})
    common.log("fixtures: %d observed (%s)" % (n, ", ".join(rel for rel, _, _ in keep)))
    return n


# ----------------------------------------------------------------------------- plans


def plan(ctx):
    """[(tag, cfg, simulate traces per worker or None, workers, env)]; TLC evaluates every case of a config, the
    stride only thins what is printed for the compiler."""
    s = ctx.seed
    if ctx.quick:
        return [
            ("sim", "KerningSim.cfg", 450, 4, {}),
            ("simfrac", "KerningSimFrac.cfg", 150, 2, {}),
            ("simnames", "KerningSimNames.cfg", 300, 2, {}),
            # the small exhaustive config alternates between divergent side-1 and side-2 groups with the seed
            ("x2a", "KerningX2a.cfg", None, 2, {"C09_MAXTOTAL": 2, "C09_STRIDE": 12, "C09_OFFSET": s}) if s % 2 else
            ("x2b", "KerningX2b.cfg", None, 2, {"C09_MAXTOTAL": 2, "C09_STRIDE": 12, "C09_OFFSET": s}),
        ]
    return [
        ("sim", "KerningSim.cfg", 4000, 4, {}),
        ("x2a", "KerningX2a.cfg", None, 2, {"C09_STRIDE": 4, "C09_OFFSET": s}),
        ("x2b", "KerningX2b.cfg", None, 2, {"C09_STRIDE": 4, "C09_OFFSET": s}),
        ("x1", "KerningX1.cfg", None, 2, {"C09_STRIDE": 4, "C09_OFFSET": s}),
        ("simfrac", "KerningSimFrac.cfg", 1500, 2, {}),
        ("simnames", "KerningSimNames.cfg", 3000, 2, {}),
        ("simwide", "KerningSimWide.cfg", 2500, 2, {}),
        ("x0", "KerningX0.cfg", None, 2, {"C09_STRIDE": 16, "C09_OFFSET": s}),
    ]


# wall-clock budgets of the compile stage, counted from the arrival of the first TLC cases (the box is shared:
# compile throughput varies 10x with its load); what was emitted but not compiled in time is counted in the
# evidence (coverage.configs)
BUDGET_S = {"quick": 100, "thorough": 17 * 60}


def account(ev, info, tag, fresh, n):
    """Book the first n cases of `fresh` as compiled for config `tag`."""
    info["compiled"] = n
    for cid, c in fresh[:n]:
        if c.get("nontrivial"):
            ev.nontrivial_add(cid)
    if n:
        cid, c = fresh[n // 2]
        ev.sample({"kind": "REPLAY case (%s)" % tag, "id": cid, "default_master": c["dflt"],
                   "masters": [dict(zip(("groups", "kerning"), master_plists(m, c["den"]))) for m in c["masters"]],
                   "kerning_masters": c["ks"], "expected": c["exp"], "designOk": c["designOk"]})


def main(ctx):
    common.build_harness()
    ev = ctx.ev
    judge = Judge(ctx)
    mat = Materializer(ctx)

    if ctx.replay:
        doc = json.load(open(ctx.replay))
        case = (doc.get("replay") or doc).get("case")
        if not case or "masters" not in case:
            raise common.ToolError("%s holds no generated case" % ctx.replay)
        fc = {"name": "replay", "glyphs": case["glyphs"], "dflt": case["dflt"], "den": case["den"], "model": True,
              "masters": [{"g1": m["g1"], "g2": m["g2"], "kern": [list(e) for e in m["kern"]]} for m in case["masters"]]}
        e = run_file_cases(ctx, [fc], "replay")["replay"]      # oracle and transcription recomputed by TLC
        cid = case_id(e)
        c, k, ds = compile_full(ctx, e, cid, "replay")
        common.log("replaying case %s (%s)" % (cid, ds))
        judge.judge(e, cid, c, k, generated=True, label="replayed case " + cid)
        ev.traces = judge.fonts
        ev.evaluations = judge.evals
        ev.rule = "replay of one recorded case"
        return

    t0 = time.time()
    seen = set()
    total_tlc_cases = 0
    exhaustive = True
    jobs = plan(ctx)
    deadline = None          # set when the first cases arrive: the budget is compile time, TLC runs alongside
    per_cfg = {}
    with concurrent.futures.ThreadPoolExecutor(3 if ctx.quick else 2) as ex:
        fix_future = ex.submit(prepare_fixtures, ctx, ctx.quick)
        futs = {}
        for tag, cfg, sim, workers, env in jobs:
            futs[ex.submit(tlc_generate, ctx, cfg, simulate=sim, workers=workers, env=env,
                           seed=ctx.seed * 7919 + 13, tag=tag)] = (tag, sim, env)
        pending = len(futs)
        ready = []
        for fut in concurrent.futures.as_completed(futs):
            tag, sim, env = futs[fut]
            cases, skipped, r = fut.result()
            total_tlc_cases += len(cases) + skipped
            fresh = []
            for c in cases:
                cid = case_id(c)
                if cid in seen:
                    continue
                seen.add(cid)
                fresh.append((cid, c))
                if c.get("conflict"):
                    judge.drift("insert-resolved-conflict", "case %s: two keys resolve one output pair to different "
                                "values (kern.rs says this cannot happen)" % cid)
            random.Random(ctx.seed).shuffle(fresh)
            # design-level counterexamples first, then sources whose entries interact (the compile budget may
            # cut the tail: what is cut is the least interesting part of the seeded sample)
            fresh.sort(key=lambda x: (x[1]["designOk"], -interest(x[1])))
            bad_design = [c for _, c in fresh if not c["designOk"]]
            if bad_design:
                print("DESIGN-LEVEL: %s: in %d of %d emitted cases the transcribed design (Kerning.tla) gives some pair "
                      "another value than UfoLookup; all of them are replayed into the real compiler" %
                      (tag, len(bad_design), len(fresh)), flush=True)
            info = {"cfg": r.cfg, "mode": r.mode, "tlc_cases": len(cases) + skipped, "emitted": len(fresh),
                    "compiled": 0, "design_level_counterexamples": len(bad_design),
                    "thinned": sim is not None or int(env.get("C09_STRIDE", 1)) > 1}
            per_cfg[tag] = info
            if ctx.quick:
                ready.append((tag, fresh))          # merged below, once every generator has delivered
                continue
            # thorough: compile while the other generators still run; a fair share of what is left of the budget
            now = time.time()
            if deadline is None:
                deadline = now + BUDGET_S[ctx.tier]
            share = max(deadline - now, 0) / pending
            pending -= 1
            n = run_cases(ctx, judge, mat, fresh, tag, now + share, chunk=500)
            account(ev, info, tag, fresh, n)
        if ctx.quick:
            # one list over all configs: design-level counterexamples first, then rank within the config (interest),
            # configs interleaved -- so the budget, however little the loaded box lets it buy, is spent on the most
            # interesting sources of EVERY config
            merged = sorted(((not c["designOk"] and -1 or rank, k, tag, cid, c)
                             for k, (tag, fresh) in enumerate(ready) for rank, (cid, c) in enumerate(fresh)),
                            key=lambda x: x[:2])
            todo = [(cid, c) for _, _, _, cid, c in merged]
            n = run_cases(ctx, judge, mat, todo, "quick", time.time() + BUDGET_S[ctx.tier], chunk=120)
            done_ids = set(cid for cid, _ in todo[:n])
            for tag, fresh in ready:
                fresh_done = [x for x in fresh if x[0] in done_ids]
                account(ev, per_cfg[tag], tag, fresh_done + [x for x in fresh if x[0] not in done_ids], len(fresh_done))
    thinned = [i.pop("thinned") or i["compiled"] < i["emitted"] for i in per_cfg.values()]
    if any(thinned):
        exhaustive = False
    ev.extra["configs"] = per_cfg
    n_fix = judge_fixtures(ctx, judge, fix_future.result())

    ev.traces = judge.fonts
    ev.evaluations = judge.evals
    ev.exhaustive = exhaustive
    ev.rule = ("non-trivial = the oracle gives at least one ordered pair a non-zero adjustment at some kerning master "
               "(so the font has to carry a kern lookup that moves something)")
    ev.extra["tlc_cases_evaluated"] = total_tlc_cases
    ev.extra["fonts_with_moving_kern"] = judge.moved
    ev.extra["fixtures_observed"] = n_fix
    ev.extra["design_level_counterexamples"] = judge.design
    ev.extra["design_level_counterexamples_reproduced_by_font"] = judge.design_real
    ev.extra["violation_kinds"] = judge.kinds
    ev.extra["drift_kinds"] = judge.drifts
    ev.extra["case_shapes"] = dict(sorted(judge.shapes.items(), key=lambda kv: -kv[1])[:40])
    ev.assumptions = [
        "glyphs are base Latin letters (one LTR script, no marks): one kern lookup; RTL / mark / multi-script "
        "splitting is not enumerated (fixtures only)",
        "masters sit at normalized positions exactly representable in F2Dot14 on one axis; the variation model "
        "reproducing master values exactly is C07's subject",
        "trusted: TLC, read-fonts table parsing and ItemVariationStore::compute_delta, the harness's pair evaluator",
    ]
    common.log("C09: %d fonts compared, %d pair evaluations, %d violations, %.0fs" %
               (judge.fonts, judge.evals, judge.viol, time.time() - t0))
