"""C11 Compiled GSUB/GPOS behave as the feature file says.

Oracle: spec/FeaSem.tla (the meaning of an abstract feature program: lookups in declaration order, language
system registration, OpenType application) evaluated by TLC.  Binding:
 (R) TLC generates abstract programs (generator A: all single-lookup programs with <= 2 rules, B: all
     two-lookup programs over a reduced rule universe, C: seeded `-simulate` programs with <= 3 lookups x <= 3
     rules) and computes, for every registered (script, language) and every feature subset, what each of the
     155 glyph strings of length <= 3 over {a,b,c,d,m} becomes.  This file renders the program to FEA text,
     `vh feasem` compiles it with the real fea-rs and applies the *compiled* GSUB/GPOS/GDEF with its own
     table interpreter; any difference is a violation.
 (O) every .fea of the repository's compile-test corpus that the conservative recogniser below maps into the
     modelled subset is compiled unchanged, and compared in the same way with what TLC computes for its
     projection.
"""
import json, os, re, random, time, concurrent.futures
import common

GLYPHS = [".notdef", "a", "b", "c", "d", "m", "n"]
SHAPES = {}  # compiled subtable shapes met by the interpreter (evidence)

# ----------------------------------------------------------------------------- abstract program -> FEA text


def r_gc(x, names, cls_names):
    f, gs = x["f"], x["gs"]
    if f == "g":
        return names[gs[0]]
    if f == "c":
        return "[" + " ".join(names[g] for g in gs) + "]"
    if f == "r":
        return "[%s-%s]" % (names[gs[0]], names[gs[1]])
    if f == "n":
        return cls_names[gs[0] - 1]
    raise common.ToolError("glyph class form %r" % (x,))


def r_rule(r, names, cn):
    t = r["t"]
    g = lambda x: r_gc(x, names, cn)
    if t == "ss":
        return "sub %s by %s;" % (g(r["from"]), g(r["to"]))
    if t == "ms":
        return "sub %s by %s;" % (g(r["from"]), " ".join(names[x] for x in r["to"]))
    if t == "ls":
        return "sub %s by %s;" % (" ".join(g(c) for c in r["comps"]), names[r["to"]])
    if t == "cs":
        parts = [g(b) for b in r["back"]]
        for it in r["inp"]:
            parts.append(g(it["g"]) + "'" + "".join(" lookup L%d" % n for n in it["lk"]))
        parts += [g(l) for l in r["look"]]
        s = ("ignore sub " if r["ign"] else "sub ") + " ".join(parts)
        if r["inl"]:
            i = r["inl"][0]
            if i["t"] == "ss":
                s += " by " + g(i["to"])
            elif i["t"] == "ls":
                s += " by " + names[i["to"]]
            else:
                s += " by " + " ".join(names[x] for x in i["to"])
        return s + ";"
    if t == "sp":
        return "pos %s %d;" % (g(r["g"]), r["v"])
    if t == "pp":
        return "pos %s %s %d;" % (g(r["a"]), g(r["b"]), r["v"])
    raise common.ToolError("rule type %r" % t)


def r_flag(v, cn):
    if v == 0:
        return "0"
    if v == 8:
        return "IgnoreMarks"
    if 100 < v < 200:
        return "UseMarkFilteringSet %s" % cn[v - 101]
    if v > 200:
        return "MarkAttachmentType %s" % cn[v - 201]
    raise common.ToolError("lookupflag value %r" % v)


def r_stmts(body, names, cn, ind):
    out = []
    for s in body:
        k = s["k"]
        if k == "flag":
            out.append(ind + "lookupflag %s;" % r_flag(s["v"], cn))
        elif k == "script":
            out.append(ind + "script %s;" % s["tag"].strip())
        elif k == "lang":
            out.append(ind + "language %s%s;" % (s["tag"].strip(), " exclude_dflt" if s["excl"] else ""))
        elif k == "ref":
            out.append(ind + "lookup L%d;" % s["name"])
        elif k == "L":
            out.append(ind + "lookup L%d {" % s["name"])
            out += r_stmts(s["body"], names, cn, ind + "  ")
            out.append(ind + "} L%d;" % s["name"])
        elif k == "R":
            out.append(ind + r_rule(s["r"], names, cn))
        else:
            raise common.ToolError("statement %r" % k)
    return out


def render(p, names=GLYPHS):
    cn = ["@C%d" % (i + 1) for i in range(len(p["cls"]))]
    out = ["languagesystem %s %s;" % (s.strip(), l.strip()) for s, l in p["ls"]]
    for n, c in zip(cn, p["cls"]):
        out.append("%s = [%s];" % (n, " ".join(names[g] for g in c)))
    marks = set(p["marks"])
    if marks:
        bases = [g for g in range(1, len(names)) if g not in marks]
        out.append("table GDEF { GlyphClassDef [%s], , [%s], ; } GDEF;" %
                   (" ".join(names[g] for g in bases), " ".join(names[g] for g in sorted(marks))))
    for b in p["top"]:
        if b["k"] == "L":
            out.append("lookup L%d {" % b["name"])
            out += r_stmts(b["body"], names, cn, "  ")
            out.append("} L%d;" % b["name"])
        else:
            out.append("feature %s {" % b["tag"])
            out += r_stmts(b["body"], names, cn, "  ")
            out.append("} %s;" % b["tag"])
    return "\n".join(out) + "\n"


# ----------------------------------------------------------------------------- TLC stages


def generate(ctx, cfg, tag, simulate=None, seed=None, timeout=900, stride=1, offset=0):
    """Run one generator config; stride/offset thin the enumeration of generators A and B (quick tier)."""
    if stride != 1:
        text = open(os.path.join(common.SPEC, cfg)).read()
        if "Stride = 1 Offset = 0" not in text:
            raise common.ToolError("%s has no Stride/Offset constants" % cfg)
        cfg = ctx.path("%s_stride%d_%d.cfg" % (tag, stride, offset))
        with open(cfg, "w") as f:
            f.write(text.replace("Stride = 1 Offset = 0", "Stride = %d Offset = %d" % (stride, offset)))
    r = common.run_tlc(ctx, "FeaSem", cfg, workers=1 if simulate else 2, timeout=timeout, simulate=simulate,
                       depth=20 if simulate else None, seed=seed, tag=tag, xmx="2g")
    if r.error or r.timed_out or r.violated:
        raise common.ToolError("generator %s failed: %s" % (cfg, r.error or r.violated or "timeout"))
    progs = common.replay_lines(r.out)
    if not progs:
        raise common.ToolError("generator %s produced nothing" % cfg)
    return progs


def key_of(c):
    return json.dumps(c["p"], sort_keys=True)


def evaluate(ctx, cases, procs=4, timeout=1500, tag="eval"):
    """cases: list of {"id", "p"}; returns {id: expected} computed by TLC (FeaSemObs)."""
    if not cases:
        return {}
    path = ctx.path("%s_cases.ndjson" % tag)
    with open(path, "w") as f:
        for c in cases:
            f.write(json.dumps({"id": c["id"], "p": c["p"]}) + "\n")
    n = len(cases)
    r = common.run_tlc(ctx, "FeaSemObs", "FeaSemObs.cfg", workers=procs, timeout=timeout, xmx="4g",
                       env={"CASES": path}, tag=tag)
    if r.error or r.timed_out or r.violated:
        raise common.ToolError("FeaSemObs failed: %s\n%s" % (r.error or r.violated or "timeout",
                                                            common.tlc_trace_text(r.out)[:1500]))
    out = {rec["id"]: rec["e"] for rec in common.replay_lines(r.out)}
    if len(out) != n:
        raise common.ToolError("FeaSemObs evaluated %d of %d cases" % (len(out), n))
    return out


# ----------------------------------------------------------------------------- comparison


def sparse_map(lst):
    return {e[0]: (e[1], e[2]) for e in lst}


def string_at(alpha, n):
    a = len(alpha)
    n -= 1
    if n < a:
        return [alpha[n]]
    if n < a + a * a:
        q = n - a
        return [alpha[q // a], alpha[q % a]]
    q = n - a - a * a
    return [alpha[q // (a * a)], alpha[(q // a) % a], alpha[q % a]]


def show(gs, names):
    return " ".join(names[g] if g < len(names) else "gid%d" % g for g in gs)


def compare(ctx, case, exp, obs, names, origin):
    """exp: Expected(p) from TLC (ok = TRUE); obs: response of vh feasem. Returns True when non-trivial."""
    p = case["p"]
    fea = case["fea"]
    ident = case["sig"]
    if obs.get("outcome") != "ok":
        ctx.violation("c11:%s:%s" % (obs.get("outcome"), ident),
                      "%s: the program is well-formed for the specification but fea-rs gives %s: %s\n%s" %
                      (origin, obs.get("outcome"), (obs.get("message") or "")[:600], fea),
                      dict(program=p, fea=fea, glyphs=names, result=obs))
        return False
    if obs.get("notes"):
        ctx.violation("c11:notes:%s" % ident,
                      "%s: compiled tables contain something the source did not ask for: %s\n%s" %
                      (origin, obs["notes"], fea), dict(program=p, fea=fea, glyphs=names, result=obs))
        return False
    for tb in ("gsub", "gpos"):
        for l in ((obs.get("info") or {}).get(tb) or {}).get("lookups", []):
            for lab in l[2]:
                k = "%s type %d%s flag %d %s" % (tb.upper(), l[0], " (extension)" if l[3] else "", l[1], lab)
                SHAPES[k] = SHAPES.get(k, 0) + 1
    nontrivial = False
    diffs = []
    for ci, combo in enumerate(exp["combos"]):
        e = sparse_map(exp["res"][combo[3] - 1])
        o = sparse_map(obs["results"][ci])
        if e:
            nontrivial = True
        ctx.ev.evaluations += len(case["strings"])
        if e != o:
            diffs.append((combo, e, o, sorted(n for n in set(e) | set(o) if e.get(n) != o.get(n))))
    if diffs:
        combo, e, o, bad = diffs[0]
        n = bad[0]
        s = string_at(p["alpha"], n)
        ident_out = (s, [0] * len(s))
        eg, og = e.get(n, ident_out), o.get(n, ident_out)
        what = ("%s: script %s language %s features %s, input [%s]: the feature file says [%s] adv %s, the compiled "
                "tables give [%s] adv %s (%d of %d strings differ; %d of %d (script, language, features) "
                "combinations differ)\n%s" %
                (origin, combo[0], combo[1], ",".join(combo[2]), show(s, names), show(eg[0], names), eg[1],
                 show(og[0], names), og[1], len(bad), len(case["strings"]), len(diffs), len(exp["combos"]), fea))
        # one structural class gets its own signature prefix so that a listed defect can be told apart: every
        # differing combination is the language of a `script X; language Y;` pair with nothing in between
        pairs = set(script_then_language(p))
        cls = "script-then-language:" if pairs and all((d[0][0], d[0][1]) in pairs for d in diffs) else ""
        ctx.violation("c11:diff:%s%s" % (cls, ident), what,
                      dict(program=p, fea=fea, glyphs=names, combo=combo[:3], input=s, expected=eg, observed=og,
                           differing=bad[:50], differing_combos=[d[0][:3] for d in diffs], info=obs.get("info")))
    return nontrivial


def script_then_language(p):
    """(script, language) of every inheriting `language` statement that directly follows a `script` statement
    whose dflt is a declared languagesystem, with feature-level default lookups before it."""
    for b in p["top"]:
        if b["k"] != "F":
            continue
        body = b["body"]
        for i in range(1, len(body)):
            if (body[i]["k"] == "lang" and not body[i]["excl"] and body[i - 1]["k"] == "script"
                    and any(x["k"] in ("R", "ref", "L") for x in body[:i - 1])
                    and [body[i - 1]["tag"], "dflt"] in p["ls"]):
                yield (body[i - 1]["tag"], body[i]["tag"])


def rule_types(p):
    """types of the rules of a generated program in source order (helper lookups L8/L9 aside)"""
    out = []

    def walk(body):
        for st in body:
            if st["k"] == "R":
                out.append(st["r"]["t"])
            elif st["k"] == "L":
                walk(st["body"])
    for b in p["top"]:
        if not (b["k"] == "L" and b["name"] in (8, 9)):
            walk(b["body"])
    return out


def flag_values(p):
    """values of the lookupflag statements of a program in source order (helper lookups aside)"""
    out = []

    def walk(body):
        for st in body:
            if st["k"] == "flag":
                out.append(st["v"])
            elif st["k"] == "L":
                walk(st["body"])
    for b in p["top"]:
        if not (b["k"] == "L" and b["name"] in (8, 9)):
            walk(b["body"])
    return out


def short_sig(fea):
    body = " ".join(l.strip() for l in fea.splitlines()
                    if l.strip() and not l.startswith(("@C", "table GDEF")))
    return body[:300]


def replay_generated(ctx, cases, origin, procs, exp=None):
    """cases: [{"id","p","tpl"}]; expected observations from TLC (exp, or evaluated here), compiled with fea-rs,
    compared. Returns counters."""
    if exp is None:
        exp = evaluate(ctx, cases, procs=4, tag=origin)
    live = []
    dropped = {}
    for c in cases:
        e = exp[c["id"]]
        if not e["ok"]:
            for w in e["why"]:
                dropped[w] = dropped.get(w, 0) + 1
            continue
        c["fea"] = render(c["p"])
        c["sig"] = short_sig(c["fea"])
        c["strings"] = range(155)
        live.append(c)
    reqs = [dict(tag=c["id"], fea=c["fea"], glyphs=GLYPHS, alpha=c["p"]["alpha"], maxlen=3,
                 queries=[x[:3] for x in exp[c["id"]]["combos"]]) for c in live]
    res = common.vh_batch(reqs, procs=procs, module="feasem")
    nontriv = 0
    for c, o in zip(live, res):
        if o is None:
            raise common.ToolError("no answer from vh feasem for case %s" % c["id"])
        ctx.ev.traces += 1
        if compare(ctx, c, exp[c["id"]], o, GLYPHS, "%s/%s" % (origin, c.get("tpl", ""))):
            nontriv += 1
            ctx.ev.nontrivial_add(c["sig"])
    if live:
        c = live[len(live) // 2]
        ctx.ev.sample({"origin": origin, "fea": c["fea"], "expected_changes": sum(len(r) for r in exp[c["id"]]["res"]),
                       "combos": [x[:3] for x in exp[c["id"]]["combos"]]}, limit=8)
    return dict(candidates=len(cases), replayed=len(live), nontrivial=nontriv, dropped=dropped)


# ----------------------------------------------------------------------------- corpus recogniser

TOK = re.compile(r"\s+|#[^\n]*|(<[^>]*>)|(-?\d+(?![A-Za-z_.]))|([{}\[\];,'=\-])|(@?[A-Za-z_.\\][A-Za-z0-9_.\-]*'?)")


class NotModelled(Exception):
    pass


def tokenize(text):
    pos, out = 0, []
    while pos < len(text):
        m = TOK.match(text, pos)
        if not m:
            raise NotModelled("token at %r" % text[pos:pos + 10])
        pos = m.end()
        t = m.group(1) or m.group(2) or m.group(3) or m.group(4)
        if t:
            if len(t) > 1 and t.endswith("'") and not t.startswith("<"):
                out += [t[:-1], "'"]
            else:
                out.append(t)
    return out


class Recogniser:
    """FEA text -> abstract program of spec/FeaSem.tla, or NotModelled. Deliberately small: anything that is not
    plainly in the modelled subset (includes, anchors, value records in <>, mark classes, contextual pos, aalt,
    alternates, reverse chaining, cv/ss parameters, tables other than the GDEF glyph classes, ...) is refused."""

    def __init__(self, text, gid):
        self.t = tokenize(text)
        self.i = 0
        self.gid = gid  # name -> glyph id
        self.cls = []   # member lists
        self.cls_idx = {}
        self.names = {}  # lookup name -> number
        self.marks = None
        self.sets_used = False
        self.used = set()

    def peek(self, k=0):
        return self.t[self.i + k] if self.i + k < len(self.t) else None

    def take(self, want=None):
        t = self.peek()
        if t is None or (want is not None and t != want):
            raise NotModelled("expected %r, found %r" % (want, t))
        self.i += 1
        return t

    def glyph(self, name):
        if name in self.KEYWORDS:
            raise NotModelled("keyword %s where a glyph is expected" % name)
        name = name.lstrip("\\")
        if name not in self.gid:
            raise NotModelled("glyph %s" % name)
        g = self.gid[name]
        self.used.add(g)
        return g

    KEYWORDS = {"by", "from", "lookup", "NULL", "sub", "substitute", "pos", "position", "ignore", "feature", "script",
                "language", "lookupflag", "table", "anchor", "cursive", "mark", "base", "ligature", "enum",
                "enumerate", "rsub", "reversesub", "subtable", "include", "markClass", "useExtension", "parameters",
                "anon", "anonymous", "variation", "conditionset", "valueRecordDef", "anchorDef", "featureNames"}

    def is_glyphish(self, t):
        if t is None or t in self.KEYWORDS:
            return False
        return t == "[" or t.startswith("@") or t.lstrip("\\") in self.gid

    def gc(self):
        t = self.take()
        if t == "[":
            gs = []
            while self.peek() != "]":
                x = self.take()
                if x.startswith("@"):
                    if x not in self.cls_idx:
                        raise NotModelled("class %s" % x)
                    gs += self.cls[self.cls_idx[x]]
                elif self.peek() == "-":
                    # a range: only single letters, expanded by name as the specification says
                    self.take("-")
                    y = self.take()
                    if not (len(x) == 1 and len(y) == 1 and x.isalpha() and y.isalpha() and x.islower() == y.islower() and x <= y):
                        raise NotModelled("range %s-%s" % (x, y))
                    gs += [self.glyph(chr(c)) for c in range(ord(x), ord(y) + 1)]
                else:
                    gs.append(self.glyph(x))
            self.take("]")
            if len(set(gs)) != len(gs) or not gs:
                raise NotModelled("class with repeated or no members")
            return {"f": "c", "gs": gs}
        if t.startswith("@"):
            if t not in self.cls_idx:
                raise NotModelled("class %s" % t)
            return {"f": "n", "gs": [self.cls_idx[t] + 1]}
        return {"f": "g", "gs": [self.glyph(t)]}

    def number(self):
        t = self.take()
        if not re.fullmatch(r"-?\d+", t):
            raise NotModelled("value %r" % t)
        return int(t)

    def rule(self, kw):
        if kw in ("sub", "substitute"):
            return self.sub_rule(False)
        if kw in ("pos", "position"):
            a = self.gc()
            if self.is_glyphish(self.peek()):
                b = self.gc()
                v = self.number()
                self.take(";")
                return {"t": "pp", "a": a, "b": b, "v": v}
            v = self.number()
            self.take(";")
            return {"t": "sp", "g": a, "v": v}
        raise NotModelled("statement %s" % kw)

    def sub_rule(self, ign):
        back, inp, look = [], [], []
        marked = False
        while self.is_glyphish(self.peek()):
            x = self.gc()
            if self.peek() == "'":
                self.take("'")
                if look:
                    raise NotModelled("marked glyphs not contiguous")
                marked = True
                lk = []
                while self.peek() == "lookup":
                    self.take()
                    n = self.take()
                    if n not in self.names:
                        raise NotModelled("lookup %s" % n)
                    lk.append(self.names[n])
                inp.append({"g": x, "lk": lk})
            elif marked:
                look.append(x)
            else:
                back.append(x)
        if ign:
            if not marked:
                raise NotModelled("ignore without marks")
            if self.peek() == ",":
                raise NotModelled("ignore with several sequences")
            self.take(";")
            return {"t": "cs", "back": back, "inp": inp, "look": look, "inl": [], "ign": True}
        if not marked:
            if self.take() != "by":
                raise NotModelled("sub without by")
            if not self.is_glyphish(self.peek()):
                raise NotModelled("replacement")
            to = []
            while self.is_glyphish(self.peek()):
                to.append(self.gc())
            self.take(";")
            if len(back) == 1 and len(to) == 1:
                return {"t": "ss", "from": back[0], "to": to[0]}
            if len(back) == 1 and all(x["f"] == "g" for x in to) and back[0]["f"] == "g":
                return {"t": "ms", "from": back[0], "to": [x["gs"][0] for x in to]}
            if len(back) >= 2 and len(to) == 1 and to[0]["f"] == "g":
                return {"t": "ls", "comps": back, "to": to[0]["gs"][0]}
            raise NotModelled("substitution shape")
        inl = []
        if self.peek() == "by":
            self.take()
            to = []
            while self.is_glyphish(self.peek()):
                to.append(self.gc())
            if any(it["lk"] for it in inp) or not to:
                raise NotModelled("inline and named lookups")
            if len(inp) == 1 and len(to) == 1:
                inl = [{"t": "ss", "to": to[0]}]
            elif len(inp) == 1 and all(x["f"] == "g" for x in to):
                inl = [{"t": "ms", "to": [x["gs"][0] for x in to]}]
            elif len(inp) >= 2 and len(to) == 1 and to[0]["f"] == "g":
                inl = [{"t": "ls", "to": to[0]["gs"][0]}]
            else:
                raise NotModelled("inline shape")
        self.take(";")
        return {"t": "cs", "back": back, "inp": inp, "look": look, "inl": inl, "ign": False}

    def lookup_name(self, n):
        if n not in self.names:
            self.names[n] = len(self.names) + 1
        return self.names[n]

    def stmts(self, end_name, in_feature):
        body = []
        while True:
            t = self.take()
            if t == "}":
                self.take(end_name)
                self.take(";")
                return body
            if t == "lookupflag":
                v = self.take()
                if v in ("UseMarkFilteringSet", "MarkAttachmentType"):
                    x = self.gc()
                    if x["f"] == "n":
                        k = x["gs"][0]
                    else:
                        self.cls.append(x["gs"])  # anonymous class of the projection
                        k = len(self.cls)
                    val = (100 if v == "UseMarkFilteringSet" else 200) + k
                    self.sets_used = True
                elif v in ("0", "IgnoreMarks"):
                    val = 8 if v == "IgnoreMarks" else 0
                else:
                    raise NotModelled("lookupflag %s" % v)
                if self.peek() != ";":
                    raise NotModelled("lookupflag combination")
                self.take(";")
                body.append({"k": "flag", "v": val})
            elif t == "script" and in_feature:
                tag = self.take()
                self.take(";")
                body.append({"k": "script", "tag": (tag + "    ")[:4]})
            elif t == "language" and in_feature:
                tag = self.take()
                excl = False
                if self.peek() in ("exclude_dflt", "include_dflt"):
                    excl = self.take() == "exclude_dflt"
                self.take(";")
                body.append({"k": "lang", "tag": (tag + "    ")[:4], "excl": excl})
            elif t == "lookup":
                n = self.take()
                if self.peek() == "{":
                    if not in_feature:
                        raise NotModelled("nested lookup block")
                    self.take("{")
                    if n in self.names:
                        raise NotModelled("lookup defined twice")
                    inner = self.stmts(n, False)
                    body.append({"k": "L", "name": self.lookup_name(n), "body": inner})
                else:
                    self.take(";")
                    if n not in self.names or not in_feature:
                        raise NotModelled("lookup reference")
                    body.append({"k": "ref", "name": self.names[n]})
            elif t.startswith("@") and self.peek() == "=":
                self.class_def(t)
            elif t == "ignore":
                kw = self.take()
                if kw not in ("sub", "substitute"):
                    raise NotModelled("ignore pos")
                body.append({"k": "R", "r": self.sub_rule(True)})
            elif t in ("sub", "substitute", "pos", "position"):
                body.append({"k": "R", "r": self.rule(t)})
            else:
                raise NotModelled("statement %s" % t)

    def class_def(self, t):
        self.take("=")
        x = self.gc()
        self.take(";")
        members = x["gs"] if x["f"] != "n" else self.cls[x["gs"][0] - 1]
        if t in self.cls_idx:
            raise NotModelled("class redefined")
        self.cls_idx[t] = len(self.cls)
        self.cls.append(members)

    def program(self):
        ls, top = [], []
        while self.peek() is not None:
            t = self.take()
            if t == "languagesystem":
                s, l = self.take(), self.take()
                self.take(";")
                if top:
                    raise NotModelled("languagesystem after a block")
                ls.append([(s + "    ")[:4], (l + "    ")[:4]])
            elif t.startswith("@") and self.peek() == "=":
                self.class_def(t)
            elif t == "feature":
                tag = self.take()
                if tag in ("aalt", "size") or re.fullmatch(r"ss\d\d|cv\d\d|vkrn|vpal|vhal|valt", tag):
                    raise NotModelled("feature %s" % tag)
                if self.peek() == "useExtension":
                    self.take()
                self.take("{")
                top.append({"k": "F", "tag": (tag + "    ")[:4], "body": self.stmts(tag, True)})
            elif t == "lookup":
                n = self.take()
                if self.peek() == "useExtension":
                    self.take()
                self.take("{")
                if n in self.names:
                    raise NotModelled("lookup defined twice")
                body = self.stmts(n, False)
                top.append({"k": "L", "name": self.lookup_name(n), "body": body})
            elif t == "table":
                if self.take() != "GDEF" or self.marks is not None:
                    raise NotModelled("table")
                self.take("{")
                self.take("GlyphClassDef")
                parts = [[]]
                while self.peek() != ";":
                    if self.peek() == ",":
                        self.take()
                        parts.append([])
                    else:
                        x = self.gc()
                        parts[-1] += x["gs"] if x["f"] != "n" else self.cls[x["gs"][0] - 1]
                self.take(";")
                self.take("}")
                self.take("GDEF")
                self.take(";")
                if len(parts) != 4:
                    raise NotModelled("GlyphClassDef")
                self.marks = parts[2]
            else:
                raise NotModelled("top-level %s" % t)
        if not any(b["k"] == "F" for b in top):
            raise NotModelled("no feature")
        return ls, top


def uses_flag(top):
    def walk(body):
        return any((s["k"] == "flag" and s["v"] != 0) or (s["k"] == "L" and walk(s["body"])) for s in body)
    return any(walk(b["body"]) for b in top)


def project(text, order):
    gid = {n: i for i, n in enumerate(order)}
    rec = Recogniser(text, gid)
    ls, top = rec.program()
    if rec.marks is None and uses_flag(top):
        # without an explicit GDEF the glyph classes are inferred by the compiler: not in the model
        raise NotModelled("mark-skipping lookupflag without explicit GDEF classes")
    used = sorted(rec.used)
    if len(used) > 7:
        raise NotModelled("more than 7 glyphs")
    # input alphabet: the glyphs of the rules plus one glyph no rule mentions
    other = next(g for g in range(1, len(order)) if g not in rec.used and g not in (rec.marks or []))
    alpha = used + [other]
    return {"ls": ls, "cls": rec.cls, "marks": [g for g in (rec.marks or []) if g in alpha], "alpha": alpha,
            "top": top}


def corpus_files():
    base = os.path.join(common.REPO, "fea-rs", "test-data")
    out = []
    ct = os.path.join(base, "compile-tests")
    for grp in sorted(os.listdir(ct)):
        d = os.path.join(ct, grp, "good")
        order = os.path.join(ct, grp, "glyph_order.txt")
        if os.path.isdir(d) and os.path.exists(order):
            for f in sorted(os.listdir(d)):
                if f.endswith(".fea"):
                    out.append((os.path.join(d, f), order, None))
    ft = os.path.join(base, "fonttools-tests")
    for f in sorted(os.listdir(ft)):
        if f.endswith(".fea"):
            out.append((os.path.join(ft, f), os.path.join(base, "simple_glyph_order.txt"), [800, 1001]))
    return out


def read_order(path, cids):
    names = [l.strip() for l in open(path) if l.strip() and not l.startswith("#")]
    if cids:
        names += ["cid%05d" % c for c in range(cids[0], cids[1] + 1)]
    return names


def corpus_project(first_id):
    files = corpus_files()
    cases, skipped = [], {}
    for path, order_path, cids in files:
        order = read_order(order_path, cids)
        text = open(path, encoding="utf-8", errors="replace").read()
        rel = os.path.relpath(path, common.REPO)
        try:
            p = project(text, order)
        except NotModelled as e:
            k = " ".join(str(e).split(" ")[:2])
            skipped[k] = skipped.get(k, 0) + 1
            continue
        cases.append({"id": first_id + len(cases), "p": p, "fea": text, "sig": rel, "order": order,
                      "order_path": order_path, "cids": cids, "rel": rel})
    return files, cases, skipped


def corpus_compare(ctx, files, cases, skipped, exp):
    live, ambiguous = [], {}
    for c in cases:
        e = exp[c["id"]]
        if not e["ok"]:
            for w in e["why"]:
                ambiguous[w] = ambiguous.get(w, 0) + 1
            continue
        a = len(c["p"]["alpha"])
        c["strings"] = range(a + a * a + a * a * a)
        live.append(c)
    reqs = []
    for c in live:
        r = dict(tag=c["id"], fea=c["fea"], glyph_order_file=c["order_path"], alpha=c["p"]["alpha"], maxlen=3,
                 queries=[x[:3] for x in exp[c["id"]]["combos"]])
        if c["cids"]:
            r["add_cids"] = c["cids"]
        reqs.append(r)
    res = common.vh_batch(reqs, procs=4, module="feasem")
    nontriv = 0
    for c, o in zip(live, res):
        if o is None:
            raise common.ToolError("no answer from vh feasem for %s" % c["rel"])
        ctx.ev.traces += 1
        if compare(ctx, c, exp[c["id"]], o, c["order"], "corpus %s" % c["rel"]):
            nontriv += 1
            ctx.ev.nontrivial_add("corpus:" + c["rel"])
    return dict(files=len(files), projected=len(cases), compared=len(live), nontrivial=nontriv,
                not_modelled=skipped, ambiguous_or_outside_model=ambiguous, compared_files=[c["rel"] for c in live])


# ----------------------------------------------------------------------------- main


def main(ctx):
    common.build_harness()
    ev = ctx.ev
    ev.rule = ("a program counts when the specification's Shape changes at least one of the input strings "
               "(glyphs or advances) for some registered (script, language, feature set)")
    ev.assumptions = [
        "the table interpreter in harness/src/feasem.rs implements OpenType lookup application as HarfBuzz does",
        "constructs the FEA specification leaves open are outside the universe (docs/C11.md lists them)",
        "value records carry xAdvance only; GPOS types 3-8, GSUB types 3 and 8, aalt/size/cvXX are not modelled",
    ]
    if ctx.replay:
        # re-run exactly one recorded case: the stored program through TLC, the stored FEA text through fea-rs
        doc = json.load(open(ctx.replay))
        rp = doc["replay"]
        case = {"id": 1, "p": rp["program"], "fea": rp["fea"], "sig": doc["signature"].split(":", 2)[-1]}
        exp = evaluate(ctx, [case], procs=1, tag="replay")[1]
        if not exp["ok"]:
            raise common.ToolError("replay program is outside the model: %s" % exp["why"])
        n = len(rp["program"]["alpha"])
        case["strings"] = range(n + n * n + n * n * n)
        res = common.vh_batch([dict(tag=1, fea=rp["fea"], glyphs=rp["glyphs"], alpha=rp["program"]["alpha"], maxlen=3,
                                    queries=[x[:3] for x in exp["combos"]])], procs=1, module="feasem")
        ev.traces += 1
        if compare(ctx, case, exp, res[0], rp["glyphs"], "replay"):
            ev.nontrivial_add(case["sig"])
        ev.sample({"origin": "replay", "fea": rp["fea"]})
        return

    quick = ctx.quick
    rng = random.Random(ctx.seed)
    with concurrent.futures.ThreadPoolExecutor(4) as ex:
        # quick: every 6th A program and every 12th B candidate, the residue class chosen by the seed
        sa, sb, sd = (6, 12, 1) if quick else (1, 1, 1)   # D is small: never thinned
        fa = ex.submit(generate, ctx, "FeaSemGenA.cfg", "genA", stride=sa, offset=ctx.seed % sa)
        fb = ex.submit(generate, ctx, "FeaSemGenB.cfg", "genB", stride=sb, offset=(ctx.seed * 5) % sb)
        fc = ex.submit(generate, ctx, "FeaSemSim.cfg", "genC", 600 if quick else 12000, ctx.seed)
        fd = ex.submit(generate, ctx, "FeaSemGenD.cfg", "genD", stride=sd, offset=(ctx.seed * 7) % sd)
        A, B, C, D = fa.result(), fb.result(), fc.result(), fd.result()
    seen = set()

    def uniq(lst):
        out = []
        for c in sorted(lst, key=key_of):
            k = key_of(c)
            if k not in seen:
                seen.add(k)
                out.append(c)
        return out

    A, B, C, D = uniq(A), uniq(B), uniq(C), uniq(D)
    common.log("generated%s: A=%d single-lookup programs, B=%d two-lookup programs, C=%d simulated programs, "
               "D=%d mark-set programs" %
               (" (thinned 1/%d, 1/%d, 1/%d)" % (sa, sb, sd) if quick else "", len(A), len(B), len(C), len(D)))
    nA, nB, nC, nD = (200, 130, 130, 60) if quick else (len(A), len(B), 5000, len(D))
    pick = lambda lst, n: lst if n >= len(lst) else rng.sample(lst, n)
    # B: the programs where only the lookupflag separates two lookups of one rule type in one block (template aa;
    # 82 candidates, exempt from the thinning in the spec) are always replayed completely; of the rest, half of
    # the quick sample are same-type pairs (where only flags and structure separate the lookups).
    def eff(c):
        x = 0 if c["fl"][0] == -1 else c["fl"][0]
        return x, (x if c["fl"][1] == -1 else c["fl"][1])
    def only_flag_differs(c):
        return c["tpl"] == "aa" and len(set(rule_types(c["p"]))) == 1 and eff(c)[0] != eff(c)[1]
    bcrit = [c for c in B if only_flag_differs(c)]
    brest = [c for c in B if not only_flag_differs(c)]
    same = [c for c in brest if len(set(rule_types(c["p"]))) == 1]
    rest = [c for c in brest if len(set(rule_types(c["p"]))) != 1]
    pickB = B if nB >= len(B) else bcrit + pick(same, nB // 2) + pick(rest, nB - nB // 2)
    # D: the stratum where two lookups of one rule type in one block are separated ONLY by which mark set /
    # attachment class the lookupflag names (template aa: nothing else ends the first lookup; 76 candidates)
    # is always replayed completely, also in the quick tier; the rest of D is sampled.
    def only_set_differs(c):
        f = flag_values(c["p"])
        return (c["tpl"] == "aa" and len(set(rule_types(c["p"]))) == 1 and len(f) == 2 and f[0] != f[1]
                and f[0] // 100 == f[1] // 100 > 0)
    dsame = [c for c in D if only_set_differs(c)]
    drest = [c for c in D if not only_set_differs(c)]
    pickD = D if nD >= len(D) else dsame + pick(drest, nD)
    picked = [("A", pick(A, nA)), ("D", pickD), ("B", pickB), ("C", pick(C, nC))]
    if not quick:
        for _, lst in picked:
            rng.shuffle(lst)
    nid = 0
    for origin, lst in picked:
        for c in lst:
            nid += 1
            c["id"] = nid
            c["origin"] = origin
    files, ccases, skipped = corpus_project(nid + 1)
    # Work packets: the corpus first, then A, B, C. Quick: one packet. Thorough: packets of 1500 programs until
    # the time budget is used (the box is shared; what was covered is recorded, exhaustive only if A and B
    # were finished).
    todo = [c for _, lst in picked for c in lst]
    if not quick:
        # all of A first, then B and C interleaved 2:1 so that a run cut short by the budget has seen both
        b, c = list(picked[2][1]), list(picked[3][1])
        mixed = []
        while b or c:
            mixed += b[:1000] + c[:500]
            b, c = b[1000:], c[500:]
        todo = list(picked[0][1]) + list(picked[1][1]) + mixed
    size = len(todo) if quick else 1500
    budget = 17 * 60
    stats = {o: dict(candidates=0, replayed=0, nontrivial=0, dropped={}) for o, _ in picked}
    done = 0
    first = True
    while todo and (first or time.time() - ctx.t0 < budget):
        packet, todo = todo[:size], todo[size:]
        exp = evaluate(ctx, packet + (ccases if first else []), procs=4, timeout=900, tag="eval")
        common.log("TLC evaluated %d programs" % len(exp))
        for origin, _ in picked:
            part = [c for c in packet if c["origin"] == origin]
            if part:
                st = replay_generated(ctx, part, origin, procs=6, exp=exp)
                for k in ("candidates", "replayed", "nontrivial"):
                    stats[origin][k] += st[k]
                for k, v in st["dropped"].items():
                    stats[origin]["dropped"][k] = stats[origin]["dropped"].get(k, 0) + v
        if first:
            cs = corpus_compare(ctx, files, ccases, skipped, exp)
            common.log("corpus: %s" % json.dumps({k: v for k, v in cs.items() if k != "compared_files"}))
            ev.extra["corpus"] = cs
        first = False
        done += len(packet)
        common.log("replayed so far: %s" % json.dumps({o: (s["replayed"], s["candidates"]) for o, s in stats.items()}))
    for origin, lst in picked:
        stats[origin]["selected"] = len(lst)
        common.log("generator %s: %s" % (origin, json.dumps(stats[origin])))
    ev.extra["generated"] = stats
    ev.extra["generated_candidates"] = {"A": len(A), "B": len(B), "C_distinct_simulated": len(C), "D": len(D),
                                        "A_B_D_thinning": [sa, sb, sd]}
    ev.exhaustive = (not quick) and all(stats[o]["candidates"] == len(l) for o, l in (("A", A), ("B", B), ("D", D)))
    if todo:
        ev.extra["not_reached_within_time_budget"] = len(todo)
        common.log("time budget used: %d selected programs not evaluated" % len(todo))
    ev.extra["compiled_subtable_shapes_interpreted"] = dict(sorted(SHAPES.items()))
    if sum(s["replayed"] for s in stats.values()) == 0:
        raise common.ToolError("nothing replayed")
