"""C12 Component handling options never change what a glyph looks like.

Decided by spec/Components.tla (exact fixed-point integers):
 (M) TLC runs the transcription of GlyphOrderWork::exec (prune missing components, inline non-export components
     with interpolation of missing layers, the todo list with convert-to-contours / split, decompose all,
     decompose transformed, flatten) on every generated source under all 16 subsets of {flatten, decompose,
     decompose_transformed, prefer_simple} and checks after every step that Resolve (multiset of leaf contours
     under the accumulated affine, reversed on negative determinant, up to the start point) and the advance of
     every exported glyph at every master location are unchanged.  States where the spec itself breaks this
     ("gaps") are design-level counterexamples: they are not hidden, they are confirmed or refuted below.
 (R) every generated case is materialised (MiniFont -> UFO masters + designspace, sparse layer for the
     intermediate location), compiled by the real compiler under each of the 16 option subsets (`vh components`:
     library entry point, same code as `vh batch`), every glyph is drawn with skrifa at every master location,
     and the pictures are compared (a) pairwise across the option subsets and (b) with the spec's Resolve.
 (O) the repository's fixtures are compiled under the 16 subsets and compared pairwise (no oracle).

PROPERTY-LEVEL (violation): two option subsets, or one subset and the spec's Resolve, give different contours
for an exported glyph at a master location -- as directed closed cycles up to the start point, within one unit
per nesting level (Components.tla ResolveT: a level's unit is magnified by a 2x2 above it that magnifies) --
or a different advance (exact at a location where the glyph has a source, half a unit elsewhere); a build that
fails under some subsets only.  Direction: TrueType outlines are the reverse of the source; a renderer mirrors
the contours of a flipped component without reversing them, so every drawn contour is first un-mirrored by the
sign of the determinant accumulated on its composite path (measured from the glyf table); after that a contour
that was decomposed by the compiler must run in the same direction as the same contour kept as a component.
INTERNAL (drift): glyph order, simple/composite storage, component records differing from the transcription; a
gap predicted by the spec that the real compiler does not show.
"""
import json, os, math, hashlib, threading, queue, concurrent.futures
import common, minifont

MASKS = list(range(16))
OPT_NAMES = [("flatten", 1), ("decompose", 2), ("decompose_transformed", 4), ("prefer_simple", 8)]
EPS = 1e-6
MAX_F2DOT14 = 1.99993896484375
LOC_COORD = {0: 0.0, 1: 0.5, 2: 1.0}
QUICK_FIXTURES = [
    "glyphs3/Component.glyphs", "glyphs3/NestedComponent.glyphs", "glyphs3/NestedNoExportComponent.glyphs",
    "glyphs3/ComponentPointRounding.glyphs", "glyphs3/WghtVarComposite.glyphs", "glyphs3/StaticComposite.glyphs",
    "glyphs3/WghtVar_NoExport.glyphs", "glyphs3/NonExportWithBraceLayer.glyphs", "glyphs3/IntermediateLayer.glyphs",
    "glyphs3/MissingComponent.glyphs", "glyphs3/ComponentAnchor.glyphs", "glyphs2/Component.glyphs",
    "glyphs2/NestedComponent.glyphs", "glyphs2/WghtVar_NoExport.glyphs", "DecomposeTransformed.ufo",
    "designspace_from_glyphs/IntermediateLayer.designspace", "designspace_from_glyphs/WghtVar_NoExport.designspace",
    "HVVAR/SingleModel_Direct/SingleModelDirect.designspace",
]


def mask_name(m):
    on = [n for n, b in OPT_NAMES if m & b]
    return "+".join(on) if on else "none"


# ----------------------------------------------------------------------------- geometry


def cycle_close(a, b, tol, directed=True):
    """Are the closed node cycles a, b ([[x, y, on], ..]) equal up to the start point within tol per coordinate?"""
    n = len(a)
    if n != len(b):
        return False
    if n == 0:
        return True
    cands = [b] if directed else [b, b[::-1]]
    for bb in cands:
        for r in range(n):
            ok = True
            for i in range(n):
                p, q = a[i], bb[(i + r) % n]
                if p[2] != q[2] or abs(p[0] - q[0]) > tol + EPS or abs(p[1] - q[1]) > tol + EPS:
                    ok = False
                    break
            if ok:
                return True
    return False


def match_contours(A, B, close):
    """Maximum bipartite matching between the contour lists A and B under close(i, j); returns the unmatched
    indices of A and of B (both empty <=> equal as multisets)."""
    adj = [[j for j in range(len(B)) if close(i, j)] for i in range(len(A))]
    match_b = [-1] * len(B)

    def aug(i, seen):
        for j in adj[i]:
            if j in seen:
                continue
            seen.add(j)
            if match_b[j] < 0 or aug(match_b[j], seen):
                match_b[j] = i
                return True
        return False

    un_a = [i for i in range(len(A)) if not aug(i, set())]
    un_b = [j for j in range(len(B)) if match_b[j] < 0]
    return un_a, un_b


def normalised(draw):
    """Drawn contours of one glyph -> [(cycle, directed?, tol, level)] with mirrored contours un-mirrored."""
    out = []
    for ct in draw or []:
        p = [tuple(q) for q in ct["p"]]
        s = ct.get("s")
        if s is not None and s < 0:
            p = p[::-1]
        out.append((p, s is not None, ct.get("tol") or 1.0, ct.get("lv") or 0))
    return out


def structure(cyc):
    return (len(cyc), sum(1 for p in cyc if p[2] == 0))


# ----------------------------------------------------------------------------- generated cases -> sources


def layer_of(case, lay):
    U = case["unit"]

    def num(v):
        x = v / U
        return int(x) if x == int(x) else x

    return {"width": num(lay["w"]),
            "contours": [[[num(p[0]), num(p[1]), "line"] for p in ct] for ct in lay["cs"]],
            "components": [{"base": ("nope" if cp["b"] == "missing" else cp["b"]), "xform": [num(v) for v in cp["t"]]}
                           for cp in lay["comps"]]}


def minifont_of(case):
    static = case["nloc"] == 1
    mf = minifont.template_static(()) if static else minifont.template_wght(())
    if static:
        mf["as_ufo"] = True
    glyphs = []
    for i, g in enumerate(case["glyphs"]):
        layers, sparse = {}, []
        for lay in g["layers"]:
            data = layer_of(case, lay)
            if lay["l"] == 0:
                layers["Regular"] = data
            elif lay["l"] == 2:
                layers["Bold"] = data
            else:
                sparse.append({"layer": "M550", "master": "Regular", "loc": {"Weight": 550}, "data": data})
        glyphs.append({"name": g["name"], "unicodes": [0x61 + i], "layers": layers, "sparse": sparse})
    mf["glyphs"] = glyphs
    mf["glyph_order"] = [g["name"] for g in case["glyphs"]]
    mf["skip_export"] = [g["name"] for g in case["glyphs"] if not g["exp"]]
    return mf


def materialise(args):
    case, outdir = args
    mf = minifont_of(case)
    path = minifont.materialize(mf, outdir)
    if path.endswith(".designspace") and mf["skip_export"]:
        # a .designspace source takes public.skipExportGlyphs from the designspace <lib>, not from the master's lib
        lib = "  <lib>\n    <dict>\n      <key>public.skipExportGlyphs</key>\n      <array>\n%s      </array>\n    </dict>\n  </lib>\n" % \
            "".join("        <string>%s</string>\n" % n for n in mf["skip_export"])
        text = open(path, encoding="utf-8").read().replace("</designspace>", lib + "</designspace>")
        with open(path, "w", encoding="utf-8") as f:
            f.write(text)
    return path


def case_digest(case):
    return hashlib.sha1(json.dumps(case["glyphs"], sort_keys=True).encode()).hexdigest()[:10]


def case_summary(case):
    out = []
    for g in case["glyphs"]:
        l0 = g["layers"][0]
        comps = ["%s@%s" % (cp["b"], tk) for cp, tk in zip(l0["comps"], g["tks"])]
        out.append("%s%s:%s[%dc%s]%s" % (g["name"], "" if g["exp"] else "(noexport)", g["kind"], len(l0["cs"]),
                                        (" " + ",".join(comps)) if comps else "",
                                        "+mid" if any(l["l"] == 1 for l in g["layers"]) else ""))
    return "masters=%d %s" % (case["nloc"], "; ".join(out))


# ----------------------------------------------------------------------------- judging


def case_features(case, spec_runs):
    """Which parts of the pipeline does this case exercise (vacuity accounting)."""
    by = {g["name"]: g for g in case["glyphs"]}
    f = set()
    for g in case["glyphs"]:
        l0 = g["layers"][0]
        mids = any(l["l"] == 1 for l in g["layers"])
        for cp, tk in zip(l0["comps"], g["tks"]):
            if cp["b"] == "missing":
                f.add("missing component pruned")
                continue
            b = by[cp["b"]]
            if not b["exp"]:
                f.add("non-export component inlined")
                if any(c2["b"] != "missing" and not by[c2["b"]]["exp"] for c2 in b["layers"][0]["comps"]):
                    f.add("nested non-export components")
                if mids != any(l["l"] == 1 for l in b["layers"]):
                    f.add("non-export component with different layers (interpolation)")
            if tk == "s3":
                f.add("2x2 outside F2Dot14 (forced decomposition)")
            if tk == "fx":
                f.add("negative determinant")
            if tk in ("s2", "sh", "fx", "r90", "s3"):
                f.add("transformed component")
            if any(c2["b"] != "missing" for c2 in b["layers"][0]["comps"]):
                f.add("nested components (depth >= 2)")
            if mids != any(l["l"] == 1 for l in b["layers"]):
                f.add("component with different layers")
        if g["kind"] == "mixed" and any(cp["b"] != "missing" for cp in l0["comps"]):
            f.add("mixed contours + components")
    if any(len(r["order"]) > sum(1 for g in case["glyphs"] if g["exp"]) for r in spec_runs):
        f.add("contours split into a derived glyph")
    if any(g["name"] == "g1.0" for g in case["glyphs"]):
        f.add("source glyph named like a derived glyph")
    if case["nloc"] > 1:
        f.add("variable")
    if 1 in case["locs"]:
        f.add("intermediate layers")
    return f


FEATURES_REQUIRED = ["missing component pruned", "non-export component inlined", "nested non-export components",
                     "non-export component with different layers (interpolation)",
                     "2x2 outside F2Dot14 (forced decomposition)", "negative determinant", "transformed component",
                     "nested components (depth >= 2)", "component with different layers", "mixed contours + components",
                     "contours split into a derived glyph", "source glyph named like a derived glyph", "variable",
                     "intermediate layers"]


class Judge:
    def __init__(self, ctx):
        self.ctx = ctx
        self.features = {}
        self.n_fonts = 0
        self.n_cmp = 0
        self.n_pair = 0
        self.classes = {}        # signature class -> count
        self.drifts = {}
        self.gaps_predicted = 0
        self.gaps_confirmed = 0
        self.gaps_refuted = 0
        self.undirected = 0
        self.incomparable_curves = 0
        self.max_dev = 0.0

    def drift(self, kind, what):
        self.drifts[kind] = self.drifts.get(kind, 0) + 1
        if self.drifts[kind] <= 2:
            self.ctx.drift("Components", "%s: %s" % (kind, what))

    def violation(self, sigclass, ident, what, replay):
        """One replay file per violation, at most 8 per class (the count per class is in the evidence)."""
        self.classes[sigclass] = self.classes.get(sigclass, 0) + 1
        if self.classes[sigclass] <= 8:
            self.ctx.violation("%s:%s" % (sigclass, ident), what, replay)

    # ---- one generated case
    def case(self, case, spec_runs, res, src):
        ctx = self.ctx
        digest = case_digest(case)
        ident = "k%d-%s" % (case["k"], digest)
        replay = {"kind": "generated", "case": case, "spec_runs": spec_runs, "source": src}
        runs = resolve_runs(res)
        ok = {m: r for m, r in runs.items() if r.get("outcome") == "ok"}
        bad = {m: r for m, r in runs.items() if r.get("outcome") != "ok"}
        spec_by_mask = {r["mask"]: r for r in spec_runs}
        if bad and ok:
            def collides(m):
                return any(gp["kind"] == "name-collision" for gp in (spec_by_mask.get(m) or {}).get("gaps") or [])
            for sigclass, ms, lead in (
                    ("gap:name-collision:split", [m for m in sorted(bad) if collides(m)],
                     "the spec's transcription of split_glyph gives the derived glyph the name of a non-exported source "
                     "glyph here (name-collision) and the real compiler fails: "),
                    ("build-outcome", [m for m in sorted(bad) if not collides(m)], "")):
                if not ms:
                    continue
                msgs = sorted(set("%s: %s" % (bad[m].get("outcome"), (bad[m].get("message") or "")[:160]) for m in ms))
                self.violation(sigclass, ident,
                               "%s%s: builds with options %s but not with %s (%s)" %
                               (lead, case_summary(case), ["{%s}" % mask_name(m) for m in sorted(ok)][:4],
                                ["{%s}" % mask_name(m) for m in ms], "; ".join(msgs)), dict(replay, masks=ms))
            for m in bad:
                for gp in (spec_by_mask.get(m) or {}).get("gaps") or []:
                    self.gaps_predicted += 1
                    if gp["kind"] == "name-collision":
                        self.gaps_confirmed += 1
        if not ok:
            r0 = runs.get(0) or {}
            self.drift("case does not build", "case %s fails under every option subset: %s %s" %
                       (ident, r0.get("outcome"), (r0.get("message") or "")[:200]))
            return False
        self.n_fonts += len(ok)
        locs = case["locs"]
        flagged = set()          # (mask, glyph, loc index) already reported against the spec
        found = {}               # (signature class, glyph) -> first failing comparison + all option subsets/locations
        norm = {}                # mask -> glyph -> [per loc (contours, adv)]
        for m, r in sorted(ok.items()):
            pic = r["pic"]
            idx = {n: i for i, n in enumerate(pic["names"])}
            norm[m] = {}
            sr = spec_by_mask.get(m, {"gaps": []})
            gaps = sr.get("gaps") or []
            U = case["unit"]
            for ex in case["expect"]:
                g = ex["name"]
                if g not in idx:
                    self.violation("glyph-missing", "%s:%s" % (ident, g),
                                   "%s: exported glyph %s is not in the font built with %s" %
                                   (case_summary(case), g, mask_name(m)), replay)
                    continue
                norm[m][g] = []
                for li, at in enumerate(ex["at"]):
                    real = normalised(pic["at"][li]["draw"][idx[g]])
                    adv = pic["at"][li]["adv"][idx[g]]
                    norm[m][g].append((real, adv))
                    self.n_cmp += 1
                    want = [([(p[0] / U, p[1] / U, 1.0) for p in ct["p"]][::-1], ct["tol"] / U, ct["lv"]) for ct in at["cs"]]
                    un_w, un_r = match_contours(
                        want, real, lambda i, j: cycle_close(want[i][0], real[j][0], want[i][1], real[j][1]))
                    self.undirected += sum(1 for c_ in real if not c_[1])
                    wadv = at["w"] / U
                    adv_bad = adv is None or abs(adv - wadv) > (0.0 if at["own"] else 0.5) + EPS
                    if not un_w and not un_r and not adv_bad:
                        continue
                    flagged.add((m, g, li))
                    l = at["l"]
                    pic_bad = bool(un_w or un_r)
                    mine = [gp for gp in gaps if gp["id"] == g]
                    pick = ([gp for gp in mine if gp["loc"] == l and gp["kind"] == ("picture" if pic_bad else "advance")]
                            or [gp for gp in mine if gp["kind"] not in ("picture", "advance")] or [None])[0]
                    if pick is not None:
                        sigclass = "gap:%s:%s:%s" % (pick["kind"], pick["step"], "master" if l in (0, 2) else "intermediate")
                        lead = "the spec's transcription of step '%s' already breaks the property here (%s) and the " \
                               "real compiler agrees: " % (pick["step"], pick["kind"])
                    else:
                        sigclass = "unpredicted:%s" % ("picture" if pic_bad else "advance")
                        lead = ""
                    if pic_bad:
                        detail = "contours expected (source resolved, reversed for TrueType) but not drawn: %s; drawn but " \
                                 "not expected: %s" % ([[want[i][0], "tol %.3g" % want[i][1]] for i in un_w][:3],
                                                       [real[j][0] for j in un_r][:3])
                    else:
                        detail = "advance %s, source says %s" % (adv, wadv)
                    key = (sigclass, g)
                    if key not in found:
                        found[key] = {"lead": lead, "detail": detail, "loc": l, "mask": m, "masks": [], "locs": []}
                    if m not in found[key]["masks"]:
                        found[key]["masks"].append(m)
                    if l not in found[key]["locs"]:
                        found[key]["locs"].append(l)
            # gaps predicted by the spec for this build: confirmed or refuted by the real font
            exp_names = [e["name"] for e in case["expect"]]
            loc_index = {at["l"]: li for li, at in enumerate(case["expect"][0]["at"])} if case["expect"] else {}
            for gp in gaps:
                self.gaps_predicted += 1
                if gp["kind"] == "name-collision":
                    self.gaps_refuted += 1
                    self.drift("gap not reproduced", "case %s options {%s}: the spec predicts %s but the build succeeds" %
                               (ident, mask_name(m), gp))
                    continue
                if gp["id"] not in exp_names:
                    continue            # a derived glyph: not compared with the source directly
                if gp["kind"] in ("picture", "advance"):
                    hit = (m, gp["id"], loc_index.get(gp["loc"])) in flagged
                else:
                    hit = any(f[0] == m and f[1] == gp["id"] for f in flagged)
                if hit:
                    self.gaps_confirmed += 1
                else:
                    self.gaps_refuted += 1
                    self.drift("gap not reproduced", "case %s options {%s}: the spec predicts %s but the real font agrees "
                               "with the source" % (ident, mask_name(m), gp))
            self.storage(case, ident, m, sr, pic)
        for (sigclass, g), f in sorted(found.items()):
            self.violation(sigclass, "%s:%s" % (ident, g),
                           "%s%s: glyph %s differs from the source at location(s) %s when built with options %s; e.g. at %s "
                           "with {%s}: %s" % (f["lead"], case_summary(case), g, [LOC_COORD[l] for l in f["locs"]],
                                             ["{%s}" % mask_name(m) for m in f["masks"]], LOC_COORD[f["loc"]],
                                             mask_name(f["mask"]), f["detail"]),
                           dict(replay, glyph=g, masks=f["masks"], locs=f["locs"]))
        # (a) pairwise across option subsets
        tol_g = {ex["name"]: [max([ct["tol"] for ct in at["cs"]] + [case["unit"]]) / case["unit"] for at in ex["at"]]
                 for ex in case["expect"]}
        own = {ex["name"]: [at["own"] for at in ex["at"]] for ex in case["expect"]}
        self.pairwise(norm, lambda g, li, ca, cb: tol_g[g][li], lambda g, li: 0.0 if own[g][li] else 0.5, True,
                      flagged, ident, lambda: case_summary(case), replay, [LOC_COORD[l] for l in locs])
        # non-trivial: the options changed how something is stored
        stor = set(json.dumps(r["pic"]["glyphs"], sort_keys=True) for r in ok.values())
        if len(stor) > 1:
            ctx.ev.nontrivial_add(digest)
        return True

    def pairwise(self, norm, tolf, advtolf, lines_only, flagged, ident, summary, replay, loc_names):
        masks = sorted(norm)
        glyphs = sorted(set.intersection(*[set(norm[m]) for m in masks])) if masks else []
        for g in glyphs:
            nl = len(norm[masks[0]][g])
            for li in range(nl):
                reps = []        # representatives of exactly-equal classes
                for m in masks:
                    cur = norm[m][g][li]
                    for rep in reps:
                        if rep[1] == cur:
                            rep[2].append(m)
                            break
                    else:
                        reps.append([m, cur, [m]])
                for x in range(len(reps)):
                    for y in range(x + 1, len(reps)):
                        ma, (ca, adva), la = reps[x]
                        mb, (cb, advb), lb = reps[y]
                        self.n_pair += 1
                        tol = tolf(g, li, ca, cb)
                        curve_mismatch = False
                        if not lines_only:
                            sa = sorted(structure(c_[0]) for c_ in ca)
                            sb = sorted(structure(c_[0]) for c_ in cb)
                            if sa != sb and any(s[1] for s in sa + sb):
                                curve_mismatch = True
                        if curve_mismatch:
                            self.incomparable_curves += 1
                            un_a = un_b = []
                        else:
                            un_a, un_b = match_contours(
                                ca, cb, lambda i, j: cycle_close(ca[i][0], cb[j][0], tol, ca[i][1] and cb[j][1]))
                        adv_tol = advtolf(g, li)
                        adv_bad = (adva is None) != (advb is None) or (adva is not None and abs(adva - advb) > adv_tol + EPS)
                        if not un_a and not un_b and not adv_bad:
                            continue
                        if all((m, g, li) in flagged for m in la) or all((m, g, li) in flagged for m in lb):
                            continue        # already reported against the spec's Resolve
                        what = "%s: glyph %s at location %s looks different with options {%s} and {%s}: " % (
                            summary(), g, loc_names[li], mask_name(ma), mask_name(mb))
                        if un_a or un_b:
                            what += "contours only in the first: %s; only in the second: %s (tolerance %.3g)" % (
                                [ca[i][0] for i in un_a][:3], [cb[j][0] for j in un_b][:3], tol)
                        else:
                            what += "advance %s vs %s" % (adva, advb)
                        self.violation("pairwise:%s" % ("advance" if not (un_a or un_b) else "picture"),
                                       "%s:%s:%s-%s" % (ident, g, mask_name(ma), mask_name(mb)), what,
                                       dict(replay, glyph=g, masks=[ma, mb], loc=loc_names[li]))

    # ---- internal: storage as the transcription predicts
    def storage(self, case, ident, m, sr, pic):
        if "store" not in sr:
            return
        U = case["unit"]
        names = [n for n in pic["names"] if n != ".notdef"]
        if names != sr["order"]:
            self.drift("glyph order", "case %s options {%s}: font has %s, spec %s" % (ident, mask_name(m), names, sr["order"]))
            return
        idx = {n: i for i, n in enumerate(pic["names"])}
        for e in sr["store"]:
            g = pic["glyphs"][idx[e["name"]]]
            if e["comps"]:
                want = []
                for cp in e["comps"]:
                    t = [v / U for v in cp["t"]]
                    want.append([cp["b"]] + [min(max(v, -2.0), MAX_F2DOT14) for v in t[:4]] +
                                [math.floor(t[4] + 0.5), math.floor(t[5] + 0.5)])
                if g["kind"] != "composite" or g["comps"] != want:
                    self.drift("storage", "case %s options {%s} glyph %s: font has %s %s, spec composite %s" %
                               (ident, mask_name(m), e["name"], g["kind"], g["comps"], want))
            else:
                kind = "simple" if e["ncs"] > 0 else "empty"
                n_real = len(pic["at"][0]["draw"][idx[e["name"]]] or [])
                if g["kind"] != kind or (kind == "simple" and n_real != e["ncs"]):
                    self.drift("storage", "case %s options {%s} glyph %s: font has %s with %d contours, spec %s with %d" %
                               (ident, mask_name(m), e["name"], g["kind"], n_real, kind, e["ncs"]))

    # ---- one fixture (observation mode, no oracle)
    def fixture(self, rel, res):
        ident = rel
        replay = {"kind": "fixture", "fixture": rel}
        runs = resolve_runs(res)
        ok = {m: r for m, r in runs.items() if r.get("outcome") == "ok"}
        bad = {m: r for m, r in runs.items() if r.get("outcome") != "ok"}
        if not ok:
            return None
        if bad:
            msgs = sorted(set("%s: %s" % (r.get("outcome"), (r.get("message") or "")[:160]) for r in bad.values()))
            self.violation("build-outcome", ident, "%s builds with options %s but not with %s (%s)" %
                           (rel, [mask_name(m) for m in sorted(ok)][:4], [mask_name(m) for m in sorted(bad)],
                            "; ".join(msgs)), replay)
        self.n_fonts += len(ok)
        norm = {}
        for m, r in ok.items():
            pic = r["pic"]
            norm[m] = {}
            for gi, n in enumerate(pic["names"]):
                norm[m][n] = [(normalised(at["draw"][gi]), at["adv"][gi]) for at in pic["at"]]
                self.n_cmp += len(pic["at"])
        all_names = set.union(*[set(v) for v in norm.values()])
        common_names = set.intersection(*[set(v) for v in norm.values()])
        extra = sorted(all_names - common_names)
        locs = res.get("locs") or [[]]
        self.pairwise(norm, lambda g, li, ca, cb: max([c_[2] for c_ in ca + cb] + [1.0]),
                      lambda g, li: 0.0 if not any(locs[li]) else 0.5, False, set(), ident, lambda: rel, replay, locs)
        stor = set(json.dumps(r["pic"]["glyphs"], sort_keys=True) for r in ok.values())
        return {"fixture": rel, "fonts": len(ok), "glyphs": len(common_names), "locs": res.get("locs"),
                "storages": len(stor), "derived_glyphs": extra[:6]}


def resolve_runs(res):
    runs = {}
    for r in res.get("runs") or []:
        runs[r["mask"]] = r
    for m, r in list(runs.items()):
        if "same_as" in r:
            runs[m] = dict(runs[r["same_as"]], mask=m)
    return runs


# ----------------------------------------------------------------------------- drivers


def tlc_chunk(ctx, cfg, first, count, timeout, workers):
    r = common.run_tlc(ctx, "Components", cfg, workers=workers, timeout=timeout,
                       env={"C12_SEED": ctx.seed, "C12_FIRST": first, "C12_COUNT": count},
                       tag="%s_%d" % (cfg.replace(".cfg", ""), first))
    if r.timed_out:
        raise common.ToolError("TLC timed out on %s (cases %d..%d)" % (cfg, first, first + count - 1))
    if r.violated or r.error or not r.complete:
        raise common.ToolError("TLC failed on %s (cases %d..): %s\n%s" % (
            cfg, first, r.violated or r.error or "incomplete", common.tlc_trace_text(r.out)[-3000:]))
    cases = common.replay_lines(r.out, "CASE")
    runs = common.replay_lines(r.out, "RUN")
    invalid = common.replay_lines(r.out, "INVALID")
    by_k = {}
    for x in runs:
        by_k.setdefault(x["k"], []).append(x)
    for c_ in cases:
        if len(by_k.get(c_["k"], [])) != 16:
            raise common.ToolError("case %d: expected 16 RUN lines, got %d" % (c_["k"], len(by_k.get(c_["k"], []))))
    return cases, by_k, len(invalid)


def compile_cases(ctx, cases, procs):
    jobs = [(c_, ctx.path("cases", "k%d" % c_["k"])) for c_ in cases]
    with concurrent.futures.ProcessPoolExecutor(min(procs, 8)) as ex:
        srcs = list(ex.map(materialise, jobs, chunksize=8))
    reqs = []
    for c_, src in zip(cases, srcs):
        locs = [[]] if c_["nloc"] == 1 else [[LOC_COORD[l]] for l in c_["locs"]]
        reqs.append({"tag": "k%d" % c_["k"], "src": src, "locs": locs, "threads": 1})
    res = common.vh_batch(reqs, procs=procs, module="components", timeout=3600)
    return srcs, res


def run_generated(ctx, judge, total, chunk, cfg, procs, tlc_timeout):
    q = queue.Queue(maxsize=2)
    err = []

    def producer():
        try:
            first = 1
            while first <= total:
                n = min(chunk, total - first + 1)
                q.put(tlc_chunk(ctx, cfg, first, n, tlc_timeout, 4))
                first += n
        except BaseException as e:        # noqa: reported by the consumer
            err.append(e)
        q.put(None)

    t = threading.Thread(target=producer, daemon=True)
    t.start()
    n_cases = n_invalid = 0
    gaps_cases = 0
    while True:
        item = q.get()
        if item is None:
            break
        cases, by_k, invalid = item
        n_invalid += invalid
        srcs, res = compile_cases(ctx, cases, procs)
        for c_, src, r in zip(cases, srcs, res):
            if r is None or r.get("outcome") == "crash":
                judge.violation("crash", "k%d-%s" % (c_["k"], case_digest(c_)),
                                "%s: the compiler process died: %s" % (case_summary(c_), (r or {}).get("message")),
                                {"kind": "generated", "case": c_, "spec_runs": by_k[c_["k"]], "source": src})
                continue
            if judge.case(c_, by_k[c_["k"]], r, src):
                n_cases += 1
                for ft in case_features(c_, by_k[c_["k"]]):
                    judge.features[ft] = judge.features.get(ft, 0) + 1
                ctx.ev.sample({"kind": "generated case", "k": c_["k"], "summary": case_summary(c_),
                               "expect_g1_default": c_["expect"][0]["at"][0]}, limit=3)
            if any(x["gaps"] for x in by_k[c_["k"]]):
                gaps_cases += 1
        common.log("generated: %d cases done (%d fonts, %d violations so far)" %
                   (n_cases, judge.n_fonts, len(ctx.violations)))
    t.join()
    if err:
        raise err[0]
    return n_cases, n_invalid, gaps_cases


def run_fixtures(ctx, judge, rels, procs):
    reqs = [{"tag": rel, "src": os.path.join(common.TESTDATA, rel), "threads": 1, "max_locs": 7} for rel in rels
            if os.path.exists(os.path.join(common.TESTDATA, rel))]
    res = common.vh_batch(reqs, procs=procs, module="components", timeout=3600)
    out = []
    for rq, r in zip(reqs, res):
        if r is None or r.get("outcome") == "crash":
            # a crash of the whole process on a fixture: is it option dependent? decide by single builds
            single = common.vh_batch([dict(rq, masks=[m]) for m in MASKS], procs=procs, module="components", timeout=1800)
            okm = [m for m, s in zip(MASKS, single) if s and s.get("runs") and s["runs"][0].get("outcome") == "ok"]
            badm = [m for m in MASKS if m not in okm]
            if okm and badm:
                judge.violation("build-outcome", rq["tag"], "%s builds with options %s but the compiler dies with %s" %
                                (rq["tag"], [mask_name(m) for m in okm][:4], [mask_name(m) for m in badm]),
                                {"kind": "fixture", "fixture": rq["tag"]})
            continue
        s = judge.fixture(rq["tag"], r)
        if s:
            out.append(s)
            if s["storages"] > 1:
                ctx.ev.nontrivial_add("fixture:" + rq["tag"])
    return out


def replay(ctx, judge):
    obj = json.load(open(ctx.replay))
    rp = obj.get("replay", obj)
    if rp.get("kind") == "fixture":
        run_fixtures(ctx, judge, [rp["fixture"]], 1)
        return
    case = rp["case"]
    srcs, res = compile_cases(ctx, [case], 1)
    judge.case(case, rp["spec_runs"], res[0], srcs[0])


def main(ctx):
    common.build_harness()
    ev = ctx.ev
    judge = Judge(ctx)
    procs = 8
    ev.rule = ("generated: case numbers 1..N of Components.tla GenCase seeded with VERIF_SEED (4 glyphs, DAG, <=2 components "
               "per glyph, simple/composite/mixed, non-export glyphs, 7 transform kinds, 1 master / 2 masters / 2 masters + "
               "intermediate layers), each built under all 16 option subsets; a case is non-trivial when the 16 builds "
               "contain at least two different glyf storages (the options changed something) and distinct by the digest "
               "of its abstract source; fixtures count as non-trivial under the same rule")
    ev.assumptions = [
        "TLC, read-fonts/skrifa (glyf parsing, outline drawing with gvar, advance from hmtx/HVAR) are trusted",
        "line contours only in generated cases; curves only through fixtures, where builds whose quadratic "
        "approximations differ in structure are counted as incomparable, not compared",
        "domain: no glyph resolves to the same contour twice (Components.tla Valid); component 2x2 equal in all masters",
        "tolerance: Components.tla ResolveT (one unit per nesting level, the glyph's own outline counting as a level; "
        "a level's unit is multiplied by the magnification of the 2x2 accumulated above it when > 1); advance exact where "
        "the glyph has a source, 0.5 where its value is interpolated",
    ]
    if ctx.replay:
        replay(ctx, judge)
        ev.traces = judge.n_fonts
        ev.evaluations = judge.n_cmp
        ev.states = max(ev.states, 1)
        ev.transitions = max(ev.transitions, 1)
        ev.sample({"kind": "replay", "path": ctx.replay})
        return
    if ctx.quick:
        total, chunk, cfg, tlc_timeout = 300, 100, "ComponentsQuick.cfg", 900
        fixtures = QUICK_FIXTURES
    else:
        total, chunk, cfg, tlc_timeout = 5000, 500, "ComponentsThorough.cfg", 2400
        fixtures = common.fixtures()
    total = int(os.environ.get("C12_CASES", total))
    n_cases, n_invalid, gaps_cases = run_generated(ctx, judge, total, chunk, cfg, procs, tlc_timeout)
    common.log("fixtures: %d sources x 16 option subsets" % len(fixtures))
    fx = run_fixtures(ctx, judge, fixtures, procs)
    for s in sorted(fx, key=lambda s: -s["storages"])[:3]:
        ev.sample({"kind": "fixture", **s}, limit=6)
    ev.traces = judge.n_fonts
    ev.evaluations = judge.n_cmp
    ev.exhaustive = False
    ev.extra.update({
        "generated_cases": n_cases, "cases_outside_domain": n_invalid, "option_subsets": 16,
        "fonts_compiled_and_compared": judge.n_fonts, "glyph_location_comparisons_with_spec": judge.n_cmp,
        "pairwise_class_comparisons": judge.n_pair, "fixtures_compared": len(fx),
        "fixtures_with_storage_differences": sum(1 for s in fx if s["storages"] > 1),
        "spec_gaps_predicted": judge.gaps_predicted, "spec_gaps_confirmed_on_real_code": judge.gaps_confirmed,
        "spec_gaps_refuted_on_real_code": judge.gaps_refuted, "cases_with_spec_gaps": gaps_cases,
        "violation_classes": judge.classes, "drift_kinds": judge.drifts,
        "cases_exercising": {ft: judge.features.get(ft, 0) for ft in FEATURES_REQUIRED},
        "contours_compared_undirected": judge.undirected, "fixture_pairs_incomparable_curves": judge.incomparable_curves,
    })
    if n_cases == 0:
        raise common.ToolError("no generated case was compiled")
    idle = [ft for ft in FEATURES_REQUIRED if not judge.features.get(ft)]
    if idle and n_cases >= 100:
        raise common.ToolError("vacuous run: no generated case exercised %s" % idle)
