"""C16 Conditional substitutions fire exactly where the source rules say.

spec/FeatVars.tla states the property semantics RuleSubs(rules, p) and transcribes the implementation
(fontir overlay_feature_variations with its preflight merges, NBox::overlay_onto, the Rank words; the
fontbe lookup/condition-set emission; fea-rs record order; OpenType first-match evaluation).

 (M) TLC enumerates rule lists (exhaustive families E1..E5, seeded pseudo-random families R1/R2, the
     >64-rules family M; bounds in spec/FeatVars*.cfg) and checks the design-level invariant
     "FontSubs(p) = RuleSubs(p) at every non-edge sample point, except in the characterised classes
     KF1/KF2" on the spec (TLC runs with -continue; a failure is a DESIGN-FINDING, not a violation).
 (R) every generated case is replayed into the real fontir::feature_variations::overlay_feature_variations
     (`vh featvars`); a seeded subset (+ every case with an API-level disagreement) is compiled from a
     generated UFO/.designspace with fontc::generate_font and the GSUB FeatureVariations of the font are
     evaluated at every sample point.
 (O) where the real boxes differ from the spec's transcription they are interpreted by the spec's back-end
     transcription (FeatVarsObs.cfg), so that only behaviour counts.

VIOLATION: the substitutions observed from the real code at a non-edge sample point differ from RuleSubs.
DRIFT:     boxes / records / lookups differ from the transcription while the substitutions agree.
"""
import json, os, re, random, hashlib
import common

SPEC = "FeatVars"


# ----------------------------------------------------------------------------- helpers

def m(x):
    """a substitution map from TLC JSON (an empty function prints as [])"""
    return x if isinstance(x, dict) else {}


def families_of(cfgname):
    """(name, n) list of the family constant a cfg substitutes, and the sizes of the exhaustive families,
    read from the spec text: the expected number of REPLAY lines is computed, not assumed."""
    cfg = open(os.path.join(common.SPEC, cfgname)).read()
    op = re.search(r"Families\s*<-\s*(\w+)", cfg).group(1)
    tla = open(os.path.join(common.SPEC, SPEC + ".tla")).read()
    body = re.search(r"^%s == <<(.*?)>>\s*$" % op, tla, re.S | re.M).group(1)
    fams = [(a, int(b)) for a, b in re.findall(r'name \|-> "(\w+)", n \|-> (\d+)', body)]
    region = tla[tla.index("FamSize(fam) =="):]
    region = region[:region.index("\n\n")]
    sizes = {a: int(b) for a, b in re.findall(r'fam = "(\w+)" -> (\d+)', region)}
    return fams, sizes


def parse_replay(out):
    """the REPLAY lines of a TLC run (PrintT of <<"REPLAY", ToJson(..)>>): the payload is a TLA+ string
    literal, i.e. a JSON string literal"""
    res = []
    for l in out.splitlines():
        if l.startswith('<<"REPLAY", "') and l.endswith('">>'):
            try:
                c = json.loads(json.loads(l[12:-2]))
                if "cls" in c:
                    c["cls"] = bytes(c["cls"])       # class index per sample point (< 256): compact
                res.append(c)
            except Exception as ex:
                raise common.ToolError("cannot parse REPLAY line: %s (%s)" % (l[:200], ex))
    return res


def points_of(case):
    co = case["coords"]
    if case["nax"] == 1:
        return [[c] for c in co]
    return [[a, b] for a in co for b in co]


def norm_items(items):
    return [{"box": [list(e) for e in it["box"]], "subs": [m(s) for s in it["subs"]]} for it in items]


def kf1(cl, got):
    """KF1 at a point: every wrong glyph is contested there (>= 2 active rules map it to different targets),
    the observed target is one of the contested targets, and it is the one the known defect produces (the
    target in the active substitution map that sorts first, as computed by the transcription: cl["f"])"""
    e, c, f = m(cl["e"]), m(cl["c"]), m(cl["f"])
    diff = [g for g in set(e) | set(got) if e.get(g) != got.get(g)]
    return bool(diff) and all(g in c and got.get(g) in c[g] and got.get(g) == f.get(g) for g in diff)


def kf2(case, cl, got):
    """KF2 at a point: the merged rule list has more than 64 entries, the point lies in the region of a rule
    with (0-based) index >= 64, and the observed map is what the transcribed Rank arithmetic produces"""
    return case["nmerged"] > 64 and cl["h"] and got == m(cl["f"])


def classify(case, cl, got):
    if kf1(cl, got):
        return "C16-KF1:"
    if kf2(case, cl, got):
        return "C16-KF2:"
    return "C16-NEW:"


def fmt_pt(p):
    return "(" + ",".join("%g" % (v / 16384.0) for v in p) + ")"


def fmt_rules(case):
    out = []
    for r in case["rules"]:
        css = []
        for cs in r["conds"]:
            css.append(" & ".join("ax%d[%s,%s]" % (c["ax"], ("%g" % (c["lo"] / 16384.0)) if c["hasLo"] else "-",
                                                   ("%g" % (c["hi"] / 16384.0)) if c["hasHi"] else "-") for c in cs))
        out.append("{%s}: %s" % (" | ".join(css), ",".join("%s->%s" % kv for kv in sorted(r["subs"].items()))))
    if len(out) > 8:
        out = out[:3] + ["... %d more ..." % (len(out) - 6)] + out[-3:]
    return "; ".join(out)


def case_key(case):
    return hashlib.sha1(json.dumps([case["nax"], case["rules"]], sort_keys=True).encode()).hexdigest()[:16]


def request(case, api, comp, d, keep=False):
    return {"id": case["id"], "nax": case["nax"], "rules": case["rules"], "api": api, "compile": comp,
            "pts": points_of(case) if comp else [], "dir": d, "keep": keep}


def run_harness(ctx, reqs, procs, tagdir):
    """vh_batch gives chunk k the requests k, k+procs, ..: one scratch directory per process"""
    procs = max(1, min(procs, len(reqs)))
    for i, r in enumerate(reqs):
        if r["compile"]:
            r["dir"] = ctx.path(tagdir, "p%d" % (i % procs), "x")[:-2]
    res = common.vh_batch(reqs, procs=procs, module="featvars", timeout=3000)
    for rq, rs in zip(reqs, res):
        if rs is None or rs.get("outcome") == "crash" or rs.get("id") != rq["id"]:
            raise common.ToolError("vh featvars gave no result for %s: %s" % (rq["id"], str(rs)[:300]))
    return res


# ----------------------------------------------------------------------------- comparison

class Tally:
    def __init__(self):
        self.points = 0
        self.edge_points = 0
        self.edge_spec_disagree = 0
        self.edge_obs_disagree = 0
        self.by_sig = {}
        self.reported = {}
        self.api_drift = 0
        self.font_drift = 0
        self.api_list_anomaly_cases = 0
        self.compiled = 0


def compare_obs(ctx, tally, case, level, obs_at, extra):
    """obs_at(k) -> observed map at point k (row-major). Reports at most one violation per case and class."""
    pts = points_of(case)
    classes = case["classes"]
    bad = {}
    for k, ci in enumerate(case["cls"]):
        cl = classes[ci - 1]
        got = obs_at(k, ci)
        if cl["x"]:
            tally.edge_points += 1
            if m(cl["e"]) != got:
                tally.edge_obs_disagree += 1
            continue
        tally.points += 1
        if m(cl["e"]) != got:
            sig = classify(case, cl, got)
            bad.setdefault(sig, []).append((pts[k], m(cl["e"]), got, ci))
    for sig, lst in bad.items():
        tally.by_sig[sig + level] = tally.by_sig.get(sig + level, 0) + 1
        p, e, got, ci = lst[0]
        signature = "%s%s:%s:%s" % (sig, level, case["id"], case_key(case))
        what = ("%s: rules %s: at %s (and %d more sample points) the %s gives %s, the rules say %s%s" %
                (case["id"], fmt_rules(case), fmt_pt(p), len(lst) - 1,
                 "font" if level == "font" else "boxes returned by overlay_feature_variations (read as the back end reads them)",
                 json.dumps(got, sort_keys=True), json.dumps(e, sort_keys=True),
                 "; contested glyphs there: %s" % json.dumps(m(classes[ci - 1]["c"]), sort_keys=True) if sig == "C16-KF1:" else ""))
        report(ctx, tally, sig, signature, what,
               dict(level=level, case=dict(case, cls=list(case["cls"])), observed=extra,
                    failing_points=[dict(p=q, expected=a, observed=b) for q, a, b, _ in lst[:20]]))
    return bad


def report(ctx, tally, cls, signature, what, replay_obj):
    """ctx.violation, but at most 25 replay files per class while a class is not a listed known finding
    (every further one is still counted as a violation)"""
    known = any(k.get("status") == "open" and signature.startswith(k["signature"]) for k in ctx.known)
    n = tally.reported.get(cls, 0)
    tally.reported[cls] = n + 1
    if known or n < 25:
        ctx.violation(signature, what, replay_obj)
    else:
        ctx.violations.append((signature, "", what))


def font_projection_matches(case, font):
    """internal: records and lookups of the font against the transcription"""
    lk = font.get("lookups", {})
    spec_lk = [m(x) for x in case["lookups"]]
    got = []
    for rec in font.get("records", []):
        idx = sorted(set(i for _, l in rec["subst"] for i in l))
        maps = []
        for i in idx:
            t = lk.get(str(i), [])
            maps.append(t[0] if len(t) == 1 else t)
        got.append((rec["conds"], maps))
    want = [([list(c) for c in r["conds"]], [spec_lk[i] for i in r["lookups"]]) for r in case["records"]]
    return got == want, got, want


# ----------------------------------------------------------------------------- main

def main(ctx):
    common.build_harness()
    ev = ctx.ev
    tally = Tally()
    ev.rule = ("a case is non-trivial when at some non-edge sample point at least two of its rules are active "
               "at once (their regions overlap there); distinct = distinct (axes, rule list) inputs")
    if ctx.replay:
        return replay(ctx, tally)

    cfg = "FeatVarsQuick.cfg" if ctx.quick else "FeatVarsThorough.cfg"
    fams, sizes = families_of(cfg)
    expected = sum(min(n, sizes.get(a, 10 ** 9)) for a, n in fams)
    common.log("TLC generates %d cases (%s)" % (expected, " ".join("%s:%d" % (a, min(n, sizes.get(a, 10 ** 9))) for a, n in fams)))
    r = common.run_tlc(ctx, SPEC, cfg, workers=4, timeout=420 if ctx.quick else 1500, xmx="3g",
                       env={"FV_SEED": ctx.seed % 10000}, extra=("-continue",), deadlock=False)
    if r.timed_out:
        raise common.ToolError("TLC timed out on %s after %.0fs" % (cfg, r.wall))
    if r.error or "Model checking completed" not in r.out and r.violated is None:
        raise common.ToolError("TLC failed on %s: %s" % (cfg, r.error or common.tlc_trace_text(r.out)[:500]))
    cases = parse_replay(r.out)
    r.out = ""
    if len(cases) != expected or r.left != 0:
        raise common.ToolError("TLC printed %d cases, expected %d (left on queue %d)" % (len(cases), expected, r.left))
    cases.sort(key=lambda c: (c["fam"], int(c["id"].split("-")[1])))
    common.log("TLC: %d cases in %.0fs" % (len(cases), r.wall))

    # ---- design level (on the spec)
    design_bad = [c for c in cases if not c["design"]]
    n_design_kf = {"KF1": 0, "KF2": 0}
    for c in cases:
        if c["nax"] not in (1, 2):
            raise common.ToolError("bad case")
        flags = set()
        for cl in c["classes"]:
            if not cl["x"] and m(cl["e"]) != m(cl["f"]):
                flags.add("KF1" if kf1(cl, m(cl["f"])) else "KF2" if kf2(c, cl, m(cl["f"])) else "other")
        for f in flags:
            if f in n_design_kf:
                n_design_kf[f] += 1
        if any(not cl["x"] and m(cl["l"]) != m(cl["e"]) for cl in c["classes"]):
            tally.api_list_anomaly_cases += 1
    for c in design_bad[:10]:
        print("DESIGN-FINDING property=C16 %s: the transcribed algorithm disagrees with the rules outside the "
              "characterised classes: %s%s" % (c["id"], fmt_rules(c), " (a rank bit beyond the rule list: the implementation would panic)" if c["panic"] else ""),
              flush=True)
    ev.extra["design_level"] = {
        "cases": len(cases), "invariant": "non-edge point => FontSubs = RuleSubs, or KF1 (contested glyph gets a contested target), or KF2 (>64 merged rules, point in a rule of index >= 64)",
        "cases_violating_invariant": len(design_bad), "examples": [c["id"] for c in design_bad[:10]],
        "cases_with_KF1_disagreement_on_spec": n_design_kf["KF1"], "cases_with_KF2_disagreement_on_spec": n_design_kf["KF2"],
        "cases_where_list_order_reading_of_boxes_differs_from_rules": tally.api_list_anomaly_cases}

    # ---- replay into the real code: API for every case, full compile for a seeded subset
    rng = random.Random(ctx.seed)
    byfam = {}
    for i, c in enumerate(cases):
        byfam.setdefault(c["fam"], []).append(i)
    n_compile = 600 if ctx.quick else 4000
    chosen = set()
    share = max(1, n_compile // max(1, len([f for f in byfam if f != "M"])))
    for f, idxs in sorted(byfam.items()):
        if f == "M":
            chosen.update(idxs)
        else:
            chosen.update(rng.sample(idxs, min(share, len(idxs))))
    reqs = [request(c, True, i in chosen, "") for i, c in enumerate(cases)]
    # keep the >64 rules cases (other glyph set) apart so that the UFOs are not rewritten all the time
    order = sorted(range(len(cases)), key=lambda i: (cases[i]["fam"] == "M", i))
    res = [None] * len(cases)
    main_idx = [i for i in order if cases[i]["fam"] != "M"]
    m_idx = [i for i in order if cases[i]["fam"] == "M"]
    for tag, idxs in (("fc", main_idx), ("fcm", m_idx)):
        if idxs:
            out = run_harness(ctx, [reqs[i] for i in idxs], 8, tag)
            for i, o in zip(idxs, out):
                res[i] = o
    common.log("harness: %d API calls, %d full compiles" % (len(cases), len(chosen)))

    # ---- API level
    api_obs = {}          # case index -> function k, ci -> map
    differing = []
    for i, c in enumerate(cases):
        a = res[i]["api"]
        if a["outcome"] != "ok":
            if c["panic"]:
                what = "%s: overlay_feature_variations panics (%s), as the transcription predicts (a rank bit beyond the rule list); rules %s" % (c["id"], a.get("message", "")[:200], fmt_rules(c))
            else:
                what = "%s: overlay_feature_variations panics on valid rules: %s; rules %s" % (c["id"], a.get("message", "")[:200], fmt_rules(c))
            cls = "C16-KF2:" if c["nmerged"] > 64 and "index out of bounds" in a.get("message", "") else "C16-NEW:"
            tally.by_sig[cls + "api-panic"] = tally.by_sig.get(cls + "api-panic", 0) + 1
            report(ctx, tally, cls, "%sapi-panic:%s:%s" % (cls, c["id"], case_key(c)), what, dict(level="api", case=dict(c, cls=list(c["cls"])), observed=a))
            continue
        if c["panic"]:
            ctx.drift("FeatVars", "%s: the transcription predicts an out-of-range rank bit (panic), the real code returned normally" % c["id"])
        if norm_items(a["boxes"]) == norm_items(c["items"]):
            api_obs[i] = None      # same boxes: the back-end reading is the spec's f
        else:
            differing.append(i)
    obs_classes = {}
    if differing:
        cap = 4000 if ctx.quick else 20000
        if len(differing) > cap:
            common.log("%d cases with boxes differing from the transcription; interpreting the first %d" % (len(differing), cap))
        sub = differing[:cap]
        path = ctx.path("obs", "api_items.ndjson")
        with open(path, "w") as f:
            for i in sub:
                c = cases[i]
                f.write(json.dumps({"id": c["id"], "fam": c["fam"], "nax": c["nax"], "rules": c["rules"],
                                    "items": res[i]["api"]["boxes"]}) + "\n")
        ro = common.run_tlc(ctx, SPEC, "FeatVarsObs.cfg", workers=4, timeout=600 if ctx.quick else 1500, xmx="3g",
                            env={"FV_OBS": path}, deadlock=False)
        if ro.timed_out or ro.error or ro.violated:
            raise common.ToolError("TLC observation run failed: %s" % (ro.error or ro.violated or "timeout"))
        for o in parse_replay(ro.out):
            obs_classes[o["id"]] = o
        if len(obs_classes) != len(sub):
            raise common.ToolError("TLC observation run interpreted %d of %d cases" % (len(obs_classes), len(sub)))
    common.log("API results interpreted")
    n_api = 0
    recompile = []
    api_bad = {}
    for i, c in enumerate(cases):
        if i in api_obs:
            classes = c["classes"]
            bad = compare_obs(ctx, tally, c, "api", lambda k, ci, cl=classes: m(cl[ci - 1]["f"]), res[i]["api"])
        elif c["id"] in obs_classes:
            o = obs_classes[c["id"]]
            bad = compare_obs(ctx, tally, c, "api", lambda k, ci, o=o: m(o["classes"][o["cls"][k] - 1]["f"]), res[i]["api"])
            tally.api_drift += 1
            if not bad:
                ctx.drift("FeatVars", "%s: overlay_feature_variations returns boxes differing from the transcription "
                          "(same substitutions everywhere): real %s spec %s" %
                          (c["id"], json.dumps(res[i]["api"]["boxes"])[:200], json.dumps(c["items"])[:200]))
        else:
            continue
        n_api += 1
        if bad:
            api_bad[i] = set(bad)
            if i not in chosen:
                recompile.append(i)

    # ---- every case with an API-level disagreement that was not compiled yet is compiled too (capped), so
    #      that the finding is confirmed (or refuted) on the font
    kfcap, newcap = (60, 300) if ctx.quick else (600, 3000)
    extra_idx, nk, nn = [], 0, 0
    for i in recompile:
        isnew = "C16-NEW:" in api_bad[i]
        if isnew and nn < newcap:
            nn += 1
            extra_idx.append(i)
        elif not isnew and nk < kfcap:
            nk += 1
            extra_idx.append(i)
    if extra_idx:
        out = run_harness(ctx, [request(cases[i], False, True, "") for i in extra_idx], 8, "fcx")
        for i, o in zip(extra_idx, out):
            res[i]["font"] = o["font"]
            chosen.add(i)
        common.log("harness: %d more full compiles of cases with an API-level disagreement" % len(extra_idx))

    # ---- font level
    common.log("API level compared")
    for i in sorted(chosen):
        c = cases[i]
        f = res[i].get("font")
        if f is None:
            continue
        tally.compiled += 1
        if f["outcome"] in ("tool-error", "unreadable") or "Reading source failed" in f.get("message", ""):
            raise common.ToolError("full compile of %s: %s" % (c["id"], f.get("message")))
        if f["outcome"] != "ok":
            sig = "C16-KF2:" if c["nmerged"] > 64 and "index out of bounds" in f.get("message", "") else "C16-NEW:"
            tally.by_sig[sig + "nofont"] = tally.by_sig.get(sig + "nofont", 0) + 1
            report(ctx, tally, sig, "%snofont:%s:%s" % (sig, c["id"], case_key(c)),
                   "%s: compiling the designspace with rules %s gives no usable font: %s %s" %
                   (c["id"], fmt_rules(c), f["outcome"], f.get("message", "")[:300]),
                   dict(level="font", case=dict(c, cls=list(c["cls"])), observed=f))
            continue
        obs = [m(x) for x in f["obs"]]
        if len(obs) != len(c["cls"]):
            raise common.ToolError("full compile of %s: %d observations for %d points" % (c["id"], len(obs), len(c["cls"])))
        bad = compare_obs(ctx, tally, c, "font", lambda k, ci, obs=obs: obs[k], {k: f[k] for k in ("records", "lookups", "features")})
        # internal: the font against the transcription's font
        same, got, want = font_projection_matches(c, f)
        spec_f = [m(c["classes"][ci - 1]["f"]) for ci in c["cls"]]
        if obs != spec_f:
            tally.font_drift += 1
            k = next(k for k in range(len(obs)) if obs[k] != spec_f[k])
            ctx.drift("FeatVars", "%s: the font behaves differently from the transcription's font at %s: font %s, transcription %s (rules say %s)" %
                      (c["id"], fmt_pt(points_of(c)[k]), json.dumps(obs[k], sort_keys=True), json.dumps(spec_f[k], sort_keys=True),
                       json.dumps(m(c["classes"][c["cls"][k] - 1]["e"]), sort_keys=True)))
        elif not same:
            tally.font_drift += 1
            ctx.drift("FeatVars", "%s: FeatureVariations records/lookups differ from the transcription (same behaviour): font %s spec %s" %
                      (c["id"], json.dumps(got)[:220], json.dumps(want)[:220]))
        ev.traces += 1
    ev.traces += n_api

    # ---- evidence
    common.log("font level compared")
    for c in cases:
        if nontrivial(c):
            ev.nontrivial_add(case_key(c))
        tally.edge_spec_disagree += sum(1 for ci in c["cls"] if c["classes"][ci - 1]["x"] and m(c["classes"][ci - 1]["e"]) != m(c["classes"][ci - 1]["f"]))
    ev.evaluations = n_api + tally.compiled
    for c in cases[:2] + [x for x in cases if x["fam"] == "R2"][:2]:
        ev.sample({"id": c["id"], "rules": fmt_rules(c), "points": len(c["cls"]),
                   "expected_classes": [json.dumps(m(cl["e"]), sort_keys=True) for cl in c["classes"]][:6]})
    exhaustive_fams = [a for a, n in fams if a in sizes and n >= sizes[a]]
    ev.exhaustive = False
    ev.extra["families"] = {a: {"cases": min(n, sizes.get(a, 10 ** 9)), "of": sizes.get(a, "pseudo-random (seeded)"),
                                "exhaustive": a in exhaustive_fams} for a, n in fams}
    ev.extra["replayed"] = {"api_calls": n_api, "full_compiles": tally.compiled,
                            "sample_points_compared_non_edge": tally.points,
                            "api_cases_with_boxes_differing_from_transcription": tally.api_drift,
                            "fonts_differing_from_transcription": tally.font_drift}
    ev.extra["exact_edge_points"] = {
        "note": "points with a coordinate exactly on a rule bound inside the axis range: evaluated, reported here, never violations",
        "compared": tally.edge_points, "real_code_differs_from_rules": tally.edge_obs_disagree,
        "transcription_differs_from_rules": tally.edge_spec_disagree}
    ev.extra["violations_by_class"] = dict(sorted(tally.by_sig.items()))
    ev.assumptions += [
        "coordinates are F2Dot14 integers; axis min 0 / default 16384 / max 32768 with user = design, so the design->normalized conversion is exact",
        "the API result is read the way the transcribed back end reads it (sorted-map lookups, first matching record); this reading is itself compared with every compiled font (drift if it differs)",
        "glyph substitution maps over {a->a1, a->a2, b->b1}: no chains (a target is never a source)",
        "TLC, read-fonts parsing of GSUB, the OpenType first-match / lookup-order evaluation in harness/src/featvars.rs are trusted",
    ]
    common.log("compared %d non-edge points (%d edge points apart); classes: %s" %
               (tally.points, tally.edge_points, json.dumps(ev.extra["violations_by_class"])))


def nontrivial(case):
    """at some non-edge sample point at least two rules are active at once (python re-evaluation of
    RuleActive, used only for the evidence statistic distinct_nontrivial)"""
    pts = points_of(case)
    for k, ci in enumerate(case["cls"]):
        if case["classes"][ci - 1]["x"]:
            continue
        p = pts[k]
        n = 0
        for r in case["rules"]:
            if any(all((not c["hasLo"] or c["lo"] <= p[c["ax"] - 1]) and (not c["hasHi"] or p[c["ax"] - 1] <= c["hi"]) for c in cs)
                   for cs in r["conds"]):
                n += 1
                if n >= 2:
                    return True
    return False


def replay(ctx, tally):
    """--replay <file>: run exactly the stored case again (API + full compile) against the stored expectation"""
    doc = json.load(open(ctx.replay))
    rp = doc["replay"]
    c = rp["case"]
    out = run_harness(ctx, [request(c, True, True, "", keep=True)], 1, "replay")[0]
    a = out["api"]
    print("case %s: %s" % (c["id"], fmt_rules(c)), flush=True)
    print("overlay_feature_variations: %s" % json.dumps(a)[:1500], flush=True)
    f = out["font"]
    print("font (%s): records %s lookups %s" % (f.get("src", f["outcome"]), json.dumps(f.get("records"))[:800], json.dumps(f.get("lookups"))[:400]), flush=True)
    if a["outcome"] == "ok" and norm_items(a["boxes"]) == norm_items(c["items"]):
        compare_obs(ctx, tally, c, "api", lambda k, ci: m(c["classes"][ci - 1]["f"]), a)
    elif a["outcome"] != "ok":
        ctx.violation("C16-NEW:api-panic:%s:%s" % (c["id"], case_key(c)), "overlay_feature_variations panics: %s" % a.get("message"), rp)
    else:
        print("(boxes differ from the stored transcription; only the font is compared)", flush=True)
    if f["outcome"] == "ok":
        obs = [m(x) for x in f["obs"]]
        compare_obs(ctx, tally, c, "font", lambda k, ci: obs[k], {k: f[k] for k in ("records", "lookups", "features")})
    else:
        ctx.violation("C16-NEW:nofont:%s:%s" % (c["id"], case_key(c)), "no usable font: %s %s" % (f["outcome"], f.get("message")), rp)
    ctx.ev.traces = 2
    ctx.ev.evaluations = 2
    ctx.ev.nontrivial_add(case_key(c))
    ctx.ev.sample({"replayed": c["id"], "rules": fmt_rules(c)})
