"""C17 Summary fields agree with the data they summarise.

Decided by spec/Summary.tla: the *definitions* of head xMin..yMax, glyph header boxes (simple: box of the
coordinate data; composite: covers the resolved outline within 1 unit), hhea/vhea advance maximum, minimum side
bearings, extent and long-metric count, maxp maxima (points, contours, composite totals, component elements and
depth as a least fixed point over the component graph), loca format/length, OS/2 xAvgCharWidth, first/last
character index, Unicode / code page range bits and usMaxContext - over the raw data `vh summary` measures from
each compiled font (no summarising on the Rust side).  TLC evaluates Summary!Fields on every observation
(spec/SummaryObs.tla) and prints the fields whose stored value differs from its definition.

Fonts validated: checks/fontcorpus.py = every compilable testdata fixture x option sets + MiniFonts generated
from the cases TLC enumerates with spec/SummaryGen.tla.

PROPERTY-LEVEL (violation): a level-P field of Summary!Fields fails on a compiled font (stored vs defined value
reported; signature = field:input class:font id).
INTERNAL (drift): level-D fields (long-metric count not minimal, long loca although short fits, usMaxContext
larger than the definition, composites the model cannot follow), corpus changes (fixture newly fails/compiles).
"""
import json, os, re
import common, fontcorpus

FAIL_RE = re.compile(r'^<<"FAIL", "(.*)">>$')
CHECKED_RE = re.compile(r'<<\s*"CHECKED",\s*"((?:[^"\\]|\\.)*)",\s*(\d+),\s*(\d+)\s*>>', re.S)


def parse_tlc(out):
    fails = []
    for l in out.splitlines():
        m = FAIL_RE.match(l)
        if m:
            s = m.group(1).encode().decode("unicode_escape") if "\\" in m.group(1) else m.group(1)
            fails.append(json.loads(s))
    checked = {m.group(1).replace("\\\\", "\\"): (int(m.group(2)), int(m.group(3))) for m in CHECKED_RE.finditer(out)}
    return fails, checked


def observe(ctx, fonts, module, defaults):
    reqs = [{"id": f["id"], "font": f["font"], "meta": {k: f["meta"].get(k, d) for k, d in defaults.items()}}
            for f in fonts]
    obs = common.vh_batch(reqs, procs=8, timeout=1800, module=module)
    good = []
    for f, o in zip(fonts, obs):
        if not o or o.get("outcome") != "ok":
            # the compiler said Ok but the font cannot even be opened / measured: C05's business is to say why;
            # for C17 nothing can be summarised -> property-level (summary tables unreadable)
            ctx.violation("unreadable:%s" % f["id"],
                          "font compiled from %s (%s) cannot be measured: %s %s" %
                          (f["src"], f["opts"], (o or {}).get("outcome"), ((o or {}).get("message") or "")[:300]),
                          fontcorpus.replay_obj(f))
            continue
        good.append(o)
    return good


SELFTEST = "selftest:corrupted-copy"


def evaluate(ctx, spec, records, tag, timeout, corrupt=None):
    """TLC evaluates <spec>!Fields on every record.  `corrupt(copy_of_first_record)` flips one stored value: the
    corrupted copy is appended under the id SELFTEST and TLC must report exactly that field for it, otherwise
    the validation is vacuous (tool error)."""
    records = list(records)
    expect_fail = None
    if corrupt is not None and records:
        bad = json.loads(json.dumps(records[0]))
        bad["id"] = SELFTEST
        expect_fail = corrupt(bad)
        records.append(bad)
    path = ctx.path("%s.ndjson" % tag)
    with open(path, "w") as fh:
        for o in records:
            fh.write(json.dumps(o) + "\n")
    r = common.run_tlc(ctx, spec, spec + ".cfg", workers=4, timeout=timeout, xmx="6g", env={"OBS": path}, tag=tag)
    if r.error or r.timed_out or r.violated:
        raise common.ToolError("%s failed: %s\n%s" % (spec, r.error or r.violated or "timeout",
                                                      common.tlc_trace_text(r.out)[:2000]))
    fails, checked = parse_tlc(r.out)
    missing = [o["id"] for o in records if o["id"] not in checked]
    if missing:
        raise common.ToolError("%s evaluated %d of %d records (first missing: %s)" %
                               (spec, len(checked), len(records), missing[:3]))
    if expect_fail is not None:
        got = [f["f"] for f in fails if f["id"] == SELFTEST]
        if expect_fail not in got:
            raise common.ToolError("%s did not reject the corrupted record (expected %s to fail, got %s)" %
                                   (spec, expect_fail, got))
        fails = [f for f in fails if f["id"] != SELFTEST]
        checked.pop(SELFTEST, None)
    return fails, checked


def corrupt_summary(o):
    o["head"]["b"][2] += 1                # head.xMax one unit off
    return "head.xMax"


def main(ctx):
    common.build_harness()
    ev = ctx.ev
    ev.rule = ("a validated font is non-trivial when it has at least one composite glyph, or a glyph with a "
               "negative side bearing, or a trailing run of equal advances shorter than the glyph count, or a "
               "code point beyond U+FFFF (keyed by the tuple of these four facts + glyph count + kinds)")
    if ctx.replay:
        fonts, stats = fontcorpus.replay_font(ctx), {"replay": 1}
    else:
        fonts, stats = fontcorpus.build(ctx)
    by_id = {f["id"]: f for f in fonts}
    obs = observe(ctx, fonts, "summary", {"src_adv": [], "explicit_ranges": False})
    common.log("C17: %d fonts measured" % len(obs))
    fails, checked = evaluate(ctx, "SummaryObs", obs, "summary_obs", 900 if ctx.quick else 2400, corrupt_summary)
    ev.traces = len(checked)
    ev.evaluations = sum(n for n, _ in checked.values())
    # non-triviality of what was validated
    for o in obs:
        kinds = "".join(sorted(set(g["k"] for g in o["g"])))
        adv = o["adv"]
        run = 1
        while run < len(adv) and adv[-1 - run] == adv[-1]:
            run += 1
        facts = ("c" in kinds, any(v < 0 for v in o["lsb"]), run < len(adv), any(c > 0xFFFF for c in o["cmap"]))
        if any(facts):
            ev.nontrivial_add(json.dumps([facts, len(adv), kinds, run, len(o["cmap"])]))
    drift_kinds = {}
    nviol = 0
    for f in fails:
        font = by_id.get(f["id"], {"id": f["id"], "src": "?", "opts": "?", "kind": "?", "meta": {}})
        where = f["f"] + ("[gid %d]" % f["gid"] if f.get("gid", -1) >= 0 else "")
        what = "%s: stored %s, defined %s  (font %s, options %s)" % (where, json.dumps(f["s"]), json.dumps(f["d"]),
                                                                    font["src"], font["opts"])
        if f["lvl"] == "P":
            nviol += 1
            if nviol <= 200:
                cls = f.get("cls", "-")
                sig = ("%s:%s:%s" % (cls, f["f"], f["id"])) if cls != "-" else ("%s:%s" % (f["f"], f["id"]))
                ctx.violation(sig, what + ("" if cls == "-" else "  [input class: %s]" % cls),
                              dict(fontcorpus.replay_obj(font), field=f) if font["src"] != "?" else {"field": f})
        else:
            drift_kinds[f["f"]] = drift_kinds.get(f["f"], 0) + 1
            if drift_kinds[f["f"]] <= 2:
                ctx.drift("Summary", what)
    ev.extra["corpus"] = stats
    ev.extra["drift_fields"] = drift_kinds
    ev.extra["failing_property_fields"] = nviol
    ev.exhaustive = False
    ev.assumptions = [
        "read-fonts decodes glyf/hmtx/vmtx/cmap/OS/2/maxp/head/hhea/vhea/GSUB/GPOS correctly (trusted reader)",
        "composite outlines are resolved with unscaled component offsets (the OpenType default); point-matched or "
        "scaled-offset components are reported as drift, not checked",
        "OS/2 range bits are compared only for Unicode bits 0,1,7,9,11,13,57 and code page bits 2,3,5,6,16 "
        "(ranges stated from the OpenType specification), and only when the source does not assign ranges itself",
        "xAvgCharWidth may be rounded either way (the specification does not say)",
    ]
    for o in obs[:3]:
        ev.sample({"font": o["id"], "fields_evaluated": checked[o["id"]][0], "glyphs": o["n"]})
    for f in fails[:3]:
        ev.sample({"failing": f})
    common.log("C17: %d fonts validated, %d field evaluations, %d property-level mismatches, drift %s" %
               (len(checked), ev.evaluations, nviol, drift_kinds))
