"""C01 Repeatable builds: same source and options give a byte-identical font.

Decided by
 * spec/Workload.tla on job graphs extracted from real builds: OrderOK + ReadsFromCanonical (every job reads
   the same versions of its inputs in every schedule => same dataflow => same bytes), exhaustively on slices
   and by simulation on whole graphs (shared machinery with C02);
 * spec/Determinism.tla validating the log of real builds: every (source, options) is built in several fresh
   processes (hash seeds), under several thread counts and jitter seeds, through the library and the CLI,
   with and without IR emission; all digests of one key must agree.
"""
import json, os, concurrent.futures
import common, graphs, sched, minifont


def order_leak_fonts(ctx):
    """MiniFonts with the shapes named in the property: equal name strings, several non-default masters,
    sparse layers, non-export nested components, divergent kerning groups."""
    out = []
    mf = minifont.template_wght(("a", "b", "c", "d", "e"))
    mf["axes"] = [{"tag": "wght", "name": "Weight", "min": 100, "default": 400, "max": 900,
                   "labelnames": [["en", "Weight"]]}]
    mf["masters"] = [{"name": "Regular", "style": "Regular", "loc": {"Weight": 400}},
                     {"name": "Thin", "style": "Thin", "loc": {"Weight": 100}},
                     {"name": "Bold", "style": "Bold", "loc": {"Weight": 700}},
                     {"name": "Black", "style": "Black", "loc": {"Weight": 900}}]
    for i, g in enumerate(mf["glyphs"]):
        g["layers"] = {m["name"]: minifont.simple_layer(400 + 37 * k + 10 * i, 40 + k, 0, 300 + 53 * k, 700)
                       for k, m in enumerate(mf["masters"])}
    # nested + non-export components
    for m in mf["masters"]:
        mf["glyphs"][3]["layers"][m["name"]] = {"width": 500, "components": [{"base": "a"}, {"base": "b", "xform": [1, 0, 0, 1, 300, 0]}]}
        mf["glyphs"][4]["layers"][m["name"]] = {"width": 600, "components": [{"base": "d"}, {"base": "c", "xform": [1, 0, 0, 1, 50, 20]}]}
    mf["skip_export"] = ["d"]
    mf["glyphs"][0]["sparse"] = [{"layer": "L250", "master": "Regular", "loc": {"Weight": 250},
                                  "data": minifont.simple_layer(410, 41, 0, 310, 700)}]
    # equal strings: instances named like the family / axis / each other
    mf["instances"] = [{"stylename": "Regular", "loc": {"Weight": 400}}, {"stylename": "Weight", "loc": {"Weight": 500}},
                       {"stylename": "Mini", "loc": {"Weight": 600}}, {"stylename": "Bold", "loc": {"Weight": 700}},
                       {"stylename": "Bold", "loc": {"Weight": 800}}]
    # divergent kerning groups
    mf["masters"][0].update(groups={"public.kern1.L": ["a", "b"], "public.kern2.R": ["b", "c"]},
                            kerning={"public.kern1.L": {"public.kern2.R": -20}, "a": {"c": 15}})
    mf["masters"][2].update(groups={"public.kern1.L": ["a"], "public.kern1.M": ["b"], "public.kern2.R": ["c"]},
                            kerning={"public.kern1.L": {"public.kern2.R": -40}, "public.kern1.M": {"b": -5}})
    mf["masters"][3].update(groups={"public.kern1.L": ["a", "b"], "public.kern2.R": ["b", "c"]},
                            kerning={"public.kern1.L": {"public.kern2.R": -60}})
    for g, cp in zip(mf["glyphs"], (0x61, 0x62, 0x63, 0x64, 0x65)):
        g["unicodes"] = [cp]
    mf["features"] = "feature liga { sub a b by c; } liga;\nfeature ss01 { featureNames { name \"Bold\"; }; sub a by b; } ss01;\n"
    d = ctx.path("mini", "leaky", "x")[:-2]
    out.append(("minifont:order-leak-shapes", minifont.materialize(mf, d), []))
    out.append(("minifont:order-leak-shapes", out[0][1], ["flatten"]))
    # kerning that spans scripts: a group mixing Latin and Greek, group/glyph pairs with glyph/glyph
    # exceptions, RTL letters and a common-script glyph; the kern writer splits by script and merges
    # overlapping script sets (bucket order must not leak into "first rule wins")
    names = [("A", 0x41), ("T", 0x54), ("V", 0x56), ("Alpha", 0x391), ("Upsilon", 0x3A5), ("Tau", 0x3A4),
             ("alef-hb", 0x5D0), ("bet-hb", 0x5D1), ("period", 0x2E), ("Be-cy", 0x411)]
    mf = minifont.template_wght(tuple(n for n, _ in names))
    for g, (_n, cp) in zip(mf["glyphs"], names):
        g["unicodes"] = [cp]
    groups = {"public.kern1.Alike": ["A", "Alpha", "Be-cy"], "public.kern2.Vlike": ["V", "Upsilon"],
              "public.kern1.Tlike": ["T", "Tau"], "public.kern2.dots": ["period", "bet-hb"]}
    kern_r = {"A": {"T": -10, "V": -80}, "Alpha": {"Upsilon": -70, "Tau": -15},
              "public.kern1.Alike": {"T": -30, "Upsilon": -35, "public.kern2.Vlike": -55, "public.kern2.dots": -5},
              "public.kern1.Tlike": {"public.kern2.dots": -45, "A": -25}, "alef-hb": {"bet-hb": -20, "period": -8},
              "Be-cy": {"V": 12}}
    kern_b = {"A": {"T": -14, "V": -90}, "Alpha": {"Upsilon": -75},
              "public.kern1.Alike": {"T": -36, "Upsilon": -41, "public.kern2.Vlike": -60},
              "public.kern1.Tlike": {"public.kern2.dots": -50}, "alef-hb": {"bet-hb": -26}}
    mf["masters"][0].update(groups=groups, kerning=kern_r)
    mf["masters"][1].update(groups=groups, kerning=kern_b)
    d = ctx.path("mini", "mixed-script-kern", "x")[:-2]
    out.append(("minifont:mixed-script-kerning", minifont.materialize(mf, d), []))
    return out


def main(ctx):
    common.build_harness()
    ev = ctx.ev
    quick = ctx.quick
    base = list(sched.QUICK_SOURCES)
    if not quick:
        fx = [f for f in common.fixtures() if f not in [s for s, _ in base]]
        base += [(f, []) for f in fx]
    srcs = [(rel, sched.source_path(rel), flags) for rel, flags in base] + order_leak_fonts(ctx)
    nproc = 3 if quick else 8
    inproc_cfgs = [(1, 0), (2, ctx.seed * 5 + 1), (16, ctx.seed * 5 + 2)] if quick else \
        [(1, 0), (2, ctx.seed * 5 + 1), (3, ctx.seed * 5 + 2), (4, ctx.seed * 5 + 3), (16, ctx.seed * 5 + 4), (16, 0)]

    # ---- library builds: `nproc` fresh processes per source, each running all in-process configurations
    jobs = []
    for si, (rel, path, flags) in enumerate(srcs):
        for p in range(nproc):
            reqs = []
            for ci, (threads, jitter) in enumerate(inproc_cfgs):
                reqs.append(dict(tag="%d:%d:%d" % (si, p, ci), src=path, threads=threads, jitter=jitter,
                                 flags=[f for f in flags if f != "skip_features"], skip_features="skip_features" in flags))
            if p == 0:
                reqs.append(dict(tag="%d:%d:ir" % (si, p), src=path, threads=4,
                                 flags=[f for f in flags if f != "skip_features"], skip_features="skip_features" in flags,
                                 ir_dir=ctx.path("ir", str(si), "x")[:-2]))
            jobs.append((si, p, reqs))
    common.log("%d sources x %d processes x %d configurations" % (len(srcs), nproc, len(inproc_cfgs)))

    def run(job):
        si, p, reqs = job
        return job, common.vh_batch(reqs, procs=1)

    log = []
    compiles = set()
    with concurrent.futures.ThreadPoolExecutor(8) as ex:
        for (si, p, reqs), results in ex.map(run, jobs):
            rel, path, flags = srcs[si]
            key = "%s|%s" % (rel, ",".join(flags))
            for q, r in zip(reqs, results):
                ev.evaluations += 1
                how = q["tag"].split(":")[2]
                cfg = dict(route="library", process=p, threads=q.get("threads"), jitter=q.get("jitter", 0),
                           emit_ir=bool(q.get("ir_dir")))
                if r is None or r.get("outcome") != "ok":
                    log.append(dict(key=key, digest="FAIL:%s" % (r or {}).get("outcome"), cfg=cfg,
                                    message=(r or {}).get("message", "")[:200]))
                else:
                    compiles.add(key)
                    log.append(dict(key=key, digest="%s:%d" % (r["hash"], r["len"]), cfg=cfg))

    # ---- CLI builds (fresh process each) for the sources that compile
    def cli(item):
        si, n = item
        rel, path, flags = srcs[si]
        out = ctx.path("cli", "%d_%d.ttf" % (si, n))
        extra = []
        for f in flags:
            extra += {"flatten": ["--flatten-components"], "decompose": ["--decompose-components"],
                      "skip_features": ["--skip-features"]}.get(f, [])
        if n == 1:
            extra += ["--emit-ir"]
        o = common.run_fontc(path, out, extra=extra, timeout=120, env={"RAYON_NUM_THREADS": str(1 + 3 * n)})
        if o["how"] == "timedout":  # loaded machine? hangs are C15's business, not a determinism verdict
            o = common.run_fontc(path, out, extra=extra, timeout=1200, env={"RAYON_NUM_THREADS": str(1 + 3 * n)})
            if o["how"] == "timedout":
                raise common.ToolError("fontc timed out twice on %s" % path)
        return item, o, out

    cli_items = [(si, n) for si in range(len(srcs)) for n in range(2 if quick else 3)]
    for (si, n), o, out in common.parallel(cli, cli_items, procs=6):
        rel, path, flags = srcs[si]
        key = "%s|%s" % (rel, ",".join(flags))
        ev.evaluations += 1
        cfg = dict(route="cli", process="cli%d" % n, threads=1 + 3 * n, emit_ir=(n == 1))
        if o["how"] == "exited" and o["status"] == 0 and o["font"] == "valid":
            data = open(out, "rb").read()
            import hashlib
            # the library result is reported as fnv1a:len; compare CLI runs among themselves and by length+sha
            log.append(dict(key=key + "|cli", digest="%s:%d" % (hashlib.sha256(data).hexdigest()[:16], len(data)), cfg=cfg))
        else:
            log.append(dict(key=key + "|cli", digest="FAIL:%s:%s" % (o["how"], o["status"]), cfg=cfg,
                            message=o["stderr"][-200:]))
    # library vs CLI: same bytes. Compare through one more library build written to disk.
    lib_files = common.vh_batch([dict(tag=str(si), src=srcs[si][1], flags=[f for f in srcs[si][2] if f != "skip_features"],
                                      skip_features="skip_features" in srcs[si][2], out=ctx.path("lib", "%d.ttf" % si))
                                 for si in range(len(srcs))], procs=6)
    import hashlib
    for si, r in enumerate(lib_files):
        rel, path, flags = srcs[si]
        key = "%s|%s" % (rel, ",".join(flags))
        f = ctx.path("lib", "%d.ttf" % si)
        if r and r.get("outcome") == "ok" and os.path.exists(f):
            data = open(f, "rb").read()
            log.append(dict(key=key + "|cli", digest="%s:%d" % (hashlib.sha256(data).hexdigest()[:16], len(data)),
                            cfg=dict(route="library-file", process="lib")))

    # ---- TLC decides: Determinism.tla over the log; on a clash report it, drop the key and continue
    obs_path = ctx.path("builds.ndjson")
    remaining = list(log)
    for _round in range(40):
        graphs.write_ndjson(obs_path, [dict(key=o["key"], digest=o["digest"]) for o in remaining])
        r = common.run_tlc(ctx, "Determinism", "Determinism.cfg", workers=1, timeout=600, xmx="2g", env={"OBS": obs_path},
                           tag="det")
        if r.violated == "NotAccepted":
            ev.traces += len(remaining)
            break
        if r.violated == "Repeatable":
            import re
            ks = re.findall(r"/\\ clash = (\d+)", r.out)
            kbad = int(ks[-1])
            bad = remaining[kbad - 1]
            same = [o for o in remaining if o["key"] == bad["key"]]
            digests = {}
            for o in same:
                digests.setdefault(o["digest"], []).append(o["cfg"])
            first = [o for o in same if o["digest"].startswith("FAIL")]
            what = "%s: %d different results for the same source and options: %s" % (
                bad["key"], len(digests), {d: c[:2] for d, c in digests.items()})
            if first:
                what += " | failure: %s" % first[0].get("message", "")
            ctx.violation("nondeterministic:%s" % bad["key"], what, dict(key=bad["key"], digests=digests))
            remaining = [o for o in remaining if o["key"] != bad["key"]]
            continue
        raise common.ToolError("Determinism validation failed: %s" % (r.error or r.violated or "stuck"))
    for k in sorted(compiles):
        ev.nontrivial_add(k)
    ev.sample({"kind": "build log excerpt", "records": log[:4]})

    # ---- schedule universality on the model (graphs of a few sources)
    common.log("model: dataflow confluence on extracted graphs")
    msrcs = base[:3] if quick else base[:6]
    builds = sched.traced_builds(ctx, msrcs, [(1, 0), (16, ctx.seed + 3)])
    for (rel, flags), runs in builds.items():
        good = [r for r in runs if r["res"].get("outcome") == "ok"]
        if not good:
            continue
        gs = [sched.load_graph(r) for r in good]
        gj, problems = graphs.build(gs[0], gs[1:])
        gpath = ctx.path("graphs", (rel + "".join("+" + f for f in flags)).replace("/", "_") + ".json")
        json.dump(gj, open(gpath, "w"))
        sl = [s for s in graphs.slices(gj, 9 if quick else 10) if s[1] >= 5][: (2 if quick else 4)]
        for n, (c, real, name) in enumerate(sl):
            sp = ctx.path("slices", "%s_%d.json" % ((rel + "".join("+" + f for f in flags)).replace("/", "_"), n))
            json.dump(graphs.slice_graph(gj, c), open(sp, "w"))
            r = common.run_tlc(ctx, "Workload", "MCWorkloadGraph.cfg", workers=4, timeout=900, xmx="6g",
                               env={"GRAPH": sp}, tag="slice")
            ev.evaluations += 1
            if r.violated in ("ReadsFromCanonical", "OrderOK"):
                ctx.violation("model:%s:%s" % (rel, r.violated),
                              "job graph of %s (slice %s): TLC found a schedule in which a job reads another version of "
                              "an input than in the sequential build (%s)" % (rel, name, r.violated),
                              dict(source=rel, graph=sp, tlc=common.tlc_trace_text(r.out)[-6000:]))
            elif r.error:
                raise common.ToolError("TLC error on slice of %s: %s" % (rel, r.error))
            ev.sample({"kind": "slice", "source": rel, "target": name, "executing_jobs": real,
                       "distinct_states": r.distinct, "complete": r.complete}, limit=8)
        r = common.run_tlc(ctx, "Workload", "MCWorkloadSim.cfg", workers=4, timeout=600, xmx="4g", env={"GRAPH": gpath},
                           simulate=40 if quick else 150, depth=4000, tag="sim")
        ev.evaluations += 1
        if r.violated in ("ReadsFromCanonical", "OrderOK"):
            ctx.violation("model:%s:%s" % (rel, r.violated),
                          "job graph of %s: simulation found a schedule violating %s" % (rel, r.violated),
                          dict(source=rel, graph=gpath, tlc=common.tlc_trace_text(r.out)[-6000:]))
        elif r.error:
            raise common.ToolError("TLC error on graph of %s: %s" % (rel, r.error))
    ev.exhaustive = False
    ev.rule = ("cases = builds of (source, options) keys under (process, thread count, jitter seed, entry point, IR "
               "emission); all digests of a key must agree (Determinism.tla); non-trivial = distinct keys that compile; "
               "plus Workload.tla Confluence (ReadsFromCanonical) on extracted graphs")
    ev.assumptions = ["hash seeds are sampled by fresh processes, not enumerated",
                      "SOURCE_DATE_EPOCH is fixed for every build", "see C02 for the scheduler model's assumptions"]
