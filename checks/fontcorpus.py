"""The corpus of compiled fonts that C05 (Sfnt.tla) and C17 (Summary.tla) validate.

 (1) every fixture under resources/testdata that compiles on the unchanged tree x option sets
     (default / flatten / decompose / no prefer_simple).  KNOWN_UNCOMPILABLE lists the fixtures that do not
     compile on the unchanged tree: a listed fixture is skipped, a fixture that newly fails (or newly compiles)
     is reported as DRIFT of the corpus, never as a violation.
 (2) MiniFonts generated from the cases TLC enumerates with spec/SummaryGen.tla (glyph-table shapes: empty /
     simple / composite / transformed / nested glyphs, negative bearings, zero advances, trailing runs of equal
     advances, code point classes incl. supplementary planes; static / 2-master variable, kerning, features,
     vertical metrics) and, in the thorough tier, two fonts around the short/long loca threshold.

build(ctx) returns a list of fonts: {"id", "kind", "src", "opts", "font", "meta"} where meta carries what the
*source* makes unambiguous (expected advances, expected / forbidden tables, explicitly assigned OS/2 ranges).
"""
import hashlib, json, os, re, shutil, time
import xml.etree.ElementTree as ET
import common, minifont

OPTSETS = {
    "default": {},
    "flatten": {"flags": ["flatten"]},
    "decompose": {"flags": ["decompose"]},
    "nosimple": {"no_flags": ["prefer_simple"]},
}
OPT_ORDER = ["default", "flatten", "decompose", "nosimple"]

# Fixtures that do not compile on the unchanged tree (measured; outcome, start of the message).
KNOWN_UNCOMPILABLE = {
    "Ufo2Kern-Regular.ufo": "error: UFO 2 glif not readable",
    "ufo2_kern.designspace": "error: UFO 2 glif not readable",
    "glyphs2/AxisRules.glyphs": "error: Invalid source glyph 'space': 'no instances'",
    "glyphs2/Fea_Class.glyphs": "error: FEA validation failed",
    "glyphs2/Fea_Feature.glyphs": "error: FEA parsing failed",
    "glyphs2/Fea_Order.glyphs": "error: FEA parsing failed",
    "glyphs2/Fea_Prefix.glyphs": "error: FEA parsing failed",
    "glyphs2/LinkMetricsWithMasterByName.glyphs": "error: Missing mapping on Weight",
    "glyphs2/ThreeAxisWithInterpolationCustom.glyphs": "error: Missing mapping on Weight",
    "glyphs2/Unicode-QuotedHexSequence.glyphs": "panic: Option::unwrap() on None",
    "glyphs2/Unicode-UnquotedHex.glyphs": "panic: Option::unwrap() on None",
    "glyphs3/Component.glyphs": "error: Cannot map ',' to two different glyph ids",
    "glyphs3/InstanceNames.glyphs": "error: Axis definitions are inconsistent",
    "glyphs3/WghtVar_GlyphOrder.glyphs": "error: interpolation-incompatible paths",
    "glyphs3/number_value.glyphs": "error: Missing mapping on Weight",
    "varpos_Regular.ufo": "error: FEA validation failed",
}

VARIABLE_ONLY = ["fvar", "gvar", "avar", "HVAR", "VVAR", "MVAR", "cvar"]
_RANGE_RE = re.compile(r"unicoderange|codepagerange", re.I)


# ----------------------------------------------------------------------------- what a fixture's source says


def _read(path, limit=4 << 20):
    try:
        with open(path, "r", encoding="utf-8", errors="replace") as f:
            return f.read(limit)
    except OSError:
        return ""


def _ufo_texts(ufo):
    return [_read(os.path.join(ufo, "fontinfo.plist")), _read(os.path.join(ufo, "features.fea")),
            _read(os.path.join(ufo, "lib.plist"))]


def _all_fea_under(d):
    out = []
    for root, _dirs, files in os.walk(d):
        for f in files:
            if f.endswith(".fea"):
                out.append(_read(os.path.join(root, f)))
    return out


def source_facts(src):
    """What the source states unambiguously: {"explicit_ranges", "expect", "forbid"}."""
    texts, expect, forbid = [], [], []
    if src.endswith(".ufo"):
        texts += _ufo_texts(src) + _all_fea_under(src)
        forbid = list(VARIABLE_ONLY)                        # a single UFO is a static source
        info = texts[0]
        if all(k in info for k in ("openTypeVheaVertTypoAscender", "openTypeVheaVertTypoDescender",
                                   "openTypeVheaVertTypoLineGap")):
            expect += ["vhea", "vmtx"]
    elif src.endswith(".designspace"):
        texts.append(_read(src))
        try:
            root = ET.parse(src).getroot()
            base = os.path.dirname(src)
            axes = root.findall("./axes/axis")
            ranged = [a for a in axes if a.get("minimum") is not None and float(a.get("minimum")) < float(a.get("maximum"))]
            locs = set()
            for s in root.findall("./sources/source"):
                fn = s.get("filename")
                if fn:
                    texts += _ufo_texts(os.path.join(base, fn))
                loc = tuple(sorted((d.get("name"), d.get("xvalue")) for d in s.findall("./location/dimension")))
                locs.add(loc)
            texts += _all_fea_under(base)
            if ranged and len(locs) >= 2:
                expect += ["fvar", "gvar", "HVAR", "STAT"]  # a variable source
            elif not axes:
                forbid = list(VARIABLE_ONLY)
        except (ET.ParseError, ValueError, OSError):
            pass
    elif src.endswith(".glyphs"):
        texts.append(_read(src))
        texts += _all_fea_under(os.path.dirname(src))
    elif src.endswith(".glyphspackage"):
        texts.append(_read(os.path.join(src, "fontinfo.plist")))
        texts += _all_fea_under(os.path.dirname(src))
    explicit = any(_RANGE_RE.search(t) for t in texts)
    return {"explicit_ranges": bool(explicit), "expect": expect, "forbid": forbid}


# ----------------------------------------------------------------------------- generated cases -> MiniFont

ADV = {0: 0, 1: 500, 2: 600}
CP_BASE = {"none": None, "latin": 0x61, "latin1": 0xE0, "greek": 0x3B1, "cyrillic": 0x430, "hebrew": 0x5D0,
           "arabic": 0x627, "smp": 0x10400, "high": 0x1F600, "pua": 0xE000}
NAMES = ["a", "b", "c", "d", "e", "f"]


def _quad(dx=0):
    return [[100, 0, "qcurve"], [250 + dx, -90, "offcurve"], [400 + dx, 0, "qcurve"], [480 + dx, 350, "offcurve"],
            [400 + dx, 700, "qcurve"], [250 + dx, 790, "offcurve"], [100, 700, "qcurve"], [20, 350, "offcurve"]]


def _octagon(x, y, r, s):
    return [[x + s, y, "line"], [x + r - s, y, "line"], [x + r, y + s, "line"], [x + r, y + r - s, "line"],
            [x + r - s, y + r, "line"], [x + s, y + r, "line"], [x, y + r - s, "line"], [x, y + s, "line"]]


# outer transform of a nested composite: [xScale, xyScale, yxScale, yScale] (dyadic, exact in F2Dot14) + offset
NEST_XF = {
    "off": ([1, 0, 0, 1], (10, 10)),
    "rot45": ([0.70703125, 0.70703125, -0.70703125, 0.70703125], (300, 0)),
    "rot90": ([0, 1, -1, 0], (400, 0)),
    "skew": ([1, 0, 0.5, 1], (0, 0)),
    "flip": ([-1, 0, 0, 1], (500, 0)),
    "scale": ([1.5, 0, 0, 0.75], (0, 20)),
}


def _layer(shape, adv, slot, shapes, bold, nx="off"):
    """The layer of slot `slot` (0-based) in one master. bold: widen outlines / move offsets."""
    w = 40 if bold else 0
    width = adv + (w if adv > 0 else 0)
    lay = {"width": width}
    prev = shapes[:slot]

    def nearest(pred, skip=0):
        idx = [i for i in range(len(prev) - 1, -1, -1) if pred(prev[i])]
        return NAMES[idx[skip]]

    outline = lambda s: s in ("S", "SN", "Q", "S2")
    if shape == "S":
        lay["contours"] = [minifont.square(50, 0, 350 + w, 700)]
    elif shape == "SN":
        lay["contours"] = [minifont.square(-60 - w // 4, -10, adv + 40 + w, 690)]
    elif shape == "Q":
        lay["contours"] = [_quad(w)]
    elif shape == "S2":
        lay["contours"] = [minifont.square(40, 0, 200 + w, 300), _octagon(220 + w, 100, 200, 50)]
    elif shape == "C":
        lay["components"] = [{"base": nearest(outline), "xform": [1, 0, 0, 1, 30 + w // 2, 20]}]
    elif shape == "CF":
        lay["components"] = [{"base": nearest(outline), "xform": [-1, 0, 0, 0.5, 300 + w, 100]}]
    elif shape == "CR":
        lay["components"] = [{"base": nearest(outline), "xform": [0, 1, -1, 0, 400 + w, 0]}]
    elif shape == "C2":
        lay["components"] = [{"base": nearest(outline, 1), "xform": [1, 0, 0, 1, 0, 0]},
                             {"base": nearest(outline, 0), "xform": [1, 0, 0, 1, 200 + w, -30]}]
    elif shape == "CN":
        m, (dx, dy) = NEST_XF[nx]
        lay["components"] = [{"base": nearest(lambda s: s in ("C", "CF", "CR", "C2")),
                              "xform": list(m) + [dx + w // 4, dy]}]
    elif shape == "CE":
        lay["components"] = [{"base": nearest(lambda s: s == "E"), "xform": [1, 0, 0, 1, 15, 0]}]
    return lay


FEAS = [
    ("liga", "feature liga {\n    sub a b by c;\n} liga;\n", 2),
    ("calt", "feature calt {\n    sub a' b c by b;\n} calt;\n", 3),
    ("ss01", "feature ss01 {\n    sub a by b;\n} ss01;\n", 1),
]


def case_to_minifont(case):
    """TLC case (SummaryGen.tla CaseOf) -> (MiniFont dict, meta)."""
    shapes, advs, cps = case["shapes"], case["adv"], case["cp"]
    n = len(shapes)
    variable = bool(case["variable"])
    mf = minifont.template_wght(()) if variable else minifont.template_static(())
    masters = [m["name"] for m in mf["masters"]]
    notdef_layers = {m: {"width": 500, "contours": [minifont.square(50, -200, 450, 800),
                                                    minifont.square(100, -150, 400, 750)[::-1]]} for m in masters}
    glyphs = [{"name": ".notdef", "unicodes": [], "layers": notdef_layers}]
    idnum = int(case["id"].split("-")[1])
    for i in range(n):
        base = CP_BASE[cps[i]]
        g = {"name": NAMES[i], "unicodes": [] if base is None else [base + i],
             "layers": {m: _layer(shapes[i], ADV[advs[i]], i, shapes, bold=(mi == 1), nx=case.get("nx", "off"))
                        for mi, m in enumerate(masters)}}
        glyphs.append(g)
    mf["glyphs"] = glyphs
    mf["glyph_order"] = [g["name"] for g in glyphs]
    if not variable:
        mf["as_ufo"] = True                 # a static source is the lone UFO
    expect, forbid = [], []
    if case["kern"] and n >= 2:
        mf["masters"][0]["kerning"] = {NAMES[0]: {NAMES[1]: -40}}
        if variable:
            mf["masters"][1]["kerning"] = {NAMES[0]: {NAMES[1]: -60}}
        # a pair that mixes a right-to-left script with anything else is dropped by the kern feature writer
        # (as in ufo2ft), so GPOS is only certain when no RTL code point is involved or both sides agree
        rtl = ("arabic", "hebrew")
        if (cps[0] not in rtl and cps[1] not in rtl) or cps[0] == cps[1]:
            expect.append("GPOS")
    fea = None
    if case["fea"] and n >= 3:
        fea = FEAS[idnum % len(FEAS)]
        mf["features"] = fea[1]
        expect.append("GSUB")
    if case["vertical"]:
        for m in mf["masters"]:
            m["info"] = {"openTypeVheaVertTypoAscender": 500, "openTypeVheaVertTypoDescender": -500,
                         "openTypeVheaVertTypoLineGap": 0}
        for gi, g in enumerate(glyphs):
            for lay in g["layers"].values():
                lay["height"] = 1000 if gi < 2 else 900
        expect += ["vhea", "vmtx"]
    if variable:
        expect += ["fvar", "gvar", "HVAR", "STAT"]
        ax = case.get("ax", "plain")
        if "mapped" in ax:                  # non-identity user -> design map: avar must be there
            mf["axes"][0]["map"] = [[400, 400], [500, 550], [700, 700]]
            expect.append("avar")
        if "point" in ax:                   # min = default = max: no fvar record, but a dimension of every location
            mf["axes"].append({"tag": "ital", "name": "Italic", "min": 0, "default": 0, "max": 0})
            for m in mf["masters"]:
                m["loc"]["Italic"] = 0
    else:
        forbid += VARIABLE_ONLY
    meta = {"src_adv": [500] + [ADV[a] for a in advs], "explicit_ranges": False, "expect": expect, "forbid": forbid,
            "case": case}
    return mf, meta


def big_minifont(nglyphs, npoints=100):
    """A static font whose glyf table is about nglyphs * (16 + 4 * npoints) bytes (every coordinate delta needs
    two bytes), to sit below / above the 128 KiB limit of the short loca format."""
    mf = minifont.template_static(())
    glyphs = [{"name": ".notdef", "unicodes": [], "layers": {"Regular": minifont.simple_layer(500)}}]
    for k in range(nglyphs):
        pts = []
        for i in range(npoints):
            x = 0 if i % 2 == 0 else 600 + ((i * 7 + k) % 300)
            pts.append([x, -15000 + i * 300, "line"])
        glyphs.append({"name": "g%04d" % k, "unicodes": [0x4E00 + k],
                       "layers": {"Regular": {"width": 1000, "contours": [pts]}}})
    mf["glyphs"] = glyphs
    mf["glyph_order"] = [g["name"] for g in glyphs]
    mf["as_ufo"] = True
    meta = {"src_adv": [500] + [1000] * nglyphs, "explicit_ranges": False, "expect": [], "forbid": list(VARIABLE_ONLY)}
    return mf, meta


# Generated sources are a pure function of the MiniFont dict (and of minifont.py), so they are kept between runs
# and shared by C05 and C17 under /verif/work/fontcorpus/<sha1>: writing and deleting ~15 files per case is the
# most expensive part of a run on a busy machine.  Fonts are of course compiled afresh every time.
SRC_CACHE = os.path.join(common.VERIF, "work", "fontcorpus")
_MF_STAMP = None


def cached_source(mf):
    global _MF_STAMP
    if _MF_STAMP is None:
        _MF_STAMP = common.sha256_file(minifont.__file__)[:16]
    key = hashlib.sha1((_MF_STAMP + json.dumps(mf, sort_keys=True)).encode()).hexdigest()[:20]
    d = os.path.join(SRC_CACHE, key[:2], key)
    marker = os.path.join(d, "SOURCE")
    if os.path.exists(marker):
        return open(marker).read().strip()
    tmp = "%s.tmp%d" % (d, os.getpid())
    shutil.rmtree(tmp, ignore_errors=True)
    os.makedirs(tmp)
    src = minifont.materialize(mf, tmp)
    rel = os.path.relpath(src, tmp)
    with open(os.path.join(tmp, "SOURCE"), "w") as f:
        f.write(os.path.join(d, rel))
    try:
        os.rename(tmp, d)
    except OSError:
        shutil.rmtree(tmp, ignore_errors=True)         # somebody else was faster
    return os.path.join(d, rel)


def generate_cases(ctx):
    r = common.run_tlc(ctx, "SummaryGen", "SummaryGen.cfg", workers=2, timeout=600 if ctx.quick else 1200,
                       env={"GEN_MODE": "quick" if ctx.quick else "thorough", "GEN_SEED": ctx.seed}, tag="gen")
    if r.error or r.timed_out or r.violated:
        raise common.ToolError("SummaryGen failed: %s\n%s" % (r.error or r.violated or "timeout",
                                                             common.tlc_trace_text(r.out)[:1500]))
    cases = common.replay_lines(r.out)
    if not cases:
        raise common.ToolError("SummaryGen produced no cases")
    cases.sort(key=lambda c: (c["id"].split("-")[0], int(c["id"].split("-")[1])))
    return cases


# ----------------------------------------------------------------------------- the corpus


def fixture_plan(ctx):
    """[(fixture, optset)] for this tier and seed."""
    fx = [f for f in common.fixtures() if f not in KNOWN_UNCOMPILABLE]
    plan = []
    for i, f in enumerate(fx):
        if ctx.quick:
            plan.append((f, "default"))
            if (i + ctx.seed) % 3 == 0:
                plan.append((f, OPT_ORDER[1 + ((i // 3 + ctx.seed) % 3)]))
        else:
            for o in OPT_ORDER:
                plan.append((f, o))
    return fx, plan


def build(ctx, log=common.log):
    """Compile the corpus; returns (fonts, stats)."""
    t0 = time.time()
    fonts, reqs, metas = [], [], {}
    stats = {"fixtures": 0, "fixture_fonts": 0, "generated": 0, "compile_failures": 0}
    fdir = ctx.path("fonts", "x")
    fdir = os.path.dirname(fdir)
    # -- fixtures (the known-uncompilable ones are compiled once too, to notice when the list is stale)
    fx, plan = fixture_plan(ctx)
    stats["fixtures"] = len(fx)
    facts = {}
    for k, (f, o) in enumerate(plan):
        src = os.path.join(common.TESTDATA, f)
        if f not in facts:
            facts[f] = source_facts(src)
        fid = "fx:%s|%s" % (f, o)
        req = {"tag": fid, "src": src, "out": os.path.join(fdir, "fx%05d.ttf" % k), "threads": 1}
        req.update(OPTSETS[o])
        reqs.append(req)
        meta = {"src_adv": [], "explicit_ranges": facts[f]["explicit_ranges"], "expect": list(facts[f]["expect"]),
                "forbid": list(facts[f]["forbid"])}
        metas[fid] = ("fixture", src, o, meta)
    stale = [f for f in sorted(KNOWN_UNCOMPILABLE)]
    for k, f in enumerate(stale):
        reqs.append({"tag": "stale:%s" % f, "src": os.path.join(common.TESTDATA, f), "out": "", "threads": 1})
    # -- generated
    cases = generate_cases(ctx)
    for k, case in enumerate(cases):
        mf, meta = case_to_minifont(case)
        src = cached_source(mf)
        fid = "gen:%s" % case["id"]
        reqs.append({"tag": fid, "src": src, "out": os.path.join(fdir, "gen%05d.ttf" % k), "threads": 1})
        metas[fid] = ("generated", src, "default", meta)
    if not ctx.quick:
        for name, n in (("big-short", 300), ("big-long", 340)):
            mf, meta = big_minifont(n)
            src = cached_source(mf)
            fid = "gen:%s" % name
            reqs.append({"tag": fid, "src": src, "out": os.path.join(fdir, "%s.ttf" % name), "threads": 1})
            metas[fid] = ("generated", src, "default", meta)
    log("corpus: %d fixture builds, %d generated sources prepared in %.0fs" %
        (len(plan), len(cases) + (0 if ctx.quick else 2), time.time() - t0))
    t1 = time.time()
    res = common.vh_batch(reqs, procs=8, timeout=3000)
    log("corpus: %d compiles in %.0fs" % (len(reqs), time.time() - t1))
    for req, r in zip(reqs, res):
        tag = req["tag"]
        if tag.startswith("stale:"):
            if r and r.get("outcome") == "ok":
                ctx.drift("corpus", "fixture %s is listed as uncompilable but compiles now" % tag[6:])
            continue
        kind, src, o, meta = metas[tag]
        if not r or r.get("outcome") != "ok":
            stats["compile_failures"] += 1
            what = "%s (%s) does not compile: %s %s" % (tag, o, (r or {}).get("outcome"), ((r or {}).get("message") or "")[:200])
            ctx.drift("corpus", what)
            continue
        fonts.append({"id": tag, "kind": kind, "src": src, "opts": o, "font": req["out"], "meta": meta,
                      "len": r.get("len", 0)})
        if kind == "fixture":
            stats["fixture_fonts"] += 1
        else:
            stats["generated"] += 1
    return fonts, stats


def replay_font(ctx):
    """--replay <file>: rebuild exactly the font named in a replay file; returns [font]."""
    rep = json.load(open(ctx.replay))["replay"]
    fdir = os.path.dirname(ctx.path("fonts", "x"))
    out = os.path.join(fdir, "replay.ttf")
    if rep.get("minifont") is not None:
        src = cached_source(rep["minifont"])
    else:
        src = rep["src"]
    req = {"tag": rep["id"], "src": src, "out": out, "threads": 1}
    req.update(OPTSETS.get(rep.get("opts", "default"), {}))
    r = common.vh_batch([req], procs=1)[0]
    if not r or r.get("outcome") != "ok":
        raise common.ToolError("replay source does not compile: %s" % r)
    return [{"id": rep["id"], "kind": rep.get("kind", "fixture"), "src": src, "opts": rep.get("opts", "default"),
             "font": out, "meta": rep["meta"], "len": r.get("len", 0)}]


def replay_obj(font):
    """What a violation's replay file needs to rebuild the font."""
    o = {"id": font["id"], "kind": font["kind"], "src": font["src"], "opts": font["opts"], "meta": font["meta"]}
    if font["kind"] == "generated" and font["meta"].get("case") is not None:
        o["minifont"] = case_to_minifont(font["meta"]["case"])[0]
    return o
