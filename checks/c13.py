"""C13 The feature-file front end is total and lossless.

Decided by spec/FeaParse.tla (sink protocol) and spec/FeaInclude.tla (include resolution):
 (D) design level: FeaParseMC.cfg model-checks that the local guards of the sink protocol imply the statement
     of the property (concatenation of token texts = input, diagnostics inside the source on char boundaries);
     FeaInclude.tla compares its transcription of IncludeGraph::validate/generate_recurse with the reference
     include-stack machine on every enumerated graph with small depth limits;
 (T) every parse tree the real parser returns (TLC-enumerated lexeme strings with and without a glyph map,
     seeded mutations of the fea-rs test corpus, the corpus itself, the inlined trees of the include graphs)
     is projected to sink events + diagnostics by `vh feaparse` and validated by TLC as a behaviour of
     FeaParse.tla (FeaParseTrace.tla, batches of records, one VERDICT per rejected record);
 (R) every include graph TLC enumerates (all graphs on <= 4 files with <= 2 ordered includes, chains / closed
     chains / kites around MAX_INCLUDE_DEPTH) is materialised and resolved by the real parse_root; outcome and
     inlining order are compared with the reference machine's.
Panics, timeouts (confirmed by a second run with a 10x budget) and crashes of the real code are violations.
"""
import concurrent.futures, hashlib, json, os, random, re, subprocess, threading, time, urllib.parse
import common

CORPUS = os.path.join(common.REPO, "fea-rs", "test-data")
GM_SMALL = ["a", "b", "c", "a-b", "b-c", 1]
VHF = os.path.join(common.HARNESS, "target", "debug", "vh-feaparse")
BUDGET_MS = 5000           # per input (typical: < 5 ms); a timeout is re-run alone with CONFIRM_MS before it counts
CONFIRM_MS = 20000
MAX_BAD_PER_CHUNK = 10     # timeouts + crashes after which the rest of a chunk is skipped
PROBE_MS = 1500            # budget of one probe while minimising a non-terminating input (classification only)
MINIMISE_S = 45            # wall-clock cap for minimising one non-terminating input
KEYWORDS = set("""anchor anchorDef anon anonymous by contour cursive device enum enumerate exclude_dflt excludeDFLT feature from
 ignore IgnoreBaseGlyphs IgnoreLigatures IgnoreMarks include include_dflt includeDFLT language languagesystem lookup
 lookupflag mark MarkAttachmentType markClass nameid NULL parameters pos position required reversesub RightToLeft rsub
 script sub substitute subtable table useExtension UseMarkFilteringSet valueRecordDef variation conditionset
 featureNames cvParameters sizemenuname name base ligature ligComponent""".split())
JVM = {"JAVA_TOOL_OPTIONS": "-XX:ParallelGCThreads=2 -XX:CICompilerCount=2"}
PROPERTY_REASONS = {
    "TokenText": "lossless", "TokenInside": "lossless", "EndConsumed": "lossless",
    "TokenInNode": "unbalanced", "FinishBalanced": "unbalanced", "OneRoot": "unbalanced", "EndBalanced": "unbalanced",
    "RangeOrdered": "diag-range", "RangeInside": "diag-range", "RangeOnChars": "diag-range",
}


# ----------------------------------------------------------------------------- small helpers


def sha(s):
    return hashlib.sha1(s.encode("utf-8", "surrogatepass")).hexdigest()[:10]


def norm_msg(msg):
    m = re.sub(r"'[^']*'", "'_'", msg or "")
    m = re.sub(r"\d+", "0", m)
    return m[:60]


def lexeme_shape(text, at):
    """Shape of the run of non-blank, non-bracket characters of `text` (bytes offset `at`): letters -> a,
    digits -> 0, repeated punctuation collapsed to two."""
    b = text.encode("utf-8")
    stop = set(b" \t\r\n;,'[]{}()<>=")
    lo = min(at, len(b))
    while lo > 0 and b[lo - 1] not in stop:
        lo -= 1
    hi = min(at, len(b))
    while hi < len(b) and b[hi] not in stop:
        hi += 1
    run = b[lo:hi].decode("utf-8", "replace")[:40]
    out = []
    for ch in run:
        c = "a" if (ch.isalpha() or ch in "._") else "0" if ch.isdigit() else ch if ch.isprintable() and ch < "\x7f" else "U"
        if c in "a0U" and out and out[-1] == c:
            continue
        if len(out) >= 2 and out[-1] == c and out[-2] == c:
            continue
        out.append(c)
    return "".join(out)


_SYMS = None


def stuck_site(stacks):
    """Name the place where a non-terminating parse is stuck from the stack samples `vh-feaparse` took of its
    worker thread: symbolise the offsets with nm, keep the frames of the grammar functions (outermost first), take
    what all samples have in common (= the path from the root to the function that loops, or to the only grammar
    function its body calls) and return its innermost two functions."""
    global _SYMS
    import bisect
    if not stacks:
        return ""
    if _SYMS is None:
        r = subprocess.run(["nm", "-C", "--defined-only", VHF], capture_output=True, text=True)
        syms = []
        for line in r.stdout.splitlines():
            parts = line.split(" ", 2)
            if len(parts) == 3 and parts[1] in "tTwW":
                syms.append((int(parts[0], 16), parts[2]))
        syms.sort()
        _SYMS = ([a for a, _ in syms], [n for _, n in syms], os.path.getsize(VHF))
    addrs, names, limit = _SYMS
    paths = []
    for st in stacks:
        frames = []
        for off in st:
            a = int(off, 16)
            if a >= limit:
                continue
            i = bisect.bisect_right(addrs, a) - 1
            if i < 0:
                continue
            n = names[i]
            if "fea_rs::parse::grammar::" not in n:
                continue
            n = re.sub(r"::h[0-9a-f]{16}$", "", n)
            n = re.sub(r"::\{\{closure\}\}", "", n)
            n = re.sub(r"<[^<>]*>", "", n)
            n = n.replace("fea_rs::parse::grammar::", "").replace("fea_rs::parse::", "").replace("fea_rs::", "")
            if not frames or frames[-1] != n:
                frames.append(n)
        paths.append(list(reversed(frames)))
    common_path = paths[0]
    for p in paths[1:]:
        k = 0
        while k < len(common_path) and k < len(p) and common_path[k] == p[k]:
            k += 1
        common_path = common_path[:k]
    return "<".join(reversed(common_path[-2:]))        # innermost first: "callee<caller"


class Finding:
    """Violations grouped by signature; the smallest input of each group becomes the replay."""

    def __init__(self):
        self.groups = {}

    def add(self, signature, what, request, size):
        g = self.groups.setdefault(signature, {"n": 0, "what": what, "request": request, "size": size, "examples": []})
        g["n"] += 1
        if size < g["size"]:
            g["what"], g["request"], g["size"] = what, request, size
        if len(g["examples"]) < 5:
            g["examples"].append(request.get("tag", ""))

    def report(self, ctx):
        for sig in sorted(self.groups):
            g = self.groups[sig]
            ctx.violation(sig, "%s  [%d input(s) in this class; smallest shown]" % (g["what"], g["n"]),
                          {"request": g["request"], "count": g["n"], "example_tags": g["examples"]})


# ----------------------------------------------------------------------------- running the real code


def run_chunk(ctx, name, k, reqs, budget_ms):
    """Run reqs through `vh-feaparse` (a new process after a timeout or a crash).  Returns (results aligned with
    reqs, trace file).  The trace records of all processes are merged into one file and renumbered;
    results[n]["rec"] is the record number in that file (or -1)."""
    results = [None] * len(reqs)
    merged = ctx.path("trace", "%s_%d.ndjson" % (name, k))
    nrec = 0
    start = 0
    part = 0
    nbad = 0
    with open(merged, "w", newline="\n") as mf:
        while start < len(reqs):
            inp = ctx.path("req", "%s_%d_%d.ndjson" % (name, k, part))
            tr = ctx.path("trace", "%s_%d_%d.part" % (name, k, part))
            with open(inp, "w") as f:
                for r in reqs[start:]:
                    # big inputs get more time: 1 ms per 5 bytes on top of the base budget
                    size = len(r.get("text", "")) + sum(len(v) for v in r.get("files", {}).values())
                    f.write(json.dumps(dict(r, budget_ms=budget_ms + size // 5)) + "\n")
            try:
                p = subprocess.run([VHF, "--in", inp, "--trace-out", tr, "--budget-ms", str(budget_ms)],
                                   capture_output=True, text=True, timeout=3600)
            except subprocess.TimeoutExpired:
                raise common.ToolError("vh-feaparse did not finish chunk %s_%d" % (name, k))
            outs = []
            for l in p.stdout.split("\n"):     # not splitlines(): U+2028 etc. inside JSON strings are not line ends
                if l.startswith("{"):
                    try:
                        outs.append(json.loads(l))
                    except ValueError:
                        break       # the process died while writing (a block-buffered partial line)
            if p.returncode > 0 or (not outs and p.returncode == 0):
                raise common.ToolError("vh-feaparse failed (rc %d): %s" % (p.returncode, p.stderr[-400:]))
            outs = outs[: len(reqs) - start]
            # records of this process, whole lines only: a process that died may leave a partial last line, and
            # nothing malformed may reach TLC
            good = {}
            if os.path.exists(tr):
                with open(tr, newline="\n") as f:
                    for line in f:
                        m = re.match(r'\{"i":(\d+),', line)
                        if not (m and line.endswith("}\n")):
                            continue
                        good[int(m.group(1))] = line
                os.remove(tr)
            if good:
                last = max(good)
                try:
                    json.loads(good[last])
                except ValueError:
                    del good[last]
            for n, o in enumerate(outs):
                r = o.get("rec", -1)
                if r > 0:
                    if r in good:
                        nrec += 1
                        line = good[r]
                        mf.write('{"i":%d,%s' % (nrec, line[line.index(",") + 1:]))
                        o["rec"] = nrec
                    else:
                        o["rec"] = -1          # its record was lost with the process: not validated
                        o["record_lost"] = True
                results[start + n] = o
            os.remove(inp)
            part += 1
            done = start + len(outs)
            if done >= len(reqs):
                break
            nbad += 1
            if nbad >= MAX_BAD_PER_CHUNK:
                # the build under test hangs or dies on input after input: enough evidence, do not spend hours
                for n in range(done + (0 if outs and outs[-1].get("outcome") == "timeout" else 1), len(reqs)):
                    results[n] = {"outcome": "skipped", "rec": -1, "tag": reqs[n].get("tag", ""), "op": reqs[n].get("op", "")}
                if not (outs and outs[-1].get("outcome") == "timeout"):
                    results[done] = {"outcome": "crash", "rc": p.returncode, "message": p.stderr[-300:], "rec": -1,
                                     "tag": reqs[done].get("tag", ""), "op": reqs[done].get("op", "")}
                break
            if outs and outs[-1].get("outcome") == "timeout":
                start = done            # the harness leaves after a timeout; go on with the rest
            else:
                # the process died (abort, stack overflow, kill) while working on this request
                results[done] = {"outcome": "crash", "rc": p.returncode, "message": p.stderr[-300:], "rec": -1,
                                 "tag": reqs[done].get("tag", ""), "op": reqs[done].get("op", "")}
                start = done + 1
    return results, merged


def validate_trace(ctx, tr, tag):
    """TLC validation of one trace file.  Returns (records consumed, {record number: [[reason, index], ..]})."""
    if not os.path.exists(tr) or os.path.getsize(tr) == 0:
        return 0, {}
    size_mb = os.path.getsize(tr) / 1e6
    r = common.run_tlc(ctx, "FeaParseTrace", "FeaParseTrace.cfg", workers=1, timeout=1800, deque=True,
                       xmx="%dg" % max(3, min(12, int(size_mb / 25) + 3)), env=dict(JVM, TRACE=tr), tag=tag)
    if r.timed_out:
        raise common.ToolError("TLC timed out validating %s" % tr)
    if r.violated and r.violated != "Property":
        raise common.ToolError("trace validator: invariant %s of the spec itself violated on %s\n%s" %
                               (r.violated, tr, common.tlc_trace_text(r.out, 40)))
    m = re.findall(r'<<"PROGRESS", (\d+), (\d+)>>', r.out)
    if not m or r.error:
        raise common.ToolError("trace validation of %s failed: %s" % (tr, r.error or r.out[-400:]))
    got, total = int(m[-1][0]), int(m[-1][1])
    if got != total + 1:
        raise common.ToolError("trace validation of %s stopped at record %d of %d" % (tr, got, total))
    verdicts = {}
    for v in common.replay_lines(r.out, marker="VERDICT"):
        verdicts[v["i"]] = v["rej"]
    return total, verdicts


def load_records(tr, wanted):
    out = {}
    if not wanted:
        return out
    with open(tr, newline="\n") as f:
        for line in f:
            m = re.match(r'\{"i":(\d+),', line)
            if m and int(m.group(1)) in wanted:
                out[int(m.group(1))] = json.loads(line)
    return out


class Runner:
    """Runs batches of requests through the real code and TLC, classifies, accumulates statistics."""

    def __init__(self, ctx):
        self.ctx = ctx
        self.find = Finding()
        self.stats = {"parses": 0, "ok": 0, "with_errors": 0, "validated_ok": 0, "validated_errors": 0,
                      "records_validated": 0, "events_validated": 0, "timeouts_retried": 0, "timeouts_not_retried": 0,
                      "format_panics": 0}
        self.lock = threading.Lock()
        self.nbatch = 0
        self.pending = []
        self.confirmed_bad = 0
        self.sampled = False
        self.max_confirm = 4 if ctx.quick else 8    # per batch; a stuck parser allocates ~30 MB/s and costs a minute to name

    def run(self, name, reqs, procs=8, budget_ms=BUDGET_MS):
        """returns the list of results (aligned with reqs)"""
        ctx = self.ctx
        if not reqs:
            return []
        self.nbatch += 1
        name = "%s%d" % (name, self.nbatch)
        procs = max(1, min(procs, (len(reqs) + 199) // 200))
        chunks = [reqs[i::procs] for i in range(procs)]
        t = time.time()

        def job(k):
            res, tr = run_chunk(ctx, name, k, chunks[k], budget_ms)
            return res, tr, validate_trace(ctx, tr, "trace_%s_%d" % (name, k))

        results = [None] * len(reqs)
        with concurrent.futures.ThreadPoolExecutor(procs) as ex:
            outs = list(ex.map(job, range(procs)))
        for k, (res, tr, (total, verdicts)) in enumerate(outs):
            idxs = list(range(k, len(reqs), procs))
            for n, o in enumerate(res):
                results[idxs[n]] = o
            self.stats["records_validated"] += total
            records = load_records(tr, set(verdicts))
            by_rec = {o["rec"]: idxs[n] for n, o in enumerate(res) if o and o.get("rec", -1) > 0}
            for i, rej in verdicts.items():
                self.classify_verdict(reqs[by_rec[i]], results[by_rec[i]], records[i], rej)
                results[by_rec[i]]["rejected"] = [x[0] for x in rej]
            if os.path.exists(tr) and not self.sampled and total:
                self.sampled = True
                with open(tr) as f:
                    rec = json.loads(f.readline())
                rec["ev"] = rec["ev"][:12]
                ctx.ev.sample({"kind": "validated trace record (first 12 events)", "record": rec})
            if os.path.exists(tr) and not ctx.replay:
                os.remove(tr)
        for q, o in zip(reqs, results):
            self.classify_result(q, o)
        self.settle_pending()
        common.log("  %s: %d inputs through the real code + TLC in %.0fs" % (name, len(reqs), time.time() - t))
        return results

    # -- one result line
    def classify_result(self, q, o):
        ctx, st = self.ctx, self.stats
        st["parses"] += 1
        size = len(q.get("text", "")) if q["op"] == "parse" else sum(len(v) for v in q.get("files", {}).values())
        oc = o.get("outcome")
        if oc == "ok":
            st["ok"] += 1
            st["events_validated"] += o.get("nev", 0) if o.get("rec", -1) > 0 else 0
            if o.get("record_lost"):
                st["records_lost_with_a_dead_process"] = st.get("records_lost_with_a_dead_process", 0) + 1
            if o.get("has_errors"):
                st["with_errors"] += 1
            v = o.get("validate")
            if v == "ok":
                st["validated_ok"] += 1
            elif v == "errors":
                st["validated_errors"] += 1
            elif v == "panic":
                cause = "bare-range" if o.get("bare_range") else "-"
                self.find.add("validate-panic:%s:%s:%s" % (cause, short_loc(o.get("validate_loc", "")), norm_msg(o.get("validate_msg"))),
                              "validation of an error-free parse tree%s panicked: %s at %s; input %s" %
                              (" (with a glyph range outside a glyph class)" if o.get("bare_range") else "",
                               o.get("validate_msg"), o.get("validate_loc"), show(q)), q, size)
            if str(o.get("format", "ok")).startswith("panic"):
                st["format_panics"] += 1
                ctx.drift("diagnostic-format", "formatting the diagnostics of %s panicked: %s" % (show(q), o["format"][:200]))
            if o.get("concat_ok") is False and not o.get("rejected") and o.get("rec", -1) > 0:
                raise common.ToolError("harness says token text != input but TLC accepted the trace: %s" % show(q))
            if o.get("concat_ok") is True and set(o.get("rejected", [])) & {"TokenText", "TokenInside", "EndConsumed"}:
                raise common.ToolError("TLC rejected the token texts of a tree whose concatenation equals the input: %s" % show(q))
            if o.get("ntok", 0) + o.get("nnode", 0) > 1:
                ctx.ev.nontrivial_add("%s:%s:%s:%s" % (o.get("shape"), o.get("gm"), o.get("ndiag"), o.get("validate")))
        elif oc == "panic":
            where = o.get("where", "parse")
            if where == "harness":
                raise common.ToolError("harness panicked outside the code under test: %s" % o.get("message"))
            self.find.add("panic:%s:%s:%s" % (where, short_loc(o.get("loc", "")), norm_msg(o.get("message"))),
                          "the parser panicked (%s): %s at %s; input %s" % (where, o.get("message"), o.get("loc"), show(q)),
                          q, size)
        elif oc in ("timeout", "crash"):
            st["parses"] -= 1
            self.pending.append((q, o))
        elif oc == "skipped":
            st["parses"] -= 1
            st["skipped_after_repeated_timeouts_or_crashes"] = st.get("skipped_after_repeated_timeouts_or_crashes", 0) + 1
        elif oc == "loaderr":
            raise common.ToolError("root source could not be loaded: %s" % o.get("message"))
        else:
            raise common.ToolError("unexpected harness result %r" % (o,))

    def settle_pending(self):
        """Timeouts and crashes seen in a batch: re-run each alone with a generous budget; what still does not
        finish is a violation (named after its minimised form), what finishes is classified normally."""
        ctx, st = self.ctx, self.stats
        pending, self.pending = self.pending, []
        # per batch: every kind of trouble gets its chance (crashes are cheap to confirm, hangs are not)
        todo = ([x for x in pending if x[1].get("outcome") == "crash"][:4] +
                [x for x in pending if x[1].get("outcome") == "timeout"][: self.max_confirm])
        st["timeouts_retried"] += len(todo)
        st["timeouts_not_retried"] += len(pending) - len(todo)

        def settle(item):
            q, o = item
            o2 = self.confirm(q)
            site = None
            if o2.get("outcome") == "timeout" and o2.get("phase") in ("parse", "validate") and q["op"] == "parse":
                site = self.hang_site(q)
            return q, o, o2, site

        with concurrent.futures.ThreadPoolExecutor(4) as ex:
            settled = list(ex.map(settle, todo))
        for q, o, o2, site in settled:
            size = len(q.get("text", "")) if q["op"] == "parse" else sum(len(v) for v in q.get("files", {}).values())
            if o2.get("outcome") in ("timeout", "crash"):
                self.confirmed_bad += 1
            if o2.get("outcome") == "timeout":
                if o2.get("phase") not in ("parse", "validate"):
                    raise common.ToolError("harness too slow projecting %s (phase %s)" % (show(q), o2.get("phase")))
                shape, small = site if site else (q.get("tag", ""), "")
                qq = dict(q, text=small, tag=q["tag"] + ":minimised") if small else q
                where = stuck_site(o2.get("stacks"))
                self.find.add("timeout:%s:%s:%s:%s" % (q["op"], o2.get("phase"), where or "?", shape),
                              "no result after %d ms in phase %s (typical: a few ms), stuck in %s; minimised input %r; found as %s" %
                              (CONFIRM_MS, o2.get("phase"), where or "?", small, show(q)), qq, len(small) if small else size)
            elif o2.get("outcome") == "crash":
                self.find.add("crash:%s:rc=%s" % (q["op"], o2.get("rc")),
                              "the process died (rc %s, %s) while parsing; input %s" %
                              (o2.get("rc"), " ".join((o2.get("message") or "").split())[-160:], show(q)), q, size)
            else:
                o.clear()
                o.update(o2)
                self.classify_result(q, o)

    def confirm(self, q):
        """Re-run one request alone, with a generous budget, validating its trace."""
        ctx = self.ctx
        with self.lock:
            self.nbatch += 1
            n = self.nbatch
        res, tr = run_chunk(ctx, "confirm%d" % n, 0, [q], CONFIRM_MS)
        o = res[0]
        total, verdicts = validate_trace(ctx, tr, "trace_confirm%d" % n)
        self.stats["records_validated"] += total
        recs = load_records(tr, set(verdicts))
        for i, rej in verdicts.items():
            self.classify_verdict(q, o, recs[i], rej)
            o["rejected"] = [x[0] for x in rej]
        return o

    def hang_site(self, q):
        """A canonical form of a non-terminating input, for the signature: shortest non-terminating prefix (binary
        search), comments dropped, then delta debugging over its lexemes; identifiers -> a, numbers -> 0, keywords
        and punctuation kept.  Probes run with PROBE_MS; this only names the class, the violation itself was
        confirmed with CONFIRM_MS."""
        t_end = time.time() + MINIMISE_S

        def hangs_many(texts):
            def one(t):
                with self.lock:
                    self.nbatch += 1
                    n = self.nbatch
                res, tr = run_chunk(self.ctx, "probe%d" % n, 0, [dict(q, text=t, tag="probe")], PROBE_MS)
                if os.path.exists(tr):
                    os.remove(tr)
                return res[0].get("outcome") == "timeout"
            with concurrent.futures.ThreadPoolExecutor(6) as ex:
                return list(ex.map(one, texts))

        text = q["text"]
        lo, hi = 0, len(text)          # text[:hi] hangs
        while hi - lo > 1 and time.time() < t_end:
            mid = (lo + hi) // 2
            if hangs_many([text[:mid]])[0]:
                hi = mid
            else:
                lo = mid
        text = text[:hi]
        unit_re = re.compile(r'"[^"]*"?|[^\s;,\'\[\]{}()<>=]+|[;,\'\[\]{}()<>=]')
        nocomment = re.sub(r"#[^\n]*", "", text)
        units, sep = unit_re.findall(nocomment), " "
        if not hangs_many([sep.join(units)])[0]:
            units, sep = re.findall(r"\s+|" + unit_re.pattern, text), ""
        n = 2
        while len(units) >= 2 and time.time() < t_end:
            size = -(-len(units) // n)
            compl = [units[:i] + units[i + size:] for i in range(0, len(units), size)]
            res = hangs_many([sep.join(c) for c in compl])
            hit = next((i for i, r in enumerate(res) if r), None)
            if hit is not None:
                units = compl[hit]
                n = max(n - 1, 2)
            elif n >= len(units):
                break
            else:
                n = min(len(units), n * 2)
        shape = []
        for u in units:
            if u in KEYWORDS or not re.match(r"[\w.\\@-]", u):
                shape.append(" " if u.isspace() else u)
            elif re.fullmatch(r"-?[\d.]+", u):
                shape.append("0")
            else:
                shape.append(re.sub(r"[A-Za-z_][\w.]*", "a", re.sub(r"\d+", "0", u)))
        return sep.join(shape)[:80], sep.join(units)

    # -- one VERDICT of the trace validator
    def classify_verdict(self, q, o, rec, rej):
        ctx = self.ctx
        text = q.get("text", "") if q["op"] == "parse" else (q.get("reference") or "")
        size = len(text)
        for reason, k in rej:
            if reason.startswith("I:"):
                ctx.drift("FeaParseTrace", "%s at event %d of the tree of %s" % (reason, k, show(q)))
                continue
            cls = PROPERTY_REASONS.get(reason)
            if cls is None:
                raise common.ToolError("unknown verdict %s" % reason)
            if q["op"] == "include" and cls == "lossless" and q.get("internal_reference"):
                # the reference text is the transcription's prediction for an error case: internal observable
                ctx.drift("FeaInclude", "tree text of %s differs from the transcription's prediction (%s)" % (q["tag"], reason))
                continue
            if cls == "diag-range":
                d = rec["dg"][k - 1]
                full = next((x for x in (o.get("bad_diags", []) + o.get("bad_vdiags", []) + o.get("diags", []))
                             if x["lo"] == d["lo"] and x["hi"] == d["hi"] and x["ph"] == d["ph"]), {})
                delta = ("hi=len+%d" % (d["hi"] - d["fl"]) if reason == "RangeInside" else
                         "%s%s" % ("lo" if not d["lb"] else "", "hi" if not d["hb"] else "") if reason == "RangeOnChars" else "")
                sig = "diag-range:%s:%s:%s:%s" % ("validate" if d["ph"] == "v" else "parse", reason, delta, norm_msg(full.get("msg")))
                what = ("diagnostic %r (%s) has range %d..%d in a source of %d bytes (lo on char boundary: %s, hi: %s); input %s" %
                        (full.get("msg"), "validation" if d["ph"] == "v" else "parse", d["lo"], d["hi"], d["fl"], d["lb"], d["hb"], show(q)))
            elif cls == "lossless":
                stack, pos = [], 0
                for e in rec["ev"][: k - 1]:
                    if e["e"] == "S":
                        stack.append(e["k"])
                    elif e["e"] == "F":
                        stack.pop()
                    else:
                        pos += e["n"]
                parent = stack[-1] if stack else "-"
                if reason == "EndConsumed":
                    b = text.encode("utf-8")
                    sig = "lossless:EndConsumed:next=%s" % ("%02x" % b[pos] if pos < len(b) else "eof")
                    what = ("the tree's tokens cover %d of %d input bytes (next input byte %s); input %s" %
                            (pos, len(b), sig.split("=")[1], show(q)))
                else:
                    e = rec["ev"][k - 1]
                    sig = "lossless:%s:%s/%s:%s" % (reason, parent, e["k"], lexeme_shape(text, e["at"]))
                    what = ("token %s (%d bytes) at offset %d inside %s is not the input text at that offset; input %s" %
                            (e["k"], e["n"], e["at"], parent, show(q)))
            else:
                sig = "unbalanced:%s" % reason
                what = "the tree is not balanced (%s at event %d); input %s" % (reason, k, show(q))
            self.find.add(sig, what, q, size)


def short_loc(loc):
    # file:line relative to the crate (a class per panic site)
    return loc.split("fea-rs/")[-1] if "fea-rs/" in loc else loc


def show(q):
    if q["op"] == "parse":
        t = q.get("text", "")
        return "%r%s glyph map %s" % (t[:200], "..." if len(t) > 200 else "", "yes" if q.get("glyphs") else "no")
    return "include graph %s" % q.get("tag")


# ----------------------------------------------------------------------------- inputs


def gen_texts(ctx, alpha, maxlen, fulllen, keep, tag):
    r = common.run_tlc(ctx, "FeaParseGen", "FeaParseGen.cfg", workers=1, timeout=1500, xmx="6g",
                       env=dict(JVM, ALPHA=alpha, MAXLEN=maxlen, FULLLEN=fulllen, KEEP=keep, SEED=ctx.seed), tag=tag)
    if not r.complete:
        raise common.ToolError("FeaParseGen (%s) did not complete: %s" % (tag, r.error or r.violated or "timeout"))
    lex = common.replay_lines(r.out, marker="LEX")
    if not lex:
        raise common.ToolError("FeaParseGen printed no alphabet")
    dec = lambda x: urllib.parse.unquote_to_bytes(x).decode("utf-8")
    texts = []
    pat = re.compile(r'^<<"R", (\d), <<(.*)>>>>$')
    rows = []
    for line in r.out.splitlines():
        m = pat.match(line)
        if m:
            rows.append((m.group(1), [int(x) for x in m.group(2).split(",")] if m.group(2).strip() else []))
    if alpha == "rules":
        items = [dec(x) for x in lex[0]["items"]]
        templates = [dec(x) for x in lex[0]["templates"]]
        prefix, suffix = dec(lex[0]["prefix"]), dec(lex[0]["suffix"])
        for _, (t, x, y, z) in rows:
            rule = templates[t - 1]
            rule = re.sub(r"\b[XYZ]\b", lambda m: items[{"X": x, "Y": y, "Z": z}[m.group(0)] - 1], rule)
            texts.append(prefix + rule + suffix)
        nlex = len(items)
    else:
        lex = [dec(x) for x in lex[0]["alpha"]]
        for j, idx in rows:
            texts.append((" " if j == "1" else "").join(lex[i - 1] for i in idx))
        nlex = len(lex)
    if len(texts) != r.distinct:
        raise common.ToolError("FeaParseGen: %d texts parsed from %d states" % (len(texts), r.distinct))
    return texts, nlex


def corpus_files():
    out = []
    for root, _, files in os.walk(CORPUS):
        for f in sorted(files):
            if f.endswith(".fea"):
                p = os.path.join(root, f)
                try:
                    out.append((os.path.relpath(p, CORPUS), open(p, encoding="utf-8").read()))
                except UnicodeDecodeError:
                    pass
    return sorted(out)


def corpus_glyphs():
    names = []
    p = os.path.join(CORPUS, "simple_glyph_order.txt")
    if os.path.exists(p):
        names = [l.strip() for l in open(p) if l.strip() and not l.startswith("#")]
    seen, out = set(), []
    for n in names + ["a", "b", "c", "a-b", "b-c"]:
        if n not in seen:
            seen.add(n)
            out.append(n)
    return out + [1]


POOL = ["feature", "lookup", "sub", "by", "pos", "include(", "table", "a-b", "b-a", "a--b", "\\1", "@c", "1", "-1", "0x", "[",
        "]", "{", "}", "(", ")", "<", ">", "'", ";", ",", "=", "-", "#", "\"", "\n", " ", "\t", "\r", "é", " ",
        "\U0001F600", "﻿", "\x00", "NULL", "anchor", "from", "ignore", "markClass", "$", "\\", "x", "."]


def mutate(rng, files):
    """One seeded mutant: char-level edits / splices / truncations (always valid UTF-8), 1-3 operations."""
    name, t = files[rng.randrange(len(files))]
    ops = []
    for _ in range(rng.choice((1, 1, 2, 3))):
        op = rng.randrange(9)
        n = len(t)
        p = rng.randrange(n + 1)
        if op == 0 and n:      # delete a span
            q = min(n, p + rng.choice((1, 1, 2, 5, 20)))
            t = t[:p] + t[q:]
        elif op == 1:          # insert a lexeme
            t = t[:p] + rng.choice(POOL) + t[p:]
        elif op == 2 and n:    # replace a char
            p = min(p, n - 1)
            t = t[:p] + rng.choice(POOL) + t[p + 1:]
        elif op == 3 and n:    # duplicate a span
            q = min(n, p + rng.choice((1, 3, 10, 40)))
            t = t[:q] + t[p:q] + t[q:]
        elif op == 4:          # splice with another file
            _, u = files[rng.randrange(len(files))]
            t = t[:p] + u[rng.randrange(len(u) + 1):]
        elif op == 5:          # truncate
            t = t[:p]
        elif op == 6 and n:    # swap two neighbouring words
            ws = t.split(" ")
            if len(ws) > 2:
                i = rng.randrange(len(ws) - 1)
                ws[i], ws[i + 1] = ws[i + 1], ws[i]
                t = " ".join(ws)
        elif op == 7 and n:    # byte-level edit, kept only if the result is valid UTF-8
            b = bytearray(t.encode("utf-8"))
            i = rng.randrange(len(b))
            choice = rng.randrange(3)
            if choice == 0:
                b[i] = rng.randrange(256)
            elif choice == 1:
                b.insert(i, rng.randrange(256))
            else:
                del b[i]
            try:
                t = bytes(b).decode("utf-8")
            except UnicodeDecodeError:
                pass
        elif op == 8 and n:    # drop a closing token
            i = t.find(rng.choice(";}])"), p)
            if i >= 0:
                t = t[:i] + t[i + 1:]
        ops.append(op)
    return name, ops, t


# ----------------------------------------------------------------------------- includes


def fname(f):
    return "f%d.fea" % f


def graph_files(c):
    return {fname(f): "# <%d\n%s# >%d\n" % (f, "".join("include(%s);\n" % fname(t) for t in inc), f)
            for f, inc in enumerate(c["inc"])}


def seq_text(seq):
    """marker sequence -> text of the inlined tree (f+1 enter, -(f+1) leave, 1000+t include left in place);
    the newline that follows an include statement stays where it was."""
    out, depth = [], 0
    for m in seq:
        if m >= 1000:
            out.append("include(%s);\n" % fname(m - 1000))
        elif m > 0:
            out.append("# <%d\n" % (m - 1))
            depth += 1
        elif m < 0:
            out.append("# >%d\n" % (-m - 1))
            depth -= 1
            if depth:
                out.append("\n")
    return "".join(out)


def include_cases(ctx, mode, nf, limit, span, tag):
    r = common.run_tlc(ctx, "FeaInclude", "FeaInclude.cfg", workers=2, timeout=1200, xmx="4g",
                       env=dict(JVM, MODE=mode, NF=nf, LIMIT=limit, SPAN=span), tag=tag)
    if not r.complete:
        raise common.ToolError("FeaInclude (%s) did not complete: %s" % (tag, r.error or r.violated or "timeout"))
    cases = common.replay_lines(r.out)
    if not cases:
        raise common.ToolError("FeaInclude (%s) produced no cases" % tag)
    return cases


def case_id(c):
    if c["id"][0] == "small":
        return "small:" + json.dumps(c["inc"], separators=(",", ":"))
    return "%s(%d,%d)" % tuple(c["id"])


def replay_includes(ctx, runner, cases, on_disk_every):
    """Resolve every graph with the real parser and compare with the reference machine."""
    reqs = []
    for k, c in enumerate(cases):
        ok = c["ref"] == "ok"
        seq = c["refseq"] if ok else c["aseq"]
        q = {"op": "include", "tag": case_id(c), "files": graph_files(c), "root": fname(0), "dir": "",
             "reference": None if c["aloops"] else seq_text(seq), "internal_reference": not ok, "case": c}
        if on_disk_every and k % on_disk_every == 0:
            q["dir"] = ctx.path("inc", "g%d" % k, "x")[:-2]
        reqs.append(q)
    results = runner.run("inc", reqs, procs=4)
    n_dec = 0
    for c, q, o in zip(cases, reqs, results):
        if o.get("outcome") != "ok":
            continue        # panic / timeout / crash already reported by the runner
        limit, maxd = c["limit"], c["maxd"]
        must_err = c["ref"] == "cycle" or maxd >= limit + 2
        must_ok = c["ref"] == "ok" and maxd <= limit - 3
        errs = o["has_errors"]
        msgs = sorted(set(d["msg"] for d in o.get("diags", [])))
        cid = case_id(c)
        size = sum(len(v) for v in q["files"].values())
        klass = cid if c["id"][0] == "small" else c["id"][0]
        if must_err:
            n_dec += 1
            if not errs:
                why = "cyclic" if c["ref"] == "cycle" else "%d files deep (limit %d)" % (maxd, limit)
                runner.find.add("include:not-reported:%s:%s" % (c["ref"], klass),
                                "include graph %s is %s but the parser reports no error (tree text %d bytes)" %
                                (cid, why, len(o.get("text", ""))), q, size)
                continue
        elif must_ok:
            n_dec += 1
            if errs:
                runner.find.add("include:spurious-error:%s" % klass,
                                "include graph %s is acyclic and %d files deep (limit %d) but the parser reports %s" %
                                (cid, maxd, limit, msgs), q, size)
                continue
            if o.get("text") != q["reference"]:
                runner.find.add("include:order:%s" % klass,
                                "include graph %s: inlined text differs from depth-first inlining: got %r expected %r" %
                                (cid, o.get("text", "")[:300], q["reference"][:300]), q, size)
                continue
        # internal: exact prediction of the transcription (boundary of the depth rule, which statements stay)
        if c["aloops"]:
            ctx.drift("FeaInclude", "transcription predicts non-termination for %s but the parser returned" % cid)
        elif errs != bool(c["abad"]) or o.get("text") != seq_text(c["aseq"]):
            ctx.drift("FeaInclude", "graph %s: parser result (errors=%s) differs from the transcription of "
                      "validate/generate_recurse (bad edges %s)" % (cid, errs, c["abad"]))
        if c["ref"] != "ok" or c["n"] > 1:
            ctx.ev.nontrivial_add("inc:" + cid)
    return len(cases), n_dec


# ----------------------------------------------------------------------------- main


def replay_one(ctx):
    doc = json.load(open(ctx.replay))
    q = doc["replay"]["request"]
    runner = Runner(ctx)
    if q["op"] == "include" and q.get("case"):
        replay_includes(ctx, runner, [q["case"]], on_disk_every=1 if q.get("dir") else 0)
    else:
        o = runner.run("replay", [q], procs=1)[0]
        common.log("replay result: %s" % json.dumps({k: v for k, v in o.items() if k not in ("text", "diags")})[:1500])
    ctx.ev.rule = "replay of one recorded case"
    ctx.ev.traces = runner.stats["records_validated"]
    ctx.ev.evaluations = runner.stats["parses"]
    runner.find.report(ctx)


def main(ctx):
    common.build_harness()
    ev = ctx.ev
    quick = ctx.quick
    if ctx.replay:
        return replay_one(ctx)
    rng = random.Random(ctx.seed * 7919 + 13)
    runner = Runner(ctx)
    bg = concurrent.futures.ThreadPoolExecutor(6)

    # (D) design level, in the background
    def design_sink():
        r = common.run_tlc(ctx, "FeaParseMC", "FeaParseMC.cfg", workers=2, timeout=900, env=JVM, tag="mc_sink")
        v = common.run_tlc(ctx, "FeaParseMC", "FeaParseMCVac.cfg", workers=2, timeout=900, env=JVM, tag="mc_sink_vac")
        return r, v

    def design_includes():
        out = [include_cases(ctx, "small", 4, 4, 0, "inc_design_l4")]
        out.append(include_cases(ctx, "family", 0, 8, 3, "inc_design_fam8"))
        if not quick:
            out.append(include_cases(ctx, "small", 4, 3, 0, "inc_design_l3"))
            out.append(include_cases(ctx, "small", 4, 2, 0, "inc_design_l2"))
        return out

    def gen_includes():
        small = include_cases(ctx, "small", 4, 50, 0, "inc_small")
        fam = include_cases(ctx, "family", 0, 50, 5, "inc_family")
        return small, fam

    f_sink = bg.submit(design_sink)
    f_inc = bg.submit(gen_includes)
    f_dinc = bg.submit(design_includes)

    # (T) enumerated lexeme strings
    common.log("generating lexeme strings with TLC")
    if quick:
        f_ext = bg.submit(gen_texts, ctx, "ext", 2, 2, 10000, "gen_ext")
        f_rules = bg.submit(gen_texts, ctx, "rules", 0, 0, 1000, "gen_rules")
        main_texts, nmain = gen_texts(ctx, "main", 4, 2, 220, "gen_main")
        ext_texts, next_ = f_ext.result()
        sampled = True
    else:
        f_ext = bg.submit(gen_texts, ctx, "ext", 3, 2, 2000, "gen_ext")
        f_rules = bg.submit(gen_texts, ctx, "rules", 0, 0, 10000, "gen_rules")
        f_m5 = bg.submit(gen_texts, ctx, "main", 5, 0, 150, "gen_main5")
        main_texts, nmain = gen_texts(ctx, "main", 4, 4, 10000, "gen_main")
        ext_texts, next_ = f_ext.result()
        main_texts = main_texts + f_m5.result()[0]
        sampled = False
    rule_texts, _ = f_rules.result()
    texts = list(dict.fromkeys(main_texts + ext_texts + rule_texts))
    common.log("%d distinct texts (%d lexeme classes main, %d extended)" % (len(texts), nmain, next_))
    ev.sample({"kind": "enumerated texts", "examples": [texts[i] for i in sorted(rng.sample(range(len(texts)), 5))]})
    wave = 120000
    for w in range(0, len(texts), wave):
        reqs = []
        for n, t in enumerate(texts[w:w + wave]):
            reqs.append({"op": "parse", "tag": "e%d" % (w + n), "text": t, "glyphs": None})
            reqs.append({"op": "parse", "tag": "e%dg" % (w + n), "text": t, "glyphs": GM_SMALL})
        runner.run("enum", reqs, procs=6)
    n_enum = len(texts)

    # (T) corpus and seeded mutants of it
    files = corpus_files()
    if not files:
        raise common.ToolError("no corpus under %s" % CORPUS)
    small_files = [(n, t) for n, t in files if len(t) <= 6000]
    gm_corpus = corpus_glyphs()
    reqs = []
    for n, t in files:
        reqs.append({"op": "parse", "tag": "c:%s" % n, "text": t, "glyphs": gm_corpus})
        if len(t) <= 20000:
            reqs.append({"op": "parse", "tag": "c:%s:nogm" % n, "text": t, "glyphs": None})
    n_mut = 1200 if quick else 40000
    seen = set()
    for k in range(n_mut):
        name, ops, t = mutate(rng, small_files)
        if t in seen:
            continue
        seen.add(t)
        reqs.append({"op": "parse", "tag": "m%d:%s:%s" % (k, name, "".join(map(str, ops))), "text": t,
                     "glyphs": gm_corpus if k % 4 else None})
    common.log("corpus: %d files, %d distinct mutants" % (len(files), len(seen)))
    for w in range(0, len(reqs), 20000):
        runner.run("corpus", reqs[w:w + 20000], procs=6)
    n_corpus = len(reqs)

    # (R) include graphs
    small, fam = f_inc.result()
    common.log("replaying %d small include graphs and %d around the depth limit" % (len(small), len(fam)))
    n_small, dec_small = replay_includes(ctx, runner, small, on_disk_every=(7 if quick else 1))
    n_fam, dec_fam = replay_includes(ctx, runner, fam, on_disk_every=1)
    ev.sample({"kind": "include graph", "case": fam[0]})

    # (D) results
    r, v = f_sink.result()
    if r.violated:
        raise common.ToolError("FeaParseMC: invariant %s violated: the sink protocol does not imply the property\n%s" %
                               (r.violated, common.tlc_trace_text(r.out, 60)))
    if not r.complete:
        raise common.ToolError("FeaParseMC did not complete: %s" % (r.error or "timeout"))
    if v.violated != "NeverDoneRich":
        raise common.ToolError("FeaParseMC is vacuous: no complete parse reachable (%s)" % (v.error or v.violated))
    design = [c for cs in f_dinc.result() for c in cs]
    disagree = [c for c in design if not c["agree"]]
    if disagree:
        ex = min(disagree, key=lambda c: (c["n"], json.dumps(c["inc"])))
        ctx.drift("FeaInclude", "design level: the transcription of IncludeGraph::validate does not implement the "
                  "reference include-stack machine on %d of %d enumerated graphs (depth limits 2..8), e.g. %s with "
                  "limit %d: reference says %s (deepest stack %d), transcription finds bad edges %s; the replays with "
                  "the real limit decide whether the code has the same problem" %
                  (len(disagree), len(design), case_id(ex), ex["limit"], ex["ref"], ex["maxd"], ex["abad"]))
    bg.shutdown()

    runner.find.report(ctx)

    st = runner.stats
    if (st.get("skipped_after_repeated_timeouts_or_crashes") or st["timeouts_not_retried"]) and not runner.confirmed_bad:
        raise common.ToolError("%d inputs timed out or crashed without being re-run and %d were skipped, but no timeout or "
                               "crash was confirmed: nothing can be concluded" %
                               (st["timeouts_not_retried"], st.get("skipped_after_repeated_timeouts_or_crashes", 0)))
    ev.traces = st["records_validated"]
    ev.evaluations = st["parses"] + st["validated_ok"] + st["validated_errors"]
    ev.rule = ("inputs: TLC-enumerated lexeme strings (FeaParseGen.tla), the fea-rs test corpus and seeded char/byte-level "
               "mutants of it, TLC-enumerated include graphs (FeaInclude.tla); each is parsed by the real parser and its "
               "tree validated by TLC.  A parse is non-trivial if its tree has at least one token or node besides the root; "
               "counted once per distinct (sequence of node/token kinds, glyph map on/off, number of diagnostics, validation "
               "outcome).  An include graph is non-trivial if it has >= 2 files or a cycle; counted once per graph")
    ev.exhaustive = False
    ev.extra["bounds"] = {
        "lexeme_strings": {"main_classes": nmain, "ext_classes": next_, "texts": n_enum, "sampled": sampled,
                           "rule_programs": len(rule_texts),
                           "main_max_len": 4 if quick else 5, "ext_max_len": 2 if quick else 3,
                           "each_with_and_without_glyph_map": True},
        "corpus_and_mutants": n_corpus,
        "include_graphs": {"small_le4_files_le2_includes": n_small, "around_depth_limit": n_fam,
                           "judged_at_property_level": dec_small + dec_fam,
                           "design_level_graphs": len(design), "design_level_disagreements": len(disagree)},
    }
    ev.extra["real_code"] = st
    ev.assumptions = [
        "token text equality is checked through a 30-bit FNV-1a hash per token (plus an exact string comparison in the harness; "
        "a disagreement between the two is a tool error)",
        "a timeout counts only if a second run alone with a %d ms budget also does not finish in the parse or validate phase" % CONFIRM_MS,
        "char boundaries and source lengths of diagnostics are measured with str::is_char_boundary / len on the Source the "
        "diagnostic's FileId resolves to",
        "include files contain only comments and include statements at top level; the depth rule is judged at property level only "
        "for graphs >= 2 files off MAX_INCLUDE_DEPTH in either direction",
    ]
