"""Shared machinery of C03 (outlines at master locations) and C04 (advances / global metrics at master locations).

TLC (spec/Instancing.tla, generator configs) enumerates abstract variable fonts and the expected rounded master
values; this module turns every case into a MiniFont, compiles it with the real compiler (`vh batch`), measures the
font (`vh instancing`), joins expectation and measurement into one observation record per font and lets TLC
(spec/InstancingObs.tla) evaluate the acceptance relation on the records.  Nothing is judged in Python.
"""
import json, os, re, shutil, concurrent.futures, xml.etree.ElementTree as ET
from fractions import Fraction
import common, minifont

AXES = [("wght", "Weight"), ("wdth", "Width"), ("opsz", "Optical")]
SCALE = 1024
TYP = {0: "offcurve", 1: "line", 2: "qcurve", 3: "curve"}
PROPERTY_NOTE = "note-"
DRIFT = "drift-"


def num(v2):
    return v2 // 2 if v2 % 2 == 0 else v2 / 2.0


def case_id(c):
    return "%s-a%d-%s-v%d-s%d" % (c["mode"], c["nax"], ".".join(str(x) for x in c["sidx"]), c["variant"], c["seed"])


# ----------------------------------------------------------------------------- generation


def plan(mode, quick, seed):
    """Per axis count: environment of the generator run (strides per number of non-default masters)."""
    off = (seed * 7919) % 100003
    if quick:
        if mode == "C03":
            return {1: dict(IN_NVAR=4, IN_STRIDE=1),
                    2: dict(IN_NVAR=1, IN_STRIDE1=1, IN_STRIDE2=2, IN_STRIDE3=10, IN_STRIDE4=50),
                    3: dict(IN_NVAR=1, IN_STRIDE1=1, IN_STRIDE2=3, IN_STRIDE3=16, IN_STRIDE4=90)}, off
        return {1: dict(IN_NVAR=8, IN_STRIDE=1),
                2: dict(IN_NVAR=1, IN_STRIDE1=1, IN_STRIDE2=2, IN_STRIDE3=12, IN_STRIDE4=60),
                3: dict(IN_NVAR=1, IN_STRIDE1=1, IN_STRIDE2=4, IN_STRIDE3=20, IN_STRIDE4=110)}, off
    if mode == "C03":
        return {1: dict(IN_NVAR=24, IN_STRIDE=1),
                2: dict(IN_NVAR=1, IN_STRIDE1=1, IN_STRIDE2=1, IN_STRIDE3=3, IN_STRIDE4=9),
                3: dict(IN_NVAR=1, IN_STRIDE1=1, IN_STRIDE2=1, IN_STRIDE3=4, IN_STRIDE4=13)}, off
    return {1: dict(IN_NVAR=32, IN_STRIDE=1),
            2: dict(IN_NVAR=1, IN_STRIDE1=1, IN_STRIDE2=1, IN_STRIDE3=4, IN_STRIDE4=12),
            3: dict(IN_NVAR=1, IN_STRIDE1=1, IN_STRIDE2=1, IN_STRIDE3=5, IN_STRIDE4=18)}, off


def gen_cases(ctx, mode, design=1):
    """Run the three generator configs.  INST_CASE_CACHE=<dir> (mutant loops only) re-uses the generated cases of an
    earlier run with the same mode / tier / seed: the generator does not depend on the code under test."""
    cache = os.environ.get("INST_CASE_CACHE")
    cpath = os.path.join(cache, "%s_%s_%d.json" % (mode, ctx.tier, ctx.seed)) if cache else None
    if cpath and os.path.exists(cpath):
        common.log("cases taken from %s" % cpath)
        return json.load(open(cpath))
    out = _gen_cases(ctx, mode, design)
    if cpath:
        os.makedirs(cache, exist_ok=True)
        json.dump(out, open(cpath, "w"))
    return out


def _gen_cases(ctx, mode, design=1):
    plans, off = plan(mode, ctx.quick, ctx.seed)
    timeout = 2400 if ctx.quick else 9000

    def run(nax):
        env = dict(plans[nax])
        env.update(IN_MODE=mode, IN_SEED=ctx.seed, IN_OFFSET=off, IN_DESIGN=design, IN_GROUPS=8)
        r = common.run_tlc(ctx, "Instancing", "InstancingGen%d.cfg" % nax, workers=2, timeout=timeout, env=env,
                           tag="gen%d" % nax, xmx="3g")
        return nax, r

    out = []
    with concurrent.futures.ThreadPoolExecutor(3) as ex:
        for nax, r in ex.map(run, [1, 2, 3]):
            if r.violated:
                # the design-level invariant failed on the specification itself: a spec/model problem
                raise common.ToolError("design-level check SpecBoundAndEmit violated in InstancingGen%d: %s" % (
                    nax, common.tlc_trace_text(r.out)[:1500]))
            if r.error or r.timed_out or not r.complete:
                raise common.ToolError("generator InstancingGen%d did not complete: %s" % (nax, r.error or "timeout"))
            cases = common.replay_lines(r.out)
            common.log("generator %d axes: %d cases in %.0fs" % (nax, len(cases), r.wall))
            out.extend(cases)
    for c in out:
        c["id"] = case_id(c)
    out.sort(key=lambda c: c["id"])
    return out


# ----------------------------------------------------------------------------- case -> MiniFont


def design_loc(c, p):
    return {AXES[a][1]: 200 + 100 * p[a] for a in range(c["nax"])}


def layer_of(c, g, src):
    L = {"width": num(src["w2"])}
    if c["vert"]:
        L["height"] = num(src["h2"])
    if src["c2"]:
        L["contours"] = [[[num(x), num(y), TYP[t]] for (x, y, t) in cont] for cont in src["c2"]]
    if src["o2"]:
        L["components"] = [{"base": c["glyphs"][b - 1]["name"], "xform": [1, 0, 0, 1, num(o[0]), num(o[1])]}
                           for b, o in zip(g["comps"], src["o2"])]
    return L


def to_minifont(c):
    nax = c["nax"]
    mf = {"family": "Inst", "axes": [{"tag": AXES[a][0], "name": AXES[a][1], "min": 0, "default": 200, "max": 400}
                                      for a in range(nax)]}
    masters = []
    for i, p in enumerate(c["masters"]):
        info = {k: num(v2) for (k, v2) in c["info"][i]}
        masters.append({"name": "M%d" % i, "style": "M%d" % i, "loc": design_loc(c, p), "info": info})
    mf["masters"] = masters
    glyphs = []
    order = []
    ucp = 0x61
    for g in c["glyphs"]:
        layers, sparse = {}, []
        for src in g["srcs"]:
            L = layer_of(c, g, src)
            if src["m"] > 0:
                layers["M%d" % (src["m"] - 1)] = L
            else:
                lname = "L" + "_".join(str(x).replace("-", "m") for x in src["p"])
                sparse.append({"layer": lname, "master": "M0", "loc": design_loc(c, src["p"]), "data": L})
        e = {"name": g["name"], "layers": layers, "sparse": sparse, "unicodes": []}
        if g["name"] != ".notdef" and ucp < 0x7b:
            e["unicodes"] = [ucp]
            ucp += 1
        glyphs.append(e)
        if g["name"] == ".notdef":
            order.insert(0, g["name"])
        else:
            order.append(g["name"])
    mf["glyphs"] = glyphs
    mf["glyph_order"] = order
    return mf


def oracle_minifont(c):
    """Static font holding, for every cubic glyph and every source of it, that source alone (name gc.sK)."""
    glyphs = []
    for g in c["glyphs"]:
        if g["kind"] != "cubic":
            continue
        for k, src in enumerate(g["srcs"]):
            L = layer_of(c, g, src)
            L.pop("height", None)
            glyphs.append({"name": "%s.s%d" % (g["name"], k), "unicodes": [], "layers": {"Regular": L}})
    if not glyphs:
        return None
    return {"family": "Oracle", "axes": [], "masters": [{"name": "Regular", "style": "Regular", "loc": {}}],
            "glyphs": glyphs, "as_ufo": True}


def _materialize(job):
    c, d = job
    src = minifont.materialize(to_minifont(c), d, name="I")
    om = oracle_minifont(c) if c["mode"] == "C03" else None
    osrc = minifont.materialize(om, os.path.join(d, "oracle"), name="O") if om else None
    return src, osrc


def bits(p):
    return [8192 * x for x in p]


def loc_table(c):
    """all grid points of the case (masters, then glyph-specific ones) -> index"""
    idx = {}
    for p in c["masters"]:
        idx.setdefault(tuple(p), len(idx))
    for g in c["glyphs"]:
        for s in g["srcs"]:
            idx.setdefault(tuple(s["p"]), len(idx))
    return idx


def measure_request(c, font, sections):
    idx = loc_table(c)
    locs = [None] * len(idx)
    for p, i in idx.items():
        locs[i] = bits(p)
    gl = {}
    for g in c["glyphs"]:
        gl.setdefault(g["name"], set()).update(idx[tuple(s["p"])] for s in g["srcs"])
    for g in c["glyphs"]:       # a composite needs its bases drawn at its own locations
        for b in g["comps"]:
            gl[c["glyphs"][b - 1]["name"]].update(idx[tuple(s["p"])] for s in g["srcs"])
    return {"tag": c["id"], "font": font, "scale": SCALE, "locs": locs, "glyphs": [g["name"] for g in c["glyphs"]],
            "glyph_locs": {k: sorted(v) for k, v in gl.items()}, "sections": sections}


# ----------------------------------------------------------------------------- observation records


def _iv(v):
    return v if v else []


def obs_outline(c, m, om):
    """C03 record: expectation (from the case) + measurement m (+ om: measurement of the static oracle font)."""
    idx = loc_table(c)
    by = {g["name"]: g for g in m["glyphs"]}
    oby = {g["name"]: g for g in om["glyphs"]} if om else {}
    problems = []
    glyphs = []
    for g in c["glyphs"]:
        o = by[g["name"]]
        kind = g["kind"]
        if kind == "comp" and o["kind"] != "composite":
            problems.append("glyph %s is a composite in the source but %s in glyf" % (g["name"], o["kind"]))
            kind = "skip"
        if kind in ("line", "quad", "cubic") and o["kind"] != "simple":
            problems.append("glyph %s has contours in the source but is %s in glyf" % (g["name"], o["kind"]))
            kind = "skip"
        comps = []
        if kind == "comp":
            oc = o.get("components") or []
            if [x["base"] for x in oc] != [c["glyphs"][b - 1]["name"] for b in g["comps"]] or \
                    any(x["by_point"] or not x["identity"] for x in oc):
                problems.append("glyph %s: components in glyf %s differ from the source's" % (g["name"], oc))
                kind = "skip"
            else:
                comps = [{"base": b, "raw": [x["dx"], x["dy"]]} for b, x in zip(g["comps"], oc)]
        draws, oat = [], {}
        for a in o["at"]:
            oat[a["loc"]] = a
            if "cmds" in a:
                draws.append({"l": a["loc"] + 1, "cmds": a["cmds"]})
            else:
                problems.append("glyph %s cannot be drawn at location %s: %s" % (g["name"], a["loc"], a.get("draw_error")))
        at = []
        for k, (src, e) in enumerate(zip(g["srcs"], g["exp"])):
            li = idx[tuple(src["p"])]
            a = {"l": li + 1, "def": 1 if not any(src["p"]) else 0, "pts": e["pts"], "on": e["on"],
                 "segs": e.get("segs") or [], "oracle": [],
                 "offs": e["offs"], "oobs": (oat.get(li) or {}).get("offsets", [])}
            if kind == "cubic":
                og = oby.get("%s.s%d" % (g["name"], k))
                if og and og["at"] and "cmds" in og["at"][0]:
                    a["oracle"] = og["at"][0]["cmds"]
                else:
                    problems.append("no static oracle drawing for %s source %d" % (g["name"], k))
            at.append(a)
        glyphs.append({"name": g["name"], "kind": kind, "comps": comps,
                       "nondense": sum(1 for t in o.get("tuples", []) if not t["dense"]),
                       "tuples": [t["tents"] for t in o.get("tuples", [])], "pred": g.get("regions") or [],
                       "draws": draws, "at": at})
    rec = {"id": c["id"], "check": "outline", "scale": m["scale"], "locs": m["locs"], "glyphs": glyphs,
           "tol": -(-m["scale"] * m["upem"] // 1000)}       # cubic-to-quadratic tolerance (em/1000), scaled, rounded up
    return rec, problems


def obs_metrics(c, m):
    idx = loc_table(c)
    by = {g["name"]: g for g in m["glyphs"]}
    glyphs = []
    locsets = set()
    for g in c["glyphs"]:
        o = by[g["name"]]
        oat = {a["loc"]: a for a in o["at"]}
        at = []
        if len(g["srcs"]) > 1:
            locsets.add(frozenset(tuple(s["p"]) for s in g["srcs"]))
        for src, e in zip(g["srcs"], g["exp"]):
            li = idx[tuple(src["p"])]
            a = oat.get(li) or {}
            at.append({"l": li + 1, "def": 1 if not any(src["p"]) else 0, "w": e["w"], "h": e["h"],
                       "hadv": _iv(a.get("hadv")), "hsk": _iv(a.get("hadv_skrifa")), "gadv": _iv(a.get("gadv")),
                       "vadv": _iv(a.get("vadv")), "gvadv": _iv(a.get("gvadv"))})
        glyphs.append({"name": g["name"], "kind": g["kind"], "hmtx": o["hmtx"] if o["hmtx"] is not None else -1,
                       "vmtx": o["vmtx"] if o["vmtx"] is not None else -1, "at": at})
    mat = {a["loc"]: a for a in m["mvar"]["at"]}
    metrics = []
    for i, p in enumerate(c["masters"]):
        li = idx[tuple(p)]
        a = mat[li]
        vals = [{"t": t, "m": mv, "own": _iv(a["vals"].get(t)), "sk": _iv(a["skrifa"].get(t))} for (t, mv) in c["mexp"][i]]
        missing = [v["t"] for v in vals if not v["own"]]
        if missing:
            raise common.ToolError("%s: no default table value for metrics %s" % (c["id"], missing))
        metrics.append({"l": li + 1, "def": 1 if i == 0 else 0, "exact": 1, "vals": vals})
    defaults = [{"t": t, "m": mv, "raw": m["defaults"].get(t, -99999)} for (t, mv) in c["dexp"]]
    # the global model (all masters) counts as a model when some glyph uses it
    rec = {"id": c["id"], "check": "metrics", "scale": m["scale"], "locs": m["locs"], "glyphs": glyphs,
           "metrics": metrics, "defaults": defaults, "nmodels": max(1, len(locsets)),
           "indirect": (1 if m["hvar"]["indirect"] else 0) if m["hvar"]["present"] else -1}
    return rec


# ----------------------------------------------------------------------------- TLC on observations


def run_obs(ctx, recs, tag, chunk=250):
    """Evaluate the acceptance relation on the records; returns {id: [fail records]}."""
    verdicts = {}
    chunks = [recs[i:i + chunk] for i in range(0, len(recs), chunk)]

    def run(k):
        path = ctx.path("obs", "%s_%d.ndjson" % (tag, k))
        with open(path, "w") as f:
            for r in chunks[k]:
                f.write(json.dumps(r, separators=(",", ":")) + "\n")
        r = common.run_tlc(ctx, "InstancingObs", "InstancingObs.cfg", workers=2, timeout=2400 if ctx.quick else 9000,
                           env={"OBS": path}, tag="%s_obs%d" % (tag, k), xmx="4g")
        return k, r

    with concurrent.futures.ThreadPoolExecutor(2) as ex:
        for k, r in ex.map(run, range(len(chunks))):
            if r.error or r.timed_out or r.violated or not r.complete:
                raise common.ToolError("InstancingObs did not complete on chunk %d: %s\n%s" % (
                    k, r.error or r.violated or "timeout", common.tlc_trace_text(r.out)[:1500]))
            vs = common.replay_lines(r.out, marker="VERDICT")
            if len(vs) != len(chunks[k]):
                raise common.ToolError("InstancingObs: %d verdicts for %d records" % (len(vs), len(chunks[k])))
            for v in vs:
                verdicts[v["id"]] = v["fails"]
    return verdicts


def bound_text(f):
    d = f.get("d")
    if isinstance(d, dict) and "bnd" in d:
        return " (allowed deviation %.4f units)" % (d["bnd"] / (2.0 * 16384 * SCALE))
    return ""


def report(ctx, pid, rec_id, fails, replay_obj, stats, what_prefix=""):
    """Turn the failures TLC found for one font into VIOLATION / DRIFT / statistics."""
    bad = 0
    for f in fails:
        k = f["k"]
        if k.startswith(DRIFT):
            stats[k] = stats.get(k, 0) + 1
            if stats[k] <= 3:
                ctx.drift("Instancing", "%s %s glyph=%s: %s" % (rec_id, k, f.get("g"), json.dumps(f.get("d"))[:300]))
            continue
        if k.startswith(PROPERTY_NOTE):
            stats[k] = stats.get(k, 0) + 1
            continue
        bad += 1
        sig = "%s:%s:%s:loc%s" % (k, f.get("g") or "-", rec_id, f.get("l"))
        ctx.violation(sig, "%s%s: %s fails for glyph %r at location #%s%s: %s" % (
            what_prefix, rec_id, k, f.get("g"), f.get("l"), bound_text(f), json.dumps(f.get("d"))[:1200]), replay_obj)
    return bad


# ----------------------------------------------------------------------------- the generated-case pipeline


def pipeline(ctx, pid, cases, sections, build_obs, batch=400, keep_failed=True):
    """materialise -> compile -> measure -> observation records.  Returns (records, cases by id, stats)."""
    recs, stats = [], {"compiled": 0, "compile_ms": 0}
    root = ctx.path("fonts", "x")
    root = os.path.dirname(root)
    for b0 in range(0, len(cases), batch):
        part = cases[b0:b0 + batch]
        dirs = [os.path.join(root, c["id"]) for c in part]
        with concurrent.futures.ProcessPoolExecutor(8) as ex:
            srcs = list(ex.map(_materialize, list(zip(part, dirs)), chunksize=8))
        reqs = []
        for c, d, (src, osrc) in zip(part, dirs, srcs):
            reqs.append({"tag": c["id"], "src": src, "out": os.path.join(d, "font.ttf")})
            if osrc:
                reqs.append({"tag": c["id"] + "#oracle", "src": osrc, "out": os.path.join(d, "oracle.ttf")})
        res = {r["tag"]: r for r in common.vh_batch(reqs, procs=8, timeout=3600) if r}
        # a process that was killed from outside (loaded box) is not an outcome of the compiler: once more, alone
        again = [q for q in reqs if (res.get(q["tag"]) or {}).get("outcome") in (None, "crash")]
        for r in common.vh_batch(again, procs=2, timeout=3600):
            if r:
                res[r["tag"]] = r
        mreqs = []
        ok = []
        for c, d, (src, osrc) in zip(part, dirs, srcs):
            r = res.get(c["id"]) or {"outcome": "missing"}
            if r.get("outcome") != "ok":
                ctx.violation("compile-%s:%s:%s" % (r.get("outcome"), re.sub(r"[0-9./_-]+", "#", r.get("message", ""))[:80], c["id"]),
                              "%s: valid generated source does not compile: %s %s" % (c["id"], r.get("outcome"), r.get("message", "")[:600]),
                              {"case": c, "source": src})
                continue
            stats["compiled"] += 1
            stats["compile_ms"] += r.get("wall_ms", 0)
            if osrc:
                ro = res.get(c["id"] + "#oracle") or {"outcome": "missing"}
                if ro.get("outcome") != "ok":
                    ctx.violation("compile-static-%s:%s" % (ro.get("outcome"), c["id"]),
                                  "%s: static build of the cubic masters does not compile: %s" % (c["id"], ro.get("message", "")[:600]),
                                  {"case": c, "source": osrc})
                    continue
                mreqs.append({"tag": c["id"] + "#oracle", "font": os.path.join(d, "oracle.ttf"), "scale": SCALE,
                              "sections": ["outline"]})
            mreqs.append(measure_request(c, os.path.join(d, "font.ttf"), sections))
            ok.append((c, d))
        mres = {r.get("tag"): r for r in common.vh_batch(mreqs, procs=8, timeout=3600, module="instancing") if r}
        again = [q for q in mreqs if not (mres.get(q["tag"]) or {}).get("ok")]
        for r in common.vh_batch(again, procs=2, timeout=3600, module="instancing"):
            if r:
                mres[r.get("tag")] = r
        for c, d in ok:
            m = mres.get(c["id"])
            om = mres.get(c["id"] + "#oracle")
            if not m or not m.get("ok") or (om is not None and not om.get("ok")):
                raise common.ToolError("vh instancing failed on %s: %s" % (c["id"], (m or om or {}).get("error")))
            recs.append(build_obs(c, m, om))
        for d in dirs:      # sources are re-creatable from the case; keep the disk small
            shutil.rmtree(d, ignore_errors=True)
        common.log("%s: %d/%d fonts compiled and measured" % (pid, min(b0 + batch, len(cases)), len(cases)))
    return recs, stats


# ----------------------------------------------------------------------------- repository fixtures


def _f(x):
    return Fraction(str(x))


def parse_designspace(path):
    """axes (name, tag, design min/default/max after the axis map) and full-master sources."""
    root = ET.parse(path).getroot()
    axes = []
    for a in root.find("axes").findall("axis"):
        mn, df, mx = _f(a.get("minimum")), _f(a.get("default")), _f(a.get("maximum"))
        maps = sorted((_f(m.get("input")), _f(m.get("output"))) for m in a.findall("map"))

        def tod(u, maps=maps):
            if not maps:
                return u
            if u <= maps[0][0]:
                return maps[0][1] + (u - maps[0][0]) if len(maps) == 1 else \
                    maps[0][1] + (u - maps[0][0]) * (maps[1][1] - maps[0][1]) / (maps[1][0] - maps[0][0])
            for (u0, d0), (u1, d1) in zip(maps, maps[1:]):
                if u0 <= u <= u1:
                    return d0 + (u - u0) * (d1 - d0) / (u1 - u0)
            (u0, d0), (u1, d1) = maps[-2], maps[-1]
            return d1 + (u - u1) * (d1 - d0) / (u1 - u0)
        axes.append({"name": a.get("name"), "tag": a.get("tag"), "dmin": tod(mn), "ddef": tod(df), "dmax": tod(mx)})
    sources = []
    for s in root.find("sources").findall("source"):
        loc = {}
        for dim in s.find("location").findall("dimension"):
            loc[dim.get("name")] = _f(dim.get("xvalue"))
        sources.append({"filename": s.get("filename"), "layer": s.get("layer"), "loc": loc, "name": s.get("name")})
    return axes, sources


def normalized_bits(axes, loc):
    """normalized location of a design location as F2Dot14 bits (+ whether that is exact)"""
    out, exact = [], True
    for a in axes:
        d = loc.get(a["name"], a["ddef"])
        if d == a["ddef"]:
            n = Fraction(0)
        elif d > a["ddef"]:
            n = (d - a["ddef"]) / (a["dmax"] - a["ddef"]) if a["dmax"] != a["ddef"] else Fraction(0)
        else:
            n = -(a["ddef"] - d) / (a["ddef"] - a["dmin"]) if a["dmin"] != a["ddef"] else Fraction(0)
        n = max(Fraction(-1), min(Fraction(1), n))
        b = n * 16384
        if b.denominator != 1:
            exact = False
        out.append(int(round(b)))
    return out, exact


def fixture_designspaces():
    return [f for f in common.fixtures(exts=(".designspace",))]


def _source_glyphs(ufo):
    import plistlib
    try:
        with open(os.path.join(ufo, "glyphs", "contents.plist"), "rb") as f:
            return set(plistlib.load(f).keys())
    except Exception:
        return set()


def fixtures_check(ctx, pid, check, only=None):
    """Observation mode on the repository's designspace fixtures: every full master UFO is compiled alone as a
    static font (the oracle), the designspace as a variable font; the variable font measured at every master
    location must agree with the static build of that master under the same acceptance relation."""
    ev = ctx.ev
    rels = only or fixture_designspaces()
    out = os.path.dirname(ctx.path("fix", "x"))
    jobs, creqs = [], []
    for rel in rels:
        path = os.path.join(common.TESTDATA, rel)
        try:
            axes, sources = parse_designspace(path)
        except Exception as e:
            common.log("fixture %s: cannot parse (%s), skipped" % (rel, e))
            continue
        masters, seen = [], set()
        for s in sources:
            if s["layer"] or not s["filename"] or s["filename"] in seen:
                continue
            seen.add(s["filename"])
            ufo = os.path.normpath(os.path.join(os.path.dirname(path), s["filename"]))
            b, exact = normalized_bits(axes, s["loc"])
            masters.append({"ufo": ufo, "bits": b, "exact": exact, "glyphs": _source_glyphs(ufo)})
        if not axes or len(masters) < 2 or len({tuple(m["bits"]) for m in masters}) < 2:
            continue
        tag = rel.replace("/", "_").replace(".designspace", "")
        job = {"rel": rel, "tag": tag, "masters": masters, "font": os.path.join(out, tag + ".ttf")}
        creqs.append({"tag": tag, "src": path, "out": job["font"], "no_flags": ["production_names"]})
        for k, m in enumerate(masters):
            m["font"] = os.path.join(out, "%s.m%d.ttf" % (tag, k))
            creqs.append({"tag": "%s#%d" % (tag, k), "src": m["ufo"], "out": m["font"], "no_flags": ["production_names"]})
        jobs.append(job)
    res = {r["tag"]: r for r in common.vh_batch(creqs, procs=6, timeout=3600)}
    # static builds whose features do not compile stand-alone: once more without features (then no metrics)
    retry = []
    for job in jobs:
        for k, m in enumerate(job["masters"]):
            r = res.get("%s#%d" % (job["tag"], k)) or {}
            m["with_features"] = True
            if r.get("outcome") != "ok":
                m["with_features"] = False
                retry.append({"tag": "%s#%d" % (job["tag"], k), "src": m["ufo"], "out": m["font"],
                              "no_flags": ["production_names"], "skip_features": True})
    for r in common.vh_batch(retry, procs=6, timeout=3600):
        res[r["tag"]] = r
    sections = ["outline", "advance", "mvar", "defaults"]
    mreqs, live = [], []
    for job in jobs:
        vr = res.get(job["tag"]) or {}
        statics_ok = all((res.get("%s#%d" % (job["tag"], k)) or {}).get("outcome") == "ok" for k in range(len(job["masters"])))
        if vr.get("outcome") == "panic" or (vr.get("outcome") == "error" and "panicked" in vr.get("message", "")):
            if statics_ok:
                # every master compiles on its own, the variable build of the same masters panics
                ctx.violation("fixture-panic:%s:%s" % (job["rel"], re.sub(r"[0-9]+", "#", vr.get("message", ""))[:80]),
                              "fixture %s: every master compiles as a static font but the variable build panics: %s" % (
                                  job["rel"], vr.get("message", "")[:400]), {"fixture": job["rel"]})
            continue
        if (res.get(job["tag"]) or {}).get("outcome") != "ok":
            common.log("fixture %s does not compile as a variable font (%s): not a subject of this property" % (
                job["rel"], (res.get(job["tag"]) or {}).get("message", "")[:100]))
            continue
        job["masters"] = [m for k, m in enumerate(job["masters"])
                          if (res.get("%s#%d" % (job["tag"], k)) or {}).get("outcome") == "ok"]
        if len(job["masters"]) < 2:
            continue
        mreqs.append({"tag": job["tag"], "font": job["font"], "scale": SCALE, "locs": [m["bits"] for m in job["masters"]],
                      "sections": sections})
        for k, m in enumerate(job["masters"]):
            mreqs.append({"tag": "%s#%d" % (job["tag"], k), "font": m["font"], "scale": SCALE, "sections": sections})
        live.append(job)
    mres = {r.get("tag"): r for r in common.vh_batch(mreqs, procs=6, timeout=3600, module="instancing") if r}
    recs = []
    for job in live:
        v = mres.get(job["tag"])
        st = [mres.get("%s#%d" % (job["tag"], k)) for k in range(len(job["masters"]))]
        if not v or not v.get("ok") or any(not s or not s.get("ok") for s in st):
            raise common.ToolError("vh instancing failed on fixture %s: %s" % (job["rel"], [x.get("error") for x in [v] + st if x]))
        if len(v["axes"]) != len(job["masters"][0]["bits"]):
            common.log("fixture %s: fvar has %d axes, the designspace %d: skipped" % (job["rel"], len(v["axes"]), len(job["masters"][0]["bits"])))
            continue
        recs.append(fixture_record(job, v, st, check))
    verdicts = run_obs(ctx, recs, "fix", chunk=12) if recs else {}
    stats = {}
    for rec in recs:
        report(ctx, pid, rec["id"], verdicts[rec["id"]], {"fixture": rec["id"].split(":", 1)[1]}, stats, "fixture ")
        ev.traces += 1
        ev.nontrivial_add(rec["id"])
        ev.evaluations += 1
        ev.extra["fixture_glyph_location_evaluations"] = ev.extra.get("fixture_glyph_location_evaluations", 0) + \
            sum(len(g["at"]) for g in rec["glyphs"] if g.get("kind") != "skip")
    ev.extra["fixtures_validated"] = [r["id"] for r in recs]
    ev.extra["fixture_notes"] = stats
    if recs:
        ev.sample({"kind": "fixture", "id": recs[0]["id"], "glyphs": len(recs[0]["glyphs"]),
                   "failures": verdicts[recs[0]["id"]]})
    return recs


def fixture_record(job, v, st, check):
    masters = job["masters"]
    sby = [{g["name"]: g for g in s["glyphs"]} for s in st]
    glyphs = []
    names = [g["name"] for g in v["glyphs"]]
    index = {n: i + 1 for i, n in enumerate(names)}
    isdef = [0 if any(m["bits"]) else 1 for m in masters]
    for g in v["glyphs"]:
        n = g["name"]
        oat = {a["loc"]: a for a in g["at"]}
        ks = [k for k in range(len(masters)) if n in masters[k]["glyphs"] and n in sby[k]]
        if check == "outline":
            kind, comps = "skip", []
            if g["kind"] == "simple":
                kind = "static"
            elif g["kind"] == "composite":
                oc = g.get("components") or []
                same = all(sby[k][n]["kind"] == "composite" and
                           [x["base"] for x in sby[k][n].get("components") or []] == [x["base"] for x in oc]
                           for k in ks)
                if same and ks and all(x["identity"] and not x["by_point"] for x in oc):
                    kind = "comp"
                    comps = [{"base": index[x["base"]], "raw": [x["dx"], x["dy"]]} for x in oc]
            at = []
            for k in ks:
                sg = sby[k][n]
                a = oat.get(k) or {}
                sa = sg["at"][0] if sg["at"] else {}
                e = {"l": k + 1, "def": isdef[k], "pts": [], "on": [], "segs": [], "oracle": sa.get("cmds", []),
                     "offs": [[x["dx"], x["dy"]] for x in sg.get("components") or []] if kind == "comp" else [],
                     "oobs": a.get("offsets", []) if kind == "comp" else []}
                if kind == "static" and "cmds" not in sa:
                    continue
                at.append(e)
            draws = [{"l": a["loc"] + 1, "cmds": a["cmds"]} for a in g["at"] if "cmds" in a]
            if 1 not in isdef or not any(isdef[k] for k in ks):
                kind = "skip" if kind == "comp" else kind
            glyphs.append({"name": n, "kind": kind if at else "skip", "comps": comps,
                           "tuples": [t["tents"] for t in g.get("tuples", [])], "pred": [], "draws": draws, "at": at})
        else:
            at = []
            has_v = g["vmtx"] is not None
            for k in ks:
                sg = sby[k][n]
                a = oat.get(k) or {}
                at.append({"l": k + 1, "def": isdef[k], "w": sg["hmtx"] if sg["hmtx"] is not None else 0,
                           "h": sg["vmtx"] if (has_v and sg["vmtx"] is not None) else -1,
                           "hadv": _iv(a.get("hadv")), "hsk": _iv(a.get("hadv_skrifa")), "gadv": _iv(a.get("gadv")),
                           "vadv": _iv(a.get("vadv")), "gvadv": _iv(a.get("gvadv"))})
            glyphs.append({"name": n, "kind": g["kind"], "hmtx": g["hmtx"] if g["hmtx"] is not None else -1,
                           "vmtx": g["vmtx"] if g["vmtx"] is not None else -1, "at": at})
    rec = {"id": "fixture:" + job["rel"], "check": "outline" if check == "outline" else "metrics", "scale": v["scale"],
           "locs": v["locs"], "glyphs": glyphs, "tol": -(-v["scale"] * v["upem"] // 1000)}
    if check != "outline":
        mat = {a["loc"]: a for a in v["mvar"]["at"]}
        metrics, defaults = [], []
        for k, m in enumerate(masters):
            if not m["with_features"]:
                continue        # FEA table overrides are part of the master's metrics; without them no oracle
            sd = st[k]["defaults"]
            a = mat[k]
            vals = [{"t": t, "m": sd[t], "own": a["vals"][t], "sk": _iv(a["skrifa"].get(t))}
                    for t in sorted(sd) if t in a["vals"]]
            metrics.append({"l": k + 1, "def": isdef[k], "exact": 1 if m["exact"] else 0, "vals": vals})
            if isdef[k]:
                defaults = [{"t": t, "m": sd[t], "raw": v["defaults"].get(t, -99999)} for t in sorted(sd)]
        rec.update(metrics=metrics, defaults=defaults, nmodels=1,
                   indirect=(1 if v["hvar"]["indirect"] else 0) if v["hvar"]["present"] else -1)
    return rec
