"""C18 Names referenced from other tables exist and say what the source says.

Decided by spec/Names.tla:
 (M) TLC checks the property on the spec's model font for every enumerated naming configuration: every name id
     referenced by fvar / STAT / layout feature parameters has a non-empty record, ids < 256 only where OpenType
     allows, the record is the source's string, ids for axis/instance strings are dense from 256 with one id per
     distinct string, feature-code names come after them, legacy subfamily is RIBBI, typographic names are
     dropped only together.
 (R) every enumerated case (quick: a seeded stratified sample; thorough: all but a sample of the largest slice) is
     materialised as UFO(s) + designspace (checks/minifont.py), compiled by the real compiler in FOUR separate OS
     processes (`vh names`; different HashMap seeds) and the name / fvar / STAT / GSUB+GPOS feature-parameter
     projections (read-fonts, harness/src/names.rs) are compared with the spec's expected observation and with
     each other.

PROPERTY-LEVEL (violation): a referenced id missing or empty in `name`; an id < 256 used where not allowed (fvar
axis name; instance subfamily other than 2/17 or not at the default; postscript name other than 6/0xFFFF; feature
parameters); a referenced string that is not the source's label / instance name / feature-code string; a
family/style/version/unique-id/full/postscript name differing from the fallback rule inside the region where the
rule is documented (Names.tla DocIds); projections differing between processes (or between two compiles in one
process) for the same source; error/panic/crash on a valid case.
INTERNAL (drift): which id >= 256 a string received; the fallback result outside the documented region (explicit
empty strings, everything missing); the unreferenced `table name` record; a static font carrying fvar.
"""
import json, os, re, hashlib, shutil, threading, time, concurrent.futures
import common, minifont

WIN = (3, 1, 0x409)
NAME_IDS = (1, 2, 3, 4, 5, 6, 16, 17)
QUICK_BUDGET = {"fallback": 180, "tail": 50, "inst": 160, "inst3": 50, "axesfea": 130, "cvparams": 90}
THOROUGH_BUDGET = {"fallback": 4500, "tail": None, "inst": 3500, "inst3": None, "axesfea": None, "cvparams": 1500}
FIELDS = (("fam", "familyName"), ("sty", "styleName"), ("smf", "styleMapFamilyName"), ("sms", "styleMapStyleName"),
          ("pf", "openTypeNamePreferredFamilyName"), ("psub", "openTypeNamePreferredSubfamilyName"),
          ("uid", "openTypeNameUniqueID"), ("ver", "openTypeNameVersion"), ("psn", "postscriptFontName"),
          ("psfull", "postscriptFullName"))


# ----------------------------------------------------------------------------- case -> source


def case_id(x):
    key = {k: x[k] for k in ("src", "mode", "axes", "insts", "fea")}
    return hashlib.sha1(json.dumps(key, sort_keys=True).encode()).hexdigest()[:12]


def fea_text(x):
    f = x["fea"]
    out = []
    if f["stat"] != "none":
        out.append("table STAT {")
        if f["stat"] == "rec":
            out.append('    ElidedFallbackName { name "%s"; };' % f["elided"])
        else:
            out.append("    ElidedFallbackNameID 2;")
        for k, a in enumerate(f["statAxes"]):
            out.append('    DesignAxis %s %d { name "%s"; };' % (a["tag"], k, a["name"]))
        for a in f["statAxes"]:
            for v in a["values"]:
                out.append('    AxisValue { location %s %d; name "%s";%s };' % (
                    a["tag"], v["value"], v["name"], " flag ElidableAxisValueName;" if v["elidable"] else ""))
        out.append("} STAT;")
    recs = []
    if f["name2"] != "~":
        recs.append('    nameid 2 "%s";' % f["name2"])
    if f["name9"] != "~":
        recs.append('    nameid 9 "%s";' % f["name9"])
    if recs:
        out += ["table name {"] + recs + ["} name;"]
    if f["size"] != "~":
        out.append('feature size { parameters 10.0 3 80 139; sizemenuname "%s"; } size;' % f["size"])
    for ss in f["sss"]:
        out.append('feature %s { featureNames { name "%s"; }; sub a by b; } %s;' % (ss["tag"], ss["name"], ss["tag"]))
    for cv in f["cvs"]:
        out.append("feature %s { cvParameters {" % cv["tag"])
        if cv["label"] != "~":
            out.append('    FeatUILabelNameID { name "%s"; };' % cv["label"])
        if cv["tip"] != "~":
            out.append('    FeatUITooltipTextNameID { name "%s"; };' % cv["tip"])
        if cv["sample"] != "~":
            out.append('    SampleTextNameID { name "%s"; };' % cv["sample"])
        for lab in cv["params"]:
            out.append('    ParamUILabelNameID { name "%s"; };' % lab)
        out.append("    Character 0x61;")
        out.append("}; sub a by b; } %s;" % cv["tag"])
    return ("\n".join(out) + "\n") if out else None


AXIS_RANGE = {"wght": (400, 400, 700), "wdth": (100, 100, 125)}


def minifont_of(x):
    src = x["src"]
    info = {}
    for k, key in FIELDS:
        info[key] = None if src[k] == "~" else src[k]
    info["versionMajor"] = None if src["vmaj"] < 0 else src["vmaj"]
    info["versionMinor"] = None if src["vmin"] < 0 else src["vmin"]
    mode = x["mode"]
    if mode == "ufo":
        mf = minifont.template_static()
        mf["as_ufo"] = True
        mf["masters"][0]["info"] = info
    elif mode == "point":
        mf = minifont.template_static()
        a = x["axes"][0]
        mf["axes"] = [{"tag": a["tag"], "name": a["name"], "min": 400, "default": 400, "max": 400}]
        mf["masters"][0]["loc"] = {a["name"]: 400}
        mf["masters"][0]["info"] = info
        mf["instances"] = [dict({"stylename": i["name"], "loc": {a["name"]: 400}},
                                **({"postscriptfontname": i["ps"]} if i["ps"] != "~" else {})) for i in x["insts"]]
    else:
        axes = x["axes"]
        mf = {"family": "Mini", "axes": [], "masters": [], "glyphs": []}
        dflt = {}
        for a in axes:
            lo, d, hi = AXIS_RANGE[a["tag"]]
            ax = {"tag": a["tag"], "name": a["name"], "min": lo, "default": d, "max": hi}
            if a["label"] != "~":
                ax["labelnames"] = [["fr", "Libelle " + a["tag"]], ["en", a["label"]]]
            mf["axes"].append(ax)
            dflt[a["name"]] = d
        mf["masters"].append({"name": "Regular", "style": "Regular", "loc": dict(dflt), "info": info})
        for a in axes:
            loc = dict(dflt)
            loc[a["name"]] = AXIS_RANGE[a["tag"]][2]
            mf["masters"].append({"name": "M" + a["tag"], "style": "M" + a["tag"], "loc": loc, "info": info})
        for gi, n in enumerate(("a", "b")):
            layers = {"Regular": minifont.simple_layer(500 + 10 * gi)}
            for k, a in enumerate(axes):
                layers["M" + a["tag"]] = minifont.simple_layer(600 + 10 * gi + 40 * k, 40, 0, 560 + 40 * k, 700)
            mf["glyphs"].append({"name": n, "unicodes": [ord(n)], "layers": layers})
        insts = []
        for i in x["insts"]:
            loc = dict(dflt)
            if i["loc"] == 1:
                loc[axes[0]["name"]] = AXIS_RANGE[axes[0]["tag"]][2]
            elif i["loc"] == 2:
                if len(axes) > 1:
                    loc[axes[1]["name"]] = AXIS_RANGE[axes[1]["tag"]][2]
                else:
                    loc[axes[0]["name"]] = 550
            d = {"stylename": i["name"], "loc": loc}
            if i["ps"] != "~":
                d["postscriptfontname"] = i["ps"]
            insts.append(d)
        mf["instances"] = insts
    fea = fea_text(x)
    if fea:
        mf["features"] = fea
    return mf


# ----------------------------------------------------------------------------- sampling


def stratum(x):
    n = x["names"]
    f = x["fea"]
    feak = "%s%s%s%s%s" % (f["stat"], "S%d" % len(f["sss"]), "C%d" % len(f["cvs"]), "Z" if f["size"] != "~" else "",
                           "N" if f["name9"] != "~" else "")
    axk = ",".join("%s/%s/%s" % (a["tag"], a["name"], a["label"] != "~") for a in x["axes"])
    s = x["src"]
    pres = "".join("A" if s[k] == "~" else ("E" if s[k] == "" else "P") for k, _ in FIELDS)
    if x["slice"] == "fallback":
        return (x["slice"], pres[:6], s["sty"], s["sms"])
    if x["slice"] == "cvparams":
        labels = [l for cv in f["cvs"] for l in cv["params"]]
        return (x["slice"], x["mode"], len(f["cvs"]), len(f["sss"]), f["cvs"][0]["label"], len(labels) - len(set(labels)),
                tuple(len(cv["params"]) for cv in f["cvs"]))
    if x["slice"] == "tail":
        return (x["slice"], pres[6:], s["fam"], s["vmaj"] < 0, s["vmin"])
    return (x["slice"], x["mode"], feak, axk, x["sens"], tuple(x["shadow"]), x["anyPs"], len(x["insts"]),
            n["n16"] != "", tuple((i["loc"] == 0) for i in x["insts"]))


def sample(cases, budget, rng):
    """Round-robin over strata so that rare behaviours are always represented."""
    if budget is None or len(cases) <= budget:
        return list(cases)
    groups = {}
    for x in cases:
        groups.setdefault(stratum(x), []).append(x)
    keys = sorted(groups, key=repr)
    for k in keys:
        rng.shuffle(groups[k])
    rng.shuffle(keys)
    out = []
    while len(out) < budget:
        progressed = False
        for k in keys:
            if groups[k]:
                out.append(groups[k].pop())
                progressed = True
                if len(out) >= budget:
                    break
        if not progressed:
            break
    return out


# ----------------------------------------------------------------------------- judging


def win_string(recs):
    """(string, all non-empty?) of the records carrying one name id."""
    if not recs:
        return None, False
    ok = all(r["string"] != "" and r.get("readable", True) for r in recs)
    for r in recs:
        if (r["platform"], r["encoding"], r["language"]) == WIN:
            return r["string"], ok
    return recs[0]["string"], ok


def pres_pattern(x):
    s = x["src"]
    return ",".join("%s=%s" % (k, "A" if s[k] == "~" else ("E" if s[k] == "" else "P")) for k, _ in FIELDS)


def fea_kind(x):
    f = x["fea"]
    parts = []
    if f["stat"] != "none":
        parts.append("stat-" + f["stat"])
    if f["size"] != "~":
        parts.append("size")
    parts += [ss["tag"] for ss in f["sss"]]
    parts += [cv["tag"] for cv in f["cvs"]]
    if f["name9"] != "~":
        parts.append("name9")
    return "+".join(parts) or "none"


class Judge:
    def __init__(self, ctx, version):
        self.ctx = ctx
        self.version = version
        self.by_sig = {}
        self.drifts = {}
        self.n_checks = 0
        self.n_refs = 0
        self.n_names = 0
        self.n_compiles = 0
        self.n_cases = 0

    def drift(self, kind, what):
        self.drifts[kind] = self.drifts.get(kind, 0) + 1
        if self.drifts[kind] <= 2:
            self.ctx.drift("Names", "%s: %s" % (kind, what))

    def violation(self, sig, what, x, obs=None):
        """One report per signature (the signature is derived from the input class, not from the case)."""
        n = self.by_sig.get(sig, 0)
        self.by_sig[sig] = n + 1
        if n == 0:
            self.ctx.violation(sig, what, {"case": x, "observed": obs,
                                           "source": "materialise with checks/c18.py minifont_of(case); "
                                                     "bin/check C18 --replay <this file>"})

    # -- which reserved ids hold this string in the expected name table
    def held_by(self, x, s):
        return sorted(int(i) for i, v in table_of(x).items() if int(i) < 256 and strip_stamp(v, int(i)) == s)

    def judge(self, x, results):
        self.n_cases += 1
        cid = x["id"]
        ok = [r for r in results if r is not None and r.get("outcome") == "ok"]
        self.n_compiles += sum((r or {}).get("rounds", 1) for r in results)
        bad = [r for r in results if r is None or r.get("outcome") != "ok"]
        for r in bad[:1]:
            if r is None:
                raise common.ToolError("no result for case %s" % cid)
            if r.get("outcome") == "unreadable":
                raise common.ToolError("font of case %s cannot be projected: %s" % (cid, r.get("message")))
            msg = (r.get("message") or "")
            cls = classify_message(msg)
            self.violation("compile-%s:%s:mode=%s:fea=%s" % (r.get("outcome"), cls, x["mode"], fea_kind(x)),
                           "valid naming configuration does not compile (%s): %s" % (r.get("outcome"), msg[:300]), x, r)
        if not ok:
            return
        # ---- function of the source: every process (and every in-process round) gives the same projection
        projs = []
        for r in ok:
            for p in [r["proj"]] + list(r.get("others") or []):
                if all(p != q for q in projs):
                    projs.append(p)
        self.n_checks += 1
        if len(projs) > 1 or len(bad) not in (0, len(results)):
            secs = sorted(k for k in ("name", "fvar", "stat", "feature_params")
                          if any(p.get(k) != projs[0].get(k) for p in projs[1:]))
            cls = ("default-instance-name-held-by-2or17-and-by-%s" % "+".join(str(i) for i in x["shadow"])) if x["sens"] \
                else "unpredicted"
            detail = "; ".join("%s: %s" % (k, " | ".join(sorted({json.dumps(summ(p, k), sort_keys=True) for p in projs})))
                               for k in secs)
            self.violation("nondeterministic:%s:%s" % (cls, "+".join(secs) or "outcome"),
                           "same source, %d different results in %d compiles (pids %s): %s" % (
                               len(projs), len(results), [r.get("pid") for r in results], detail[:1500]), x,
                           {"projections": projs})
        for p in projs:
            self.judge_proj(x, p)

    def judge_proj(self, x, p):
        names = {}
        for r in p["name"]:
            names.setdefault(r["id"], []).append(r)
        exp_table = table_of(x)
        # ---- (a) fallback chain
        for i in NAME_IDS:
            exp = exp_table.get(str(i), "")
            got, _ = win_string(names.get(i))
            got = got or ""
            self.n_names += 1
            if got != exp:
                what = "name id %d: expected %r by the fallback rule, font has %r (source fields %s)" % (
                    i, exp, got, {k: v for k, v in x["src"].items() if v != "~"})
                if i in x["doc"]:
                    self.violation("fallback:name%d:%s" % (i, pres_pattern(x)), what, x, summ(p, "name"))
                else:
                    self.drift("fallback-undocumented", what)
        # ---- (b) references
        fv = p.get("fvar")
        st = p.get("stat")
        fps = {(f["table"], f["tag"]): f for f in p.get("feature_params") or []}
        for ref in x["refs"]:
            self.n_refs += 1
            k, i, s = ref["k"], ref["i"], ref["s"]
            oid, missing = None, None
            if k == "fvar.axis.axisNameID":
                if not fv or len(fv["axes"]) < i:
                    missing = "fvar axis %d" % i
                else:
                    oid = fv["axes"][i - 1]["name_id"]
            elif k.startswith("fvar.instance."):
                if not fv or len(fv["instances"]) != len(x["insts"]):
                    missing = "fvar with %d instances (font has %s)" % (
                        len(x["insts"]), len(fv["instances"]) if fv else "no fvar")
                elif k == "fvar.instance.subfamilyNameID":
                    oid = fv["instances"][i - 1]["subfamily_name_id"]
                else:
                    oid = fv["instances"][i - 1]["post_script_name_id"]
                    oid = 65535 if oid is None else oid
            elif k == "STAT.axis.nameID":
                if not st or len(st["axes"]) < i:
                    missing = "STAT design axis %d" % i
                else:
                    oid = st["axes"][i - 1]["name_id"]
            elif k == "STAT.value.nameID":
                if not st or len(st["values"]) < i or "name_id" not in st["values"][i - 1]:
                    missing = "STAT axis value %d" % i
                else:
                    oid = st["values"][i - 1]["name_id"]
            elif k == "STAT.elidedFallbackNameID":
                if not st or st.get("elided_fallback_name_id") is None:
                    missing = "STAT elidedFallbackNameID"
                else:
                    oid = st["elided_fallback_name_id"]
            elif k.startswith("GSUB.") and k.endswith(".uiNameID"):
                tag = k.split(".")[1]
                f = fps.get(("GSUB", tag))
                if not f or f.get("kind") != "ss":
                    missing = "GSUB %s feature parameters" % tag
                else:
                    oid = f["ui_name_id"]
            elif k.startswith("GSUB.cv"):
                tag, field = k.split(".")[1:3]
                f = fps.get(("GSUB", tag))
                if not f or f.get("kind") != "cv":
                    missing = "GSUB %s feature parameters" % tag
                elif field == "featUiLabelNameID":
                    oid = f["feat_ui_label_name_id"]
                elif field == "featUiTooltipTextNameID":
                    oid = f["feat_ui_tooltip_text_name_id"]
                elif field == "sampleTextNameID":
                    oid = f["sample_text_name_id"]
                elif f["num_named_parameters"] < i:
                    missing = "%s named parameter %d" % (tag, i)
                else:
                    # OpenType: the labels of the N named parameters are the N consecutive ids from the first one
                    oid = f["first_param_ui_label_name_id"] + i - 1
            elif k == "GPOS.size.nameEntry":
                f = fps.get(("GPOS", "size"))
                if not f or f.get("kind") != "size":
                    missing = "GPOS size feature parameters"
                else:
                    oid = f["name_entry"]
            else:
                raise common.ToolError("unknown reference kind %s" % k)
            where = "%s[%d]" % (k, i) if i else k
            cls = self.input_class(x, ref)
            if missing is not None:
                self.violation("missing:%s:%s" % (k, cls), "the source asks for %s naming %r, the font has none" % (missing, s),
                               x, {"fvar": fv, "stat": st, "feature_params": p.get("feature_params")})
                continue
            if s == "~":
                if oid != 65535:
                    self.violation("string:%s:%s" % (k, cls), "%s = %d although the instance has no postscript name" % (where, oid),
                                   x, summ(p, "fvar"))
                continue
            if k == "fvar.instance.postScriptNameID" and oid == 65535:
                self.violation("missing:%s:%s" % (k, cls), "%s: the source's postscript name %r is not referenced" % (where, s),
                               x, summ(p, "fvar"))
                continue
            got, nonempty = win_string(names.get(oid))
            if got is None or not nonempty:
                self.violation("dangling:%s:%s" % (k, cls),
                               "%s = %d has %s in the name table (source string %r)" % (
                                   where, oid, "no record" if got is None else "an empty record", s), x,
                               {"name": summ(p, "name"), "ref": ref})
                continue
            if oid < 256 and oid not in ref["lo"]:
                self.violation("reserved-id:%s:%s:id=%d" % (k, cls, oid),
                               "%s = %d (%r): ids below 256 allowed here: %s" % (where, oid, got, ref["lo"] or "none"), x,
                               {"name": summ(p, "name"), "fvar": fv, "stat": st, "ref": ref})
                continue
            if got != s:
                self.violation("string:%s:%s" % (k, cls),
                               "%s = %d which says %r, the source says %r" % (where, oid, got, s), x,
                               {"name": summ(p, "name"), "ref": ref, "fvar": fv, "stat": st,
                                "feature_params": p.get("feature_params")})
                continue
            if oid != ref["id"]:
                self.drift("id-choice", "%s: string %r got id %d, the allocation model says %d (case %s)" % (
                    where, s, oid, ref["id"], x["id"]))
        # ---- internal: the rest of the name table, fvar on static fonts
        for i, v in exp_table.items():
            i = int(i)
            if i in NAME_IDS:
                continue
            got, _ = win_string(names.get(i))
            if got != v:
                self.drift("name-table", "name id %d: model %r, font %r (case %s)" % (i, v, got, x["id"]))
        extra = sorted(i for i in names if str(i) not in exp_table)
        if extra:
            self.drift("name-table", "records the model does not have: %s (case %s)" % (
                [(i, win_string(names[i])[0]) for i in extra], x["id"]))
        if not x["variable"] and fv:
            self.drift("static-fvar", "static source but the font has fvar (case %s)" % x["id"])

    def input_class(self, x, ref):
        """Input-derived class of a reference, for signatures: how its string relates to other strings of the source."""
        s = ref["s"]
        parts = ["mode=" + x["mode"]]
        if ref["k"].startswith("fvar.instance"):
            inst = x["insts"][ref["i"] - 1]
            parts.append("at-default" if inst["loc"] == 0 else "off-default")
        if s != "~":
            held = self.held_by(x, s)
            if held:
                parts.append("string==name" + "+".join(str(h) for h in held))
        if ref["k"].split(".")[0] in ("GSUB", "GPOS") or (ref["k"].startswith("STAT") and x["fea"]["stat"] != "none"):
            parts.append("fea=" + fea_kind(x))
        return ":".join(parts)


def strip_stamp(v, i):
    if i == 5 and ";fontc " in v:
        return v[:v.index(";fontc ")]
    return v


def table_of(x):
    """The model's name table {id (as string): string}.  (ToJson prints a function whose domain happens to be
    1..n as an array.)"""
    t = x["table"]
    if isinstance(t, list):
        return {str(i + 1): v for i, v in enumerate(t)}
    return t


def classify_message(msg):
    m = msg.lower()
    for key, cls in (("elidedfallbacknameid", "ElidedFallbackNameID-does-not-exist"), ("panicked", "panic"),
                     ("overflow", "overflow"), ("fea", "fea-error")):
        if key in m:
            return cls
    return "other"


def summ(p, k):
    v = p.get(k)
    if k == "name":
        return [[r["id"], r["platform"], r["language"], r["string"]] for r in v or []]
    return v


# ----------------------------------------------------------------------------- running


def prepare_block(ctx, block, bi, rounds):
    """Materialise the sources of a block; returns (directory, requests)."""
    d = os.path.dirname(ctx.path("src", "b%03d" % bi, "x"))
    reqs = []
    for x in block:
        src = minifont.materialize(minifont_of(x), os.path.join(d, x["id"]))
        reqs.append({"tag": x["id"], "src": src, "threads": 1, "rounds": rounds})
    return d, reqs


def compile_block(judge, block, d, reqs, procs):
    """Compile every source of the block in four separate OS processes and judge the projections."""
    out = [None] * 4
    errs = []

    def one(k):
        try:
            out[k] = common.vh_batch(reqs, procs=procs, timeout=3000, module="names")
        except Exception as e:  # noqa: BLE001
            errs.append(e)

    # four independent passes over the whole block, each in its own set of OS processes
    ts = [threading.Thread(target=one, args=(k,)) for k in range(4)]
    for t in ts:
        t.start()
    for t in ts:
        t.join()
    if errs:
        raise common.ToolError("vh names failed: %s" % errs[0])
    for n, x in enumerate(block):
        rs = [out[k][n] for k in range(4)]
        with_pid = [r.get("pid") for r in rs if r and r.get("pid")]
        if len(set(with_pid)) < len(with_pid):
            raise common.ToolError("case %s was not compiled in four different processes: %s" % (x["id"], with_pid))
        judge.judge(x, rs)
    shutil.rmtree(d, ignore_errors=True)


def run_blocks(ctx, judge, chosen, block_size, procs, rounds, progress=True):
    """Pipeline: the next block is materialised while the current one compiles."""
    blocks = [chosen[i:i + block_size] for i in range(0, len(chosen), block_size)]
    t0 = time.time()
    done = 0
    with concurrent.futures.ThreadPoolExecutor(1) as ex:
        fut = ex.submit(prepare_block, ctx, blocks[0], 0, rounds) if blocks else None
        for bi, block in enumerate(blocks):
            d, reqs = fut.result()
            fut = ex.submit(prepare_block, ctx, blocks[bi + 1], bi + 1, rounds) if bi + 1 < len(blocks) else None
            compile_block(judge, block, d, reqs, procs)
            done += len(block)
            if progress:
                common.log("replayed %d/%d cases (%.0fs)" % (done, len(chosen), time.time() - t0))


PLAIN_NAMES = {"n1": "Mini", "n2": "Regular", "n3": "1.000;NONE;Mini-Regular", "n4": "Mini Regular",
               "n5": "Version 1.000", "n6": "Mini-Regular", "n16": "", "n17": ""}


def behaviour(x):
    """The expected observation of a case without the ids: name strings + what every reference must say."""
    return json.dumps([x["names"], sorted(x["doc"]), [[r["k"], r["i"], r["s"], r["lo"]] for r in x["refs"]]],
                      sort_keys=True)


def nontrivial(x):
    """Non-trivial: the expected observation differs from the plain template's (family Mini, style Regular, no
    optional naming field, no instances, no feature code: names as PLAIN_NAMES and at most the axis-name references)."""
    plain_refs = all(r["k"] in ("fvar.axis.axisNameID", "STAT.axis.nameID") or
                     (r["k"] == "STAT.elidedFallbackNameID" and r["id"] == 2) for r in x["refs"])
    return x["names"] != PLAIN_NAMES or not plain_refs


_REPLAY = re.compile(r'<<"REPLAY", "((?:[^"\\]|\\.)*)">>')
_INIT = re.compile(r"Finished computing initial states: (\d+) distinct state")


def extract_cases(res):
    """All REPLAY payloads of a TLC run.  Several workers print concurrently and two lines may end up on one, so
    the whole output is scanned (not line by line) and the number of payloads is checked against the number of
    next-state transitions TLC reports (one per case)."""
    cases = []
    for m in _REPLAY.finditer(res.out):
        raw = m.group(1)
        try:
            cases.append(json.loads(json.loads('"%s"' % raw)))
        except Exception as e:  # noqa: BLE001
            raise common.ToolError("cannot parse a REPLAY payload (%s): %s" % (e, raw[:200]))
    m = _INIT.search(res.out)
    if not m or not cases:
        raise common.ToolError("TLC emitted no cases")
    expected = res.generated - int(m.group(1))
    if len(cases) != expected:
        raise common.ToolError("TLC made %d transitions but %d REPLAY payloads were recovered" % (expected, len(cases)))
    return cases


def main(ctx):
    common.build_harness()
    r = common.vh(["names", "--version"])
    if r.returncode != 0 or not r.stdout.strip():
        raise common.ToolError("vh names --version failed: %s" % r.stderr[-300:])
    version = r.stdout.strip()
    judge = Judge(ctx, version)
    ev = ctx.ev
    ev.rule = ("distinct expected observations (name strings 1-6/16/17 + the string and the allowed reserved ids of every "
               "fvar/STAT/feature-parameter reference) among the replayed cases that differ from the plain template's "
               "(family Mini, style Regular, no optional naming field, no instances, no feature code)")
    ev.assumptions = [
        "strings are ASCII words separated by single spaces; RIBBI style names in title case; Windows/English records only",
        "sources are UFO3 + designspace 4.1 written by checks/minifont.py; Glyphs sources are not generated here",
        "read-fonts parses name/fvar/STAT/GSUB/GPOS of the compiled font faithfully (trusted)",
        "the fallback rule is property-level only inside Names.tla DocIds (no explicit empty naming field; family and "
        "style given by at least one field); elsewhere a mismatch is reported as drift",
    ]

    if ctx.replay:
        doc = json.load(open(ctx.replay))
        x = doc["replay"]["case"] if "replay" in doc else doc["case"]
        x.setdefault("id", case_id(x))
        run_blocks(ctx, judge, [x], 1, 1, 2, progress=False)
        finish(ctx, judge, 1, 1)
        return

    cfg = "NamesQuick.cfg" if ctx.quick else "NamesThorough.cfg"
    res = common.run_tlc(ctx, "Names", cfg, workers=4, timeout=600 if ctx.quick else 1500, xmx="4g",
                         env={"FONTC_VERSION": version})
    if res.violated:
        # the model itself breaks the property: a modelling error, not evidence about the code
        raise common.ToolError("Names.tla violates its own invariant %s:\n%s" % (
            res.violated, common.tlc_trace_text(res.out, 60)))
    if res.error or res.timed_out or not res.complete:
        raise common.ToolError("TLC did not finish on %s: %s" % (cfg, res.error or ("timeout" if res.timed_out else "?")))
    cases = extract_cases(res)
    seen = {}
    for x in cases:
        x["id"] = case_id(x)
    for x in sorted(cases, key=lambda x: (x["id"], x["slice"])):   # TLC's output order depends on its workers
        seen.setdefault(x["id"], x)       # different tokens / slices may resolve to the same source
    cases = sorted(seen.values(), key=lambda x: x["id"])
    by_slice = {}
    for x in cases:
        by_slice.setdefault(x["slice"], []).append(x)
    budget = QUICK_BUDGET if ctx.quick else THOROUGH_BUDGET
    chosen = []
    for sl in sorted(by_slice):
        chosen += sample(by_slice[sl], budget.get(sl), ctx.rng)
    common.log("TLC: %d cases (%s); replaying %d" % (
        len(cases), ", ".join("%s %d" % (k, len(v)) for k, v in sorted(by_slice.items())), len(chosen)))
    ev.exhaustive = len(chosen) == len(cases)
    ev.extra["cases_enumerated"] = {k: len(v) for k, v in by_slice.items()}
    ev.extra["cases_replayed"] = {}
    for x in chosen:
        ev.extra["cases_replayed"][x["slice"]] = ev.extra["cases_replayed"].get(x["slice"], 0) + 1
        if nontrivial(x):
            ev.nontrivial_add(hashlib.sha1(behaviour(x).encode()).hexdigest())
    for x in chosen[:3]:
        ev.sample({"case": {k: x[k] for k in ("src", "mode", "axes", "insts")}, "expected_names": x["names"],
                   "refs": [[r["k"], r["i"], r["s"]] for r in x["refs"]]})
    run_blocks(ctx, judge, chosen, 240 if ctx.quick else 600, 3, 1)
    finish(ctx, judge, len(cases), len(chosen))


def finish(ctx, judge, n_enum, n_replayed):
    ev = ctx.ev
    ev.traces = judge.n_compiles
    ev.evaluations = judge.n_refs + judge.n_names + judge.n_checks
    ev.extra["fonts_compiled"] = judge.n_compiles
    ev.extra["cases_compared"] = judge.n_cases
    ev.extra["reference_checks"] = judge.n_refs
    ev.extra["fallback_name_checks"] = judge.n_names
    ev.extra["determinism_checks"] = judge.n_checks
    ev.extra["drift_counts"] = dict(judge.drifts)
    ev.extra["violation_signatures"] = dict(judge.by_sig)
    common.log("C18: %d cases, %d compiles, %d reference checks, %d name checks; drift %s; violation signatures %s" % (
        judge.n_cases, judge.n_compiles, judge.n_refs, judge.n_names, dict(judge.drifts), dict(judge.by_sig)))
