"""C14 Writing intermediate state to disk is transparent and faithful.

Decided by
 * spec/Persist.tla — transcription of the file-name encoding with TLC checking Decode(Encode(s)) = s for every
   enumerated name; every enumerated name is replayed into the real `string_to_filename` / path functions
   (`vh persist`) and the real names are checked for collisions (exact and ASCII-case-insensitive), kerning
   instance file names likewise for locations on a fine grid;
 * spec/Workload.tla / WorkloadTrace.tla — persisted builds are recorded and validated as behaviours of the
   scheduler spec; on top of the trace: every persisted write reads back equal (guarded hook), nothing is
   served from disk in a build that starts with an empty or a STALE build directory, the number of files
   equals the number of distinct persisted items (no two items share a file);
 * byte equality of fonts built with and without IR emission (fresh dir, stale dir from another source).
"""
import json, os, shutil, itertools
import common, graphs, sched, minifont

SUBST = {"{e}": "é", "{E}": "É", "{H}": "漢"}
DEVICE = ["con", "CON", "Con", "prn", "aux", "nul", "NUL", "com1", "COM1", "lpt1", "LPT3", "clock$", "com5", "lpt",
          "con.x", "a.con"]


def real_names(reqs):
    r = common.vh(["persist"], input="\n".join(json.dumps(q) for q in reqs) + "\n", timeout=600)
    if r.returncode != 0:
        raise common.ToolError("vh persist failed: %s" % r.stderr[-300:])
    return [json.loads(l) for l in r.stdout.splitlines() if l.startswith("{")]


def tricky_font():
    """A variable MiniFont whose glyph names stress the file naming: case variants, reserved characters,
    device names, non-ASCII; and three kerning masters."""
    names = ["a", "A", "aa", "aA", "Aa", "AA", "con", "CON", "a*b", "a^1", "a%2A", ".x", "é", "É", "nul.alt"]
    mf = minifont.template_wght(tuple(names))
    for i, g in enumerate(mf["glyphs"]):
        g["unicodes"] = [0xE000 + i]
    mf["masters"][0]["kerning"] = {"a": {"A": -20}}
    mf["masters"][1]["kerning"] = {"a": {"A": -40}}
    return mf


def close_kerning_font(d1, d2):
    """Masters at design 400 (default), 400+d1, 400+d2, 1000: the two middle ones are close in normalized space."""
    mf = minifont.template_wght(("a", "b"))
    mf["axes"][0].update(min=400, default=400, max=1000)
    mf["masters"][1]["loc"] = {"Weight": 1000}
    for k, d in enumerate((d1, d2)):
        n = "M%d" % k
        mf["masters"].append({"name": n, "style": n, "loc": {"Weight": 400 + d}})
        for g in mf["glyphs"]:
            g["layers"][n] = dict(g["layers"]["Regular"])
    vals = [-10, -50, -20, -30]
    for m, v in zip(mf["masters"], vals):
        m["kerning"] = {"a": {"b": v}}
    return mf


def main(ctx):
    common.build_harness(need=["vh-persist"])
    ev = ctx.ev
    quick = ctx.quick

    # ---------------------------------------------------------------- file names
    common.log("TLC: Persist.tla name enumeration")
    r = common.run_tlc(ctx, "Persist", "PersistQuick.cfg" if quick else "PersistThorough.cfg", workers=4,
                       timeout=600 if quick else 3000, xmx="6g")
    if r.violated:
        raise common.ToolError("Persist.tla: design-level invariant %s violated (spec bug?)\n%s" % (
            r.violated, common.tlc_trace_text(r.out)[:1500]))
    if r.error or not r.complete:
        raise common.ToolError("Persist.tla failed: %s" % (r.error or "incomplete"))
    cases = common.replay_lines(r.out)

    def sub(s):
        for k, v in SUBST.items():
            s = s.replace(k, v)
        return s

    names = ["".join(sub(p) for p in c["name"]) for c in cases]
    expect = ["".join(sub(p) for p in c["file"]) for c in cases]
    names += DEVICE
    expect += [None] * len(DEVICE)
    real = real_names([{"name": n} for n in names])
    if len(real) != len(names):
        raise common.ToolError("vh persist returned %d results for %d names" % (len(real), len(names)))
    ev.traces += len(real)
    ev.evaluations += len(real)
    by_exact, by_fold = {}, {}
    for n, e, o in zip(names, expect, real):
        if o.get("outcome") == "panic":
            ctx.violation("filename-panic:%r" % n, "string_to_filename panics on %r: %s" % (n, o.get("message")),
                          dict(name=n))
            continue
        f = o["file"]
        if e is not None and f != e:
            ctx.drift("Persist", "string_to_filename(%r) = %r, spec transcription says %r" % (n, f, e))
        if e is not None and f != n:
            ev.nontrivial_add(f)
        for kind, key, table in (("exact", f, by_exact), ("ascii-case-insensitive",
                                                            "".join(ch.lower() if ch.isascii() else ch for ch in f), by_fold)):
            if key in table and table[key] != n:
                ctx.violation("filename-collision:%s:%r:%r" % (kind, table[key], n),
                              "distinct names %r and %r are written to the same file (%s comparison): %r" %
                              (table[key], n, kind, f), dict(names=[table[key], n], file=f, comparison=kind))
            table.setdefault(key, n)
        # the four per-glyph files must be distinct from each other
        fs = [o["glyph_ir"], o["anchor_ir"], o["glyf"], o["gvar"]]
        if len(set(fs)) != 4:
            ctx.violation("filename-kinds:%r" % n, "item kinds of glyph %r share a file: %s" % (n, fs), dict(name=n))
    ev.sample({"kind": "name", "name": names[7], "spec_file": expect[7], "real_file": real[7]["file"]})
    ev.exhaustive = True

    # kerning instance files: every pair of distinct locations on a fine grid must get distinct files
    grid = [i / 1000.0 for i in range(0, 1001, 1 if not quick else 2)]
    kreal = real_names([{"kern": [["wght", v]]} for v in grid] +
                       [{"kern": [["wght", a], ["wdth", b]]} for a, b in itertools.product([0.0, 0.004, 0.5, 1.0], repeat=2)])
    seen = {}
    ev.evaluations += len(kreal)
    kcoll = 0
    for o in kreal:
        key = o["kern_file"]
        loc = json.dumps(o["kern"])
        if key in seen and seen[key] != loc:
            kcoll += 1
            if kcoll <= 3:
                ctx.violation("kern-file-collision:names", "kerning locations %s and %s are written to the same file %s" %
                              (seen[key], loc, key), dict(locations=[seen[key], loc], file=key))
            else:
                ctx.violation("kern-file-collision:names", "", {})
        seen.setdefault(key, loc)
    ev.extra["kern_name_collisions"] = kcoll

    # ---------------------------------------------------------------- builds
    srcs = []
    for rel, flags in (sched.QUICK_SOURCES if quick else sched.QUICK_SOURCES + [
            (f, []) for f in common.fixtures() if f not in [s for s, _ in sched.QUICK_SOURCES]][:120]):
        srcs.append((rel, sched.source_path(rel), flags))
    d = ctx.path("mini", "tricky", "x")[:-2]
    srcs.append(("minifont:tricky-names", minifont.materialize(tricky_font(), d), []))
    for (d1, d2) in ((1, 2), (2, 3)) if quick else ((1, 2), (2, 3), (1, 3), (10, 12), (100, 102)):
        d = ctx.path("mini", "kern_%d_%d" % (d1, d2), "x")[:-2]
        srcs.append(("minifont:close-kerning:%d:%d" % (d1, d2), minifont.materialize(close_kerning_font(d1, d2), d), []))

    reqs, meta = [], []
    stale_donor = None
    for i, (rel, path, flags) in enumerate(srcs):
        base = ctx.path("b", str(i), "x")[:-2]
        sk = "skip_features" in flags
        flags = [f for f in flags if f != "skip_features"]
        mem = dict(tag="mem%d" % i, src=path, out=os.path.join(base, "mem.ttf"), flags=flags, skip_features=sk)
        ir = dict(tag="ir%d" % i, src=path, out=os.path.join(base, "ir.ttf"), flags=flags, skip_features=sk,
                  ir_dir=os.path.join(base, "ir"), readback=True, trace=os.path.join(base, "ir.ndjson"))
        reqs += [mem, ir]
        meta.append((rel, path, flags, base))
    common.log("building %d sources with and without IR emission" % len(srcs))
    res = common.vh_batch(reqs, procs=6)
    stale_reqs, stale_meta = [], []
    for i, (rel, path, flags, base) in enumerate(meta):
        rm, ri = res[2 * i], res[2 * i + 1]
        ev.evaluations += 1
        if rm.get("outcome") != "ok":
            continue  # not a compilable source
        if ri.get("outcome") != "ok":
            ctx.violation("emit-ir-fails:%s:%s" % (rel, ri.get("message", "")[:60]),
                          "%s builds in memory but fails with IR emission: %s %s" % (rel, ri.get("outcome"), ri.get("message")),
                          dict(source=rel, result=ri))
            continue
        if rm["hash"] != ri["hash"] or rm["len"] != ri["len"]:
            ctx.violation("emit-ir-bytes:%s" % rel, "%s: font differs with IR emission on (%s vs %s)" %
                          (rel, rm["hash"], ri["hash"]), dict(source=rel, mem=rm, ir=ri))
        g = sched.load_graph(dict(trace=os.path.join(base, "ir.ndjson")))
        # read-back of every persisted write
        for job, item, how, outcome in g.readbacks:
            ok = outcome in ("equal", "equal-bytes") or (how == "bytes" and outcome == "differ" and not item.startswith("Be(GlyfFragment("))
            if not ok:
                ctx.violation("readback:%s:%s:%s" % (item.split("(")[1].rstrip(")") if "(" in item else item, outcome.split(":")[0], rel),
                              "%s: item %s written by %s reads back %s (%s comparison)" % (rel, item, job, outcome, how),
                              dict(source=rel, item=item, job=job, how=how, outcome=outcome))
        ev.extra["readbacks"] = ev.extra.get("readbacks", 0) + len(g.readbacks)
        # nothing served from disk
        for job, item in g.disk_reads:
            ctx.violation("disk-read:%s:%s" % (rel, item), "%s: job %s was served %s from disk in a fresh build" %
                          (rel, job, item), dict(source=rel, job=job, item=item))
        # files vs persisted items
        persisted = set()
        for e in g.evs:
            if e["ev"] == "Write" and e.get("persisted"):
                persisted.add(e["item"] if e["item"].startswith(("Fe(", "Be(")) else "Fe(%s)" % e["item"])
        files = []
        for root, _d, fs in os.walk(os.path.join(base, "ir")):
            files += [os.path.join(root, f) for f in fs]
        if len(files) < len(persisted):
            kern = [p for p in persisted if "KernInstance" in p]
            kfiles = [f for f in files if os.path.basename(f).startswith("kern_") and "fragment" not in f
                      and "locations" not in f and f.endswith(".yml")]
            sig = "kern-file-collision:build" if len(kfiles) < len(kern) else "file-collision:%s" % rel
            ctx.violation(sig, "%s: %d distinct items were persisted into %d files (kerning instances: %d items, %d files)" %
                          (rel, len(persisted), len(files), len(kern), len(kfiles)),
                          dict(source=rel, items=sorted(persisted)[:80], files=sorted(os.path.relpath(f, base) for f in files)[:80]))
        ev.nontrivial_add("%s:%d items" % (rel, len(persisted)))
        ev.traces += 1
        # stale directory: reuse the IR dir of a *different* source
        if stale_donor is not None and stale_donor[0] != rel:
            sdir = os.path.join(base, "stale")
            shutil.copytree(stale_donor[1], sdir)
            stale_reqs.append(dict(tag="stale%d" % i, src=path, out=os.path.join(base, "stale.ttf"), flags=flags,
                                   skip_features=reqs[2 * i].get("skip_features", False),
                                   ir_dir=sdir, trace=os.path.join(base, "stale.ndjson")))
            stale_meta.append((rel, rm, base))
        if rel.startswith("glyphs3/WghtVar.glyphs") or stale_donor is None:
            stale_donor = (rel, os.path.join(base, "ir"))
    common.log("rebuilding %d sources into stale build directories" % len(stale_reqs))
    for (rel, rm, base), rs in zip(stale_meta, common.vh_batch(stale_reqs, procs=6)):
        ev.evaluations += 1
        if rs.get("outcome") != "ok":
            ctx.violation("stale-dir-fails:%s" % rel, "%s fails when the build directory holds another source's files: %s" %
                          (rel, rs.get("message")), dict(source=rel, result=rs))
            continue
        if rs["hash"] != rm["hash"]:
            ctx.violation("stale-dir-bytes:%s" % rel, "%s: font differs when the build directory holds another source's files" % rel,
                          dict(source=rel, mem=rm, stale=rs))
        g = sched.load_graph(dict(trace=os.path.join(base, "stale.ndjson")))
        for job, item in g.disk_reads:
            ctx.violation("disk-read-stale:%s:%s" % (rel, item), "%s: job %s was served %s from a stale file" % (rel, job, item),
                          dict(source=rel, job=job, item=item))
        ev.traces += 1

    # persisted builds are behaviours of the scheduler spec too
    vjobs = []
    for i, (rel, path, flags, base) in enumerate(meta[: (6 if quick else 40)]):
        tr = os.path.join(base, "ir.ndjson")
        if res[2 * i + 1].get("outcome") != "ok" or not os.path.exists(tr):
            continue
        g = sched.load_graph(dict(trace=tr))
        gj, _ = graphs.build(g)
        gp, tp = os.path.join(base, "graph.json"), os.path.join(base, "sched.ndjson")
        json.dump(gj, open(gp, "w"))
        graphs.write_ndjson(tp, graphs.scheduler_trace(g, gj))
        vjobs.append((dict(source=rel), gp, tp))
    for label, status, r in sched.validate_traces(ctx, vjobs, timeout=400):
        if status == "accepted":
            ev.traces += 1
        elif status == "tool-error":
            raise common.ToolError("trace validation: %s" % (r.error or "timeout"))
        else:
            ctx.drift("WorkloadTrace", "persisted build of %s: %s" % (label["source"], status))
    ev.sample({"kind": "build pair", "source": meta[0][0], "mem": res[0], "ir": res[1]})
    ev.rule = ("names: every name of length <= %d over an 11-symbol alphabet of character classes + device names, "
               "non-trivial = distinct encoded names that differ from the input; builds: (source) pairs with/without "
               "IR emission, plus a stale build directory; non-trivial = distinct (source, persisted item count)" %
               (4 if quick else 5))
    ev.assumptions = ["non-ASCII case folding (é/É on case-insensitive file systems) is outside the encoding's stated purpose "
                      "(ASCII case code) and is not checked",
                      "BE GvarFragment read-back compares re-serialised bytes, which is only meaningful for deterministic "
                      "serialisations; a byte difference there is ignored"]
