"""C10 Mark attachment in the font places marks on the source's anchors.

Decided by spec/Marks.tla:
 (M) for every enumerated source (six glyphs a, e, f_i, acutecomb, dotbelowcomb, aacute = a + acutecomb; anchor
     names from {top, bottom, _top, _bottom, top_1, top_2, bottom_1, entry, exit, caret_1, _3}; 1-2 masters with
     .5 coordinates; categories given / inferred; anchor propagation on / off) TLC checks on the spec's
     transcription of the compiler (anchor name parse, propagation into the composite, GDEF categories, mark
     groups, one lookup per group, mkmk filter sets, GDEF class inference) and of OpenType mark lookup semantics
     that every (attaching glyph [ligature component], mark) pair the source defines is attached with both
     anchors at the rounded source coordinates at every master, and that source marks are GDEF class 3;
 (R) every enumerated source + the spec's expectation is replayed into the real compiler: MiniFont ->
     UFO(s)/designspace -> `vh marks` (library compile, propagate_anchors on/off) -> the harness's own
     GPOS/GDEF evaluator (raw tables, MarkBasePos/MarkLigPos/MarkMarkPos, anchor formats 1-3 + VariationIndex in
     the GDEF ItemVariationStore at every master's normalized location, lookup flags / filter sets / GDEF classes);
 (O) repository UFO fixtures with anchors are compiled and every anchor of every attachment the font contains
     is compared with the rounded value read from the .glif files at every master (observation, no spec oracle
     for the pairing; see docs/C10.md).

PROPERTY-LEVEL (violation): a pair the source defines is not attached (no lookup, or the lookup cannot fire
because of GDEF classes / lookup flags / filter set); an anchor differs from the rounded source coordinate at a
master; a source mark is not GDEF class 3; compile error / panic on a valid source.
INTERNAL (drift): lookup list (types, groups, members, component counts, filter sets, feature), full GDEF class
map, attachments beyond the source's pairs, the AnchorKind parse table, the GlyphData categories assumed.
"""
import json, os, shutil, time, concurrent.futures, glob, re
import xml.etree.ElementTree as ET
import common, minifont

UNICODES = {"a": [0x61], "e": [0x65], "f_i": [], "acutecomb": [0x301], "dotbelowcomb": [0x323], "aacute": [0xE1]}
MASTER_NAMES = ["Regular", "Bold"]
MASTER_DESIGN = [400, 700]
PROC = 8


# ----------------------------------------------------------------------------- case -> MiniFont


def half(h):
    """half units -> font units (int when whole)"""
    return h // 2 if h % 2 == 0 else h / 2


def minifont_of(case):
    nm = case["nm"]
    masters = [{"name": MASTER_NAMES[m], "style": MASTER_NAMES[m],
                "loc": ({"Weight": MASTER_DESIGN[m]} if nm == 2 else {})} for m in range(nm)]
    mf = {"family": "Marks", "masters": masters, "glyphs": [], "default_master": case["dflt"] - 1}
    if nm == 2:
        mf["axes"] = [{"tag": "wght", "name": "Weight", "min": 400, "default": MASTER_DESIGN[case["dflt"] - 1],
                       "max": 700}]
    else:
        mf["axes"] = []
        mf["as_ufo"] = True           # a designspace without axes is not accepted; compile the lone UFO
    cats = {}
    for g in case["glyphs"]:
        layers = {}
        for m in range(nm):
            layer = {"width": 0 if g["name"].endswith("comb") else 500 + 20 * m,
                     "anchors": [{"name": a["n"], "x": half(a["hx"][m]), "y": half(a["hy"][m])} for a in g["anchors"]]}
            if g["comps"]:
                layer["components"] = [{"base": c["base"], "xform": [1, 0, 0, 1, half(c["hx"][m]), half(c["hy"][m])]}
                                       for c in g["comps"]]
            else:
                layer["contours"] = [minifont.square(50, 0, 300 + 10 * m, 400)]
            layers[MASTER_NAMES[m]] = layer
        mf["glyphs"].append({"name": g["name"], "unicodes": UNICODES[g["name"]], "layers": layers})
        if case["cats_given"] and g["cat"] not in ("", "none"):
            cats[g["name"]] = g["cat"]
    if cats:
        mf["categories"] = cats
    return mf


def case_key(case):
    return json.dumps(case["id"], sort_keys=True, separators=(",", ":"))


def describe(case):
    if "glyphs" not in case:
        return json.dumps(case)
    gl = "; ".join("%s[%s]%s" % (g["name"], ",".join(a["n"] for a in g["anchors"]),
                                ("=" + g["cat"]) if case["cats_given"] else "") for g in case["glyphs"])
    return "mode=%s masters=%d default=%d pattern=%d: %s" % (case["mode"], case["nm"], case["dflt"], case["pat"], gl)


def glyph_sig(case, name):
    for g in case["glyphs"]:
        if g["name"] == name:
            return "%s[%s]%s" % (name, ",".join(a["n"] for a in g["anchors"]),
                                 ("=" + g["cat"]) if case["cats_given"] else "")
    return name


def materialize_one(args):
    case, d = args
    return minifont.materialize(minifont_of(case), d, name="Marks")


def _overwrite(path, data):
    """Replace the content of a file without unlinking or truncating to zero first (on this box deleting and
    re-allocating thousands of small files is what dominates the run time when the machine is busy)."""
    if isinstance(data, str):
        data = data.encode("utf-8")
    fd = os.open(path, os.O_WRONLY | os.O_CREAT, 0o644)
    try:
        os.write(fd, data)
        os.ftruncate(fd, len(data))
    finally:
        os.close(fd)


class Slot:
    """A directory that holds one materialised case at a time.  The first case is written by
    minifont.materialize; later cases rewrite in place exactly the files that depend on the case (the .glif files
    and lib.plist of every master, the .designspace) with the same minifont functions."""

    def __init__(self, d):
        self.d = d
        self.nm = 0          # masters present in the directory

    def put(self, case):
        import plistlib
        mf = minifont_of(case)
        nm = case["nm"]
        if self.nm < nm:
            # (re)create everything; only happens while the slot has fewer masters than the case needs
            both = dict(mf)
            src = minifont.materialize(both, self.d, name="Marks")
            self.nm = max(self.nm, nm)
            return src
        dm = mf.get("default_master", 0)
        ufo_names = []
        for mi, m in enumerate(mf["masters"]):
            un = "Marks-%s.ufo" % m["name"]
            ufo_names.append(un)
            ufo = os.path.join(self.d, un)
            lib = {}
            if mi == dm and mf.get("categories"):
                lib["public.openTypeCategories"] = dict(mf["categories"])
            _overwrite(os.path.join(ufo, "lib.plist"), plistlib.dumps(lib, sort_keys=True))
            for gi, g in enumerate(mf["glyphs"]):
                _overwrite(os.path.join(ufo, "glyphs", "g%04d.glif" % gi),
                           minifont.glif(g["name"], g.get("unicodes"), g["layers"][m["name"]]))
        if nm == 1:
            return os.path.join(self.d, ufo_names[0])
        ds = os.path.join(self.d, "Marks.designspace")
        _overwrite(ds, minifont.designspace_xml(mf, ufo_names))
        return ds


def same_tree(a, b):
    """do two materialised sources hold the same files with the same bytes (ignoring stale extra masters in a)"""
    for root, dirs, files in os.walk(b):
        rel = os.path.relpath(root, b)
        for f in files:
            pa, pb = os.path.join(a, rel, f), os.path.join(root, f)
            if not os.path.exists(pa) or open(pa, "rb").read() != open(pb, "rb").read():
                return "%s differs" % os.path.join(rel, f)
    return None


# ----------------------------------------------------------------------------- comparison


class Judge:
    def __init__(self, ctx):
        self.ctx = ctx
        self.n_cases = 0
        self.n_pairs = 0
        self.n_coord = 0
        self.n_gdef = 0
        self.n_viol = 0
        self.kinds = {}
        self.drifts = {}
        self.by_mode = {}
        self.lookup_types_seen = {}
        self.formats_seen = {}

    def drift(self, kind, what):
        self.drifts[kind] = self.drifts.get(kind, 0) + 1
        if self.drifts[kind] <= 2:
            self.ctx.drift("Marks", "%s: %s" % (kind, what))

    def violation(self, kind, sig, case, res, what):
        self.n_viol += 1
        self.kinds[kind] = self.kinds.get(kind, 0) + 1
        if self.n_viol > 40:
            return
        self.ctx.violation("%s:%s" % (kind, sig), "%s\n  source: %s" % (what, describe(case)),
                           {"case": case, "result": res})

    @staticmethod
    def same(obs, exp):
        """observed [[x,y] per location] (floats / None) vs expected [[x,y] per master] (ints)"""
        if len(obs) != len(exp):
            return False
        for o, e in zip(obs, exp):
            for k in (0, 1):
                if o[k] is None or abs(o[k] - e[k]) > 1e-6:
                    return False
        return True

    def judge(self, case, res):
        self.n_cases += 1
        self.by_mode[case["mode"]] = self.by_mode.get(case["mode"], 0) + 1
        exp = case["expect"]
        outcome = res.get("outcome")
        if outcome != "ok":
            self.violation("compile-%s" % outcome, "%s:%s" % (case["mode"], (res.get("message") or "")[:60]), case, res,
                           "compiling a valid source ends with %s: %s" % (outcome, (res.get("message") or "")[:400]))
            return
        if "eval" not in res:
            raise common.ToolError("vh marks could not evaluate the font of case %s: %s" %
                                   (case_key(case), res.get("eval_error")))
        ev = res["eval"]
        for note in ev.get("notes", []):
            self.drift("evaluator-note", "%s (%s)" % (note, describe(case)))
        # ---- property: every pair the source defines is attached at the rounded source coordinates
        main_feats = ("DFLT/dflt:mark", "DFLT/dflt:mkmk")
        by_pair = {}
        for a in ev["attachments"]:
            by_pair.setdefault((a["g"], a["comp"], a["m"]), []).append(a)
            self.formats_seen[str(a["formats"])] = self.formats_seen.get(str(a["formats"]), 0) + 1
        matched = set()
        for p in exp["pairs"]:
            self.n_pairs += 1
            where = "%s anchor %s%s <- %s anchor _%s" % (p["g"], p["n"], ("_%d" % p["comp"]) if p["comp"] else "",
                                                        p["m"], p["n"])
            sig = "%s:%s:%s:%s:%d" % (case["mode"], glyph_sig(case, p["g"]), glyph_sig(case, p["m"]), p["n"], p["comp"])
            cands = by_pair.get((p["g"], p["comp"], p["m"]), [])
            in_feature = [a for a in cands if any(v in main_feats for v in a["via"])]
            if not in_feature:
                self.violation("missing-attachment", sig, case, res,
                               "no lookup of the mark/mkmk features attaches %s (%s)" %
                               (where, "lookups outside those features: %s" % [a["via"] for a in cands] if cands
                                else "the pair is in no mark lookup at all"))
                continue
            # anchors first: which candidate carries this anchor name's coordinates?
            good = [a for a in in_feature if self.same(a["base"], p["base"]) and self.same(a["mark"], p["mark"])]
            self.n_coord += 4 * case["nm"]
            if not good:
                a = in_feature[0]
                self.violation("wrong-anchor", sig, case, res,
                               "%s: the font attaches with glyph anchor %s / mark anchor %s per master, the rounded "
                               "source anchors are %s / %s (masters at normalized %s)" %
                               (where, [x["base"] for x in in_feature], [x["mark"] for x in in_feature], p["base"],
                                p["mark"], case["nloc"]))
                continue
            eff = [a for a in good if a["effective"]]
            if not eff:
                self.violation("attachment-cannot-fire", sig, case, res,
                               "%s: lookup %d has the right anchors but can never apply: %s" %
                               (where, good[0]["lookup"], "; ".join(good[0]["why_not"])))
                continue
            for a in eff:
                matched.add((a["lookup"], a["sub"], a["g"], a["comp"], a["m"]))
            a = eff[0]
            want_type = "lig" if p["comp"] else None
            if want_type and a["type"] != want_type:
                self.drift("lookup-type", "%s attached by a %s lookup" % (where, a["type"]))
        # ---- property: source marks are GDEF marks
        for m in exp["marks"]:
            self.n_gdef += 1
            cls = ev["gdef_classes"].get(m, 0)
            if cls != 3:
                self.violation("mark-not-gdef-mark", "%s:%s:class%d" % (case["mode"], glyph_sig(case, m), cls), case, res,
                               "the source classifies %s as a mark, its GDEF glyph class in the font is %d" % (m, cls))
        # ---- internal: everything else the spec models
        names = [g["name"] for g in case["glyphs"]]
        want_gdef = {n: c for n, c in zip(names, exp["gdef"]) if c}
        got_gdef = {n: c for n, c in ev["gdef_classes"].items() if n in names}
        if want_gdef != got_gdef:
            self.drift("gdef-classes", "spec %s, font %s (%s)" % (want_gdef, got_gdef, describe(case)))
        got_lookups = []
        for l in ev["lookups"]:
            if not any(v in main_feats for v in l["via"]):
                continue
            for st in l["subtables"]:
                marks = sorted(m for _, ms in st["mark_classes"] for m in ms)
                if l["type"] == "lig":
                    bases = sorted((t["g"], tuple(i + 1 for i, c in enumerate(t["anchored"]) if c), t["components"])
                                   for t in st["targets"])
                else:
                    bases = sorted((t["g"], (), 0) for t in st["targets"])
                feat = "mkmk" if any(v.endswith(":mkmk") for v in l["via"]) else "mark"
                got_lookups.append((l["type"], feat, marks, bases, sorted(l["filter"]) if l["filter"] is not None else None,
                                    len(st["mark_classes"])))
                self.lookup_types_seen[l["type"]] = self.lookup_types_seen.get(l["type"], 0) + 1
        want_lookups = []
        for l in exp["lookups"]:
            bases = sorted((b["g"], tuple(sorted(b["comps"])), b["ncomp"]) for b in l["bases"])
            want_lookups.append((l["type"], "mkmk" if l["type"] == "mark" else "mark", sorted(l["marks"]), bases,
                                 sorted(l["filter"]) if l["filtered"] else None, 1))
        if want_lookups != got_lookups:
            self.drift("lookups", "spec %s, font %s (%s)" % (want_lookups, got_lookups, describe(case)))
        spec_extra = {(x["g"], x["comp"], x["m"]) for x in exp["extra"]}
        exp_keys = {(p["g"], p["comp"], p["m"]) for p in exp["pairs"]}
        for a in ev["attachments"]:
            key = (a["g"], a["comp"], a["m"])
            if a["effective"] and any(v in main_feats for v in a["via"]) and key not in exp_keys and key not in spec_extra:
                self.drift("extra-attachment", "the font attaches %s to %s (component %d) through lookup %d; the source "
                           "defines no such pair (%s)" % (a["m"], a["g"], a["comp"], a["lookup"], describe(case)))
        if exp["pairs"]:
            self.ctx.ev.nontrivial_add(case_key(case))


# ----------------------------------------------------------------------------- TLC


def generate(ctx, cfg, tag, simulate=None, timeout=600, workers=4):
    # C10_TIMEOUT_SCALE: only stretches the TLC time limits on a slow / oversubscribed machine
    timeout = int(timeout * float(os.environ.get("C10_TIMEOUT_SCALE", "1")))
    r = common.run_tlc(ctx, "Marks", cfg, workers=workers, timeout=timeout, simulate=simulate,
                       depth=20 if simulate else None, tag=tag, xmx="3g")
    if r.timed_out:
        raise common.ToolError("TLC timed out on %s" % cfg)
    if r.violated:
        # the design-level invariant fails on the SPEC: the transcription (or the property definition) is wrong
        raise common.ToolError("TLC: invariant %s of Marks.tla violated on the spec itself (%s):\n%s" %
                               (r.violated, cfg, common.tlc_trace_text(r.out, 80)))
    if r.error:
        raise common.ToolError("TLC failed on %s: %s" % (cfg, r.error))
    for f in glob.glob(os.path.join(common.SPEC, "Marks_TTrace_*")):
        os.remove(f)
    cases = common.replay_lines(r.out)
    if simulate is None and not r.complete:
        raise common.ToolError("TLC did not complete %s" % cfg)
    return r, cases


def check_parse_table(ctx, judge):
    r, recs = generate(ctx, "MarksParse.cfg", "parse", timeout=300, workers=1)
    if len(recs) != 1:
        raise common.ToolError("MarksParse.cfg printed %d records" % len(recs))
    table = recs[0]["parse"]
    names = sorted(table)
    out = common.vh_batch([{"tag": "parse", "parse": names},
                           {"tag": "glyphdata", "glyphdata": list(UNICODES)}], procs=1, module="marks")
    got = {x["name"]: x for x in out[0]["parse"]}
    n = 0
    for name in names:
        w, g = table[name], got[name]
        n += 1
        if g["outcome"] == "panic":
            judge.drift("anchor-kind", "AnchorKind::new(%r) panics: %s" % (name, g.get("message")))
        elif w["k"] == "error":
            if g["outcome"] != "error" or g["message"] != w["err"]:
                judge.drift("anchor-kind", "%r: spec error %s, code %s" % (name, w["err"], g))
        elif g["outcome"] != "ok" or (g["kind"], g["group"], g["index"]) != (w["k"], w["group"], w["index"]):
            judge.drift("anchor-kind", "%r: spec %s, code %s" % (name, w, g))
    # the categories the spec assumes GlyphData gives the six glyph names (GlyphDataCat in Marks.tla)
    assumed = {"a": "none", "e": "none", "f_i": "ligature", "acutecomb": "mark", "dotbelowcomb": "mark", "aacute": "none"}
    gd = out[1]["glyphdata"]
    for name, want in assumed.items():
        r_ = gd.get(name)
        if r_ is None:
            have = "none"
        elif r_["category"] == "Mark" and r_["subcategory"] in ("Nonspacing", "SpacingCombining"):
            have = "mark"
        elif r_["subcategory"] == "Ligature":
            have = "ligature"
        else:
            have = "none"
        if have != want:
            raise common.ToolError("GlyphData category of %s is %s, Marks.tla assumes %s" % (name, r_, want))
    return n


# ----------------------------------------------------------------------------- replay


def replay(ctx, judge, cases, label, keep=0):
    """materialise, compile + evaluate, compare; in chunks of CH cases that reuse two banks of CH slot directories
    (one bank is being written while the other one compiles)"""
    CH = 160
    t_mat = [0.0]
    t_run = 0.0
    root = os.path.dirname(ctx.path("src", label, "x"))
    banks = [[Slot(os.path.join(root, "b%d" % b, "s%03d" % i)) for i in range(CH)] for b in (0, 1)]
    checked = [0]

    def prepare(lo, bank):
        t = time.time()
        chunk = cases[lo:lo + CH]
        reqs = []
        for i, c in enumerate(chunk):
            slot = banks[bank][i]
            src = slot.put(c)
            if lo > 0 and checked[0] < 6 and i % 37 == 5:
                # self-test of the in-place writer against a fresh minifont.materialize
                ref = os.path.join(root, "ref%d" % checked[0])
                materialize_one((c, ref))
                bad = same_tree(slot.d, ref)
                if bad:
                    raise common.ToolError("slot writer and minifont.materialize disagree: %s (%s)" % (bad, slot.d))
                checked[0] += 1
            flags = ["propagate_anchors"] if c["prop"] else []
            no_flags = ["production_names"] + ([] if c["prop"] else ["propagate_anchors"])
            reqs.append({"tag": str(lo + i), "locs": c["nloc"],
                         "compile": {"tag": str(lo + i), "src": src, "threads": 1, "flags": flags, "no_flags": no_flags}})
        t_mat[0] += time.time() - t
        return chunk, reqs

    with concurrent.futures.ThreadPoolExecutor(1) as ex:
        nxt = ex.submit(prepare, 0, 0)
        for k, lo in enumerate(range(0, len(cases), CH)):
            chunk, reqs = nxt.result()
            if lo + CH < len(cases):
                nxt = ex.submit(prepare, lo + CH, (k + 1) % 2)
            t = time.time()
            results = common.vh_batch(reqs, procs=PROC, module="marks", timeout=3000)
            t_run += time.time() - t
            for c, res in zip(chunk, results):
                if res is None:
                    raise common.ToolError("no result for case %s" % case_key(c))
                judge.judge(c, res)
    return t_mat[0], t_run


# ----------------------------------------------------------------------------- observation on fixtures


def glif_anchors(ufo):
    """{glyph: {anchor name: (x, y)}} of the default layer of a UFO"""
    import plistlib
    out = {}
    gdir = os.path.join(ufo, "glyphs")
    try:
        contents = plistlib.load(open(os.path.join(gdir, "contents.plist"), "rb"))
    except Exception:
        return out
    for g, fn in contents.items():
        try:
            root = ET.parse(os.path.join(gdir, fn)).getroot()
        except Exception:
            continue
        d = {}
        for a in root.findall("anchor"):
            if a.get("name") is not None:
                d[a.get("name")] = (float(a.get("x", "0")), float(a.get("y", "0")))   # last one wins
        if d:
            out[g] = d
    return out


def ot_round(v):
    import math
    return math.floor(v + 0.5)


def observe_fixtures(ctx, judge):
    """Every anchor of every attachment in the compiled fixture equals a rounded source anchor of that glyph with a
    matching name (n / n_i on the attaching glyph, _n on the mark) at EVERY master; anchors are looked up by value
    at the default master and must then agree at all the others."""
    n_fonts = n_att = 0
    for rel in ["designspace_from_glyphs/WghtVar_Anchors.designspace",
                "designspace_from_glyphs/WghtVar_NoExport.designspace", "Oswald-glyph-categories/Oswald-Regular.ufo"]:
        path = os.path.join(common.TESTDATA, rel)
        if not os.path.exists(path):
            continue
        if rel.endswith(".ufo"):
            masters = [(None, glif_anchors(path))]
        else:
            try:
                ds = ET.parse(path).getroot()
            except Exception:
                continue
            axes = ds.findall("./axes/axis")
            if len(axes) != 1 or axes[0].find("map") is not None:
                continue
            ax = axes[0]
            amin, adef, amax = (float(ax.get(k)) for k in ("minimum", "default", "maximum"))
            masters = []
            for s in ds.findall("./sources/source"):
                if s.get("layer"):
                    continue
                dim = s.find("./location/dimension")
                v = float(dim.get("xvalue")) if dim is not None else adef
                norm = 0.0 if v == adef else ((v - adef) / (amax - adef) if v > adef else (v - adef) / (adef - amin))
                masters.append((norm, glif_anchors(os.path.join(os.path.dirname(path), s.get("filename")))))
        if not masters or not any(m[1] for m in masters):
            continue
        masters.sort(key=lambda m: (m[0] not in (None, 0.0), m[0] or 0.0))
        req = {"tag": rel, "locs": [([] if m[0] is None else [m[0]]) for m in masters],
               "compile": {"tag": rel, "src": path, "threads": 1, "no_flags": ["production_names", "propagate_anchors"]}}
        res = common.vh_batch([req], procs=1, module="marks")[0]
        if res.get("outcome") != "ok" or "eval" not in res:
            judge.drift("fixture", "%s: %s %s" % (rel, res.get("outcome"), (res.get("message") or res.get("eval_error") or "")[:200]))
            continue
        n_fonts += 1
        ctx.ev.traces += 1
        for a in res["eval"]["attachments"]:
            n_att += 1
            for role, glyph, pts in (("attaching", a["g"], a["base"]), ("mark", a["m"], a["mark"])):
                src0 = masters[0][1].get(glyph, {})

                def name_ok(n):
                    if role == "mark":
                        return n.startswith("_")
                    if a["comp"]:
                        return re.fullmatch(r".*_%d" % a["comp"], n) is not None and not n.startswith("_")
                    return not n.startswith("_")
                cands = [n for n, (x, y) in src0.items() if name_ok(n) and pts[0][0] is not None
                         and abs(ot_round(x) - pts[0][0]) < 1e-6 and abs(ot_round(y) - pts[0][1]) < 1e-6]
                if not cands:
                    judge.violation("fixture-anchor-not-in-source", "%s:%s:%s" % (rel, glyph, role), {"fixture": rel}, a,
                                    "%s: lookup %d attaches %s to %s with %s anchor %s at the default master; %s has no "
                                    "such anchor in the source (%s)" % (rel, a["lookup"], a["m"], a["g"], role, pts[0],
                                                                     glyph, src0))
                    continue
                ok = False
                for n in cands:
                    if all(n in m[1].get(glyph, {}) and abs(ot_round(m[1][glyph][n][0]) - pts[k][0]) < 1e-6
                           and abs(ot_round(m[1][glyph][n][1]) - pts[k][1]) < 1e-6 for k, m in enumerate(masters)):
                        ok = True
                judge.n_coord += 2 * len(masters)
                if not ok:
                    judge.violation("fixture-wrong-anchor", "%s:%s:%s" % (rel, glyph, cands[0]), {"fixture": rel}, a,
                                    "%s: %s anchor %s of %s is %s at the masters %s, the rounded source values are %s" %
                                    (rel, role, cands[0], glyph, pts, [m[0] for m in masters],
                                     [m[1].get(glyph, {}).get(cands[0]) for m in masters]))
    return n_fonts, n_att


# ----------------------------------------------------------------------------- main


def main(ctx):
    common.build_harness()
    ev = ctx.ev
    judge = Judge(ctx)
    ev.rule = ("one case = one abstract source generated by TLC from spec/Marks.tla (anchors per glyph, masters, "
               "categories, propagation) compiled by the real compiler and compared pair by pair; distinct = distinct "
               "case id (mode, masters, default master, coordinate pattern, anchors per glyph, categories); "
               "non-trivial = the source defines at least one (attaching glyph, mark) pair")
    ev.assumptions = [
        "TLC, the harness's raw GPOS/GDEF/ItemVariationStore evaluator and the MiniFont materialiser are trusted",
        "OpenType semantics used to decide whether a lookup can attach: lookup flags + mark filtering sets + GDEF "
        "classes as in the OpenType spec / HarfBuzz (mark-to-base and mark-to-ligature skip class-3 glyphs when "
        "looking for the base, mark-to-mark requires a class-3 predecessor); ligature component selection by "
        "GSUB ligature ids is not simulated: every component is evaluated",
        "a glyph with both an underscore anchor and numbered ligature anchors in a source without categories is "
        "contradictory: required to attach as a mark only (Marks.tla `contra`)",
        "the composite is never a ligature; one axis, masters at the axis extremes (exact scalars)",
    ]
    if ctx.replay:
        obj = json.load(open(ctx.replay))
        case = obj["replay"]["case"]
        if "glyphs" not in case:
            raise common.ToolError("replay file holds a fixture observation, re-run the tier instead")
        check_parse_table(ctx, judge)      # keeps the spec in the loop (and the evidence schema-valid)
        replay(ctx, judge, [case], "replay", keep=1)
        ev.traces = judge.n_cases
        ev.evaluations = judge.n_cases
        ev.sample({"source": describe(case), "pairs": case["expect"]["pairs"][:3]})
        return

    n_parse = check_parse_table(ctx, judge)
    t0 = time.time()
    with concurrent.futures.ThreadPoolExecutor(2) as ex:
        if ctx.quick:
            f1 = ex.submit(generate, ctx, "MarksQuick.cfg", "quick", None, 420, 2)
            f2 = ex.submit(generate, ctx, "MarksSim.cfg", "sim", 100, 420, 4)
        else:
            f1 = ex.submit(generate, ctx, "MarksThorough.cfg", "thorough", None, 1300, 4)
            f2 = ex.submit(generate, ctx, "MarksSim.cfg", "sim", 3000, 1300, 4)
        r1, exhaustive = f1.result()
        r2, sim = f2.result()
    t_tlc = time.time() - t0
    seen = set()
    cases = []
    for c in exhaustive + sim:
        k = case_key(c)
        if k not in seen:
            seen.add(k)
            cases.append(c)
    common.log("TLC: %d exhaustive cases (%.0fs), %d simulated cases (%.0fs, seed %d); %d distinct" %
               (len(exhaustive), r1.wall, len(sim), r2.wall, ctx.seed, len(cases)))
    if not exhaustive or not sim:
        raise common.ToolError("a generator produced no cases")
    t_mat, t_run = replay(ctx, judge, cases, "gen")
    common.log("replayed %d cases: materialise %.0fs, compile+evaluate %.0fs; %d pairs, %d coordinate comparisons, "
               "%d GDEF mark checks" % (judge.n_cases, t_mat, t_run, judge.n_pairs, judge.n_coord, judge.n_gdef))
    n_fix, n_fix_att = observe_fixtures(ctx, judge)
    common.log("fixtures observed: %d fonts, %d attachments" % (n_fix, n_fix_att))
    ev.traces += judge.n_cases
    ev.evaluations = judge.n_cases + n_fix
    ev.exhaustive = False
    for c in cases[:2] + cases[len(exhaustive):len(exhaustive) + 2]:
        ev.sample({"source": describe(c), "pairs": c["expect"]["pairs"][:2], "gdef_marks": c["expect"]["marks"]})
    ev.extra.update({
        "cases_exhaustive_profile": len(exhaustive), "cases_simulated": len(sim), "cases_distinct": len(cases),
        "cases_by_mode": judge.by_mode, "pairs_expected_and_checked": judge.n_pairs,
        "anchor_coordinate_comparisons": judge.n_coord, "gdef_mark_checks": judge.n_gdef,
        "anchor_names_parse_checked": n_parse, "lookup_subtables_seen": judge.lookup_types_seen,
        "anchor_formats_seen(base,mark)": judge.formats_seen, "fixtures_observed": n_fix,
        "fixture_attachments_checked": n_fix_att, "violations_by_kind": judge.kinds, "drift_by_kind": judge.drifts,
        "timing_s": {"tlc": round(t_tlc, 1), "materialise": round(t_mat, 1), "compile_evaluate": round(t_run, 1)},
    })
