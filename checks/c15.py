"""C15 Bad input ends in a reported error, never a crash, hang or bogus font.

Decided by spec/Outcome.tla (process life cycle: the observed runs of the real `fontc` binary on
TLC-generated and mutated inputs are replayed through it, invariant Allowed in every state) and by
spec/Workload.tla with fault injection (any single job may fail or panic: no hang, no swallowed error),
bound to the code by injecting the same faults into real builds through the guarded hook and validating
the recorded traces with WorkloadTrace.tla.
"""
import json, os, random, shutil, subprocess, concurrent.futures
import common, graphs, sched, minifont


def case_to_minifont(c):
    if "reg" in c:
        # two masters with their own component graphs; every glyph keeps a contour so the masters stay compatible
        mf = minifont.template_wght(("a", "b", "c"))
        for g in mf["glyphs"]:
            for master, key in (("Regular", "reg"), ("Bold", "bold")):
                g["layers"][master]["components"] = [{"base": b, "xform": [1, 0, 0, 1, 10, 0]} for b in c[key][g["name"]]]
        return mf
    mf = minifont.template_static(("a", "b", "c"))
    mf["as_ufo"] = True
    for g in mf["glyphs"]:
        n = g["name"]
        layer = g["layers"]["Regular"]
        if n not in c["contour"]:
            layer["contours"] = []
        layer["components"] = [{"base": b, "xform": [1, 0, 0, 1, 10 * (k + 1), 0]} for k, b in enumerate(c["comps"][n])]
    return mf


# ---- seeded byte/structure level mutation of fixture files

MUT_SOURCES = ["Static-Regular.ufo", "wght_var.designspace", "glyphs3/WghtVar.glyphs", "glyphs2/Component.glyphs",
               "dspace_rules/Basic.designspace", "fea_include.designspace", "glyphs3/WghtVar.glyphspackage"]


def copy_source(rel, dest):
    """Copy a fixture (and, for designspaces, the UFOs it references) into dest; returns path of the copy."""
    src = os.path.join(common.TESTDATA, rel)
    os.makedirs(dest, exist_ok=True)
    if os.path.isdir(src):
        d = os.path.join(dest, os.path.basename(src))
        shutil.copytree(src, d)
        return d
    d = os.path.join(dest, os.path.basename(src))
    shutil.copy(src, d)
    if rel.endswith(".designspace"):
        import re
        text = open(src, encoding="utf-8").read()
        base = os.path.dirname(src)
        for fn in set(re.findall(r'filename="([^"]+)"', text)):
            s = os.path.join(base, fn)
            if os.path.isdir(s) and not os.path.exists(os.path.join(dest, fn)):
                shutil.copytree(s, os.path.join(dest, fn))
        # feature includes next to the designspace
        for fn in os.listdir(base):
            if fn.endswith(".fea") and not os.path.exists(os.path.join(dest, fn)):
                shutil.copy(os.path.join(base, fn), os.path.join(dest, fn))
    return d


def files_of(path):
    if os.path.isfile(path):
        return [path]
    out = []
    for root, _d, files in os.walk(os.path.dirname(path) if path.endswith(".designspace") else path):
        for f in files:
            out.append(os.path.join(root, f))
    return sorted(out)


def mutate_file(path, rng):
    data = open(path, "rb").read()
    kind = rng.choice(["truncate", "flip", "dupline", "delline", "bignum", "empty", "swap"])
    if kind == "truncate" and data:
        data = data[: rng.randrange(len(data))]
    elif kind == "flip" and data:
        b = bytearray(data)
        for _ in range(rng.randint(1, 4)):
            b[rng.randrange(len(b))] = rng.randrange(256)
        data = bytes(b)
    elif kind in ("dupline", "delline", "swap"):
        lines = data.split(b"\n")
        if len(lines) > 2:
            i = rng.randrange(len(lines))
            if kind == "dupline":
                lines.insert(i, lines[i])
            elif kind == "delline":
                del lines[i]
            else:
                j = rng.randrange(len(lines))
                lines[i], lines[j] = lines[j], lines[i]
        data = b"\n".join(lines)
    elif kind == "bignum":
        import re
        nums = list(re.finditer(rb"-?\d+(\.\d+)?", data))
        if nums:
            m = rng.choice(nums)
            big = rng.choice([b"99999999999999999999", b"-99999999999", b"1e308", b"NaN", b"65536", b"-32769", b"0"])
            data = data[: m.start()] + big + data[m.end():]
    elif kind == "empty":
        data = b""
    with open(path, "wb") as f:
        f.write(data)
    return kind


def main(ctx):
    common.build_harness()
    ev = ctx.ev
    quick = ctx.quick
    rng = random.Random(ctx.seed)

    # ------------------------------------------------------------ generated component digraphs
    common.log("TLC: generating component digraphs")
    r = common.run_tlc(ctx, "OutcomeGen", "OutcomeGen.cfg", workers=4, timeout=600)
    if r.error or not r.complete:
        raise common.ToolError("OutcomeGen failed: %s" % r.error)
    cases = common.replay_lines(r.out)
    cases.sort(key=lambda c: json.dumps(c, sort_keys=True))
    two = [c for c in cases if "reg" in c]
    cases = [c for c in cases if "reg" not in c]
    cyc = [c for c in cases if c["cyclic"]]
    acyc = [c for c in cases if not c["cyclic"]]
    n_cyc, n_acyc, n_two = (200, 120, 260) if quick else (3000, len(acyc), len(two))
    chosen = rng.sample(cyc, min(n_cyc, len(cyc))) + rng.sample(acyc, min(n_acyc, len(acyc))) + \
        rng.sample(two, min(n_two, len(two)))
    if not quick and len(chosen) == len(cases) + len(two):
        ev.exhaustive = True
    runs = []  # (label, src, cyclic, signature)
    for n, c in enumerate(chosen):
        d = ctx.path("gen", str(n), "x")[:-2]
        src = minifont.materialize(case_to_minifont(c), d)
        runs.append((dict(kind="component-digraph", case=c), src, bool(c["cyclic"]),
                     ("component-cycle:" if c["cyclic"] else "digraph:") + json.dumps(c, sort_keys=True)))

    # ------------------------------------------------------------ hand-made degenerate designspaces
    def variant(name, edit, sig=None):
        mf = minifont.template_wght(("a", "b"))
        edit(mf)
        d = ctx.path("degenerate", name, "x")[:-2]
        src = minifont.materialize(mf, d)
        runs.append((dict(kind="degenerate", name=name), src, False, sig or "degenerate:" + name))

    variant("no-default-master", lambda mf: mf["axes"][0].update(default=500))
    variant("glyph-missing-in-default", lambda mf: mf["glyphs"][1]["layers"].pop("Regular"))
    variant("glyph-missing-in-bold", lambda mf: mf["glyphs"][1]["layers"].pop("Bold"))
    variant("duplicate-master-location", lambda mf: mf["masters"][1]["loc"].update(Weight=400))
    variant("axis-min-eq-max", lambda mf: (mf["axes"][0].update(max=400), mf["masters"][1]["loc"].update(Weight=400)))
    variant("empty-glyph-set", lambda mf: mf.update(glyphs=[]))
    variant("incompatible-point-count", lambda mf: mf["glyphs"][0]["layers"]["Bold"]["contours"][0].pop())
    variant("huge-coordinate", lambda mf: mf["glyphs"][0]["layers"]["Bold"]["contours"][0][0].__setitem__(0, 1e30))
    variant("nan-advance", lambda mf: mf["glyphs"][0]["layers"]["Bold"].update(width=float("nan")))
    variant("master-outside-axis", lambda mf: mf["masters"][1]["loc"].update(Weight=900))
    variant("fea-include-self", lambda mf: mf["masters"][0].update(features="include(features.fea);\n"))
    variant("fea-garbage", lambda mf: mf["masters"][0].update(features="feature liga { sub a by ; } liga\n\x00\xff"))
    variant("unknown-component", lambda mf: mf["glyphs"][0]["layers"]["Regular"].update(components=[{"base": "nope"}]))
    variant("zero-upem", lambda mf: mf.update(upem=0))
    variant("negative-upem", lambda mf: mf.update(upem=-1000))

    # ------------------------------------------------------------ seeded file-level mutations of fixtures
    n_mut = 160 if quick else 1500
    for n in range(n_mut):
        rel = MUT_SOURCES[n % len(MUT_SOURCES)]
        d = ctx.path("mut", str(n), "x")[:-2]
        src = copy_source(rel, d)
        fs = [f for f in files_of(src) if not f.endswith(".ttf")]
        target = rng.choice(fs)
        kind = mutate_file(target, rng)
        runs.append((dict(kind="mutated-fixture", fixture=rel, file=os.path.relpath(target, d), mutation=kind,
                          seed=ctx.seed, index=n), src, False,
                     "mutated:%s:%s:%s:%d:%d" % (rel, os.path.relpath(target, d), kind, ctx.seed, n)))

    common.log("running fontc on %d inputs" % len(runs))

    def run_with(timeout):
        def run(item):
            label, src, cyclic, sig = item
            out = os.path.join(os.path.dirname(src), "out.ttf")
            return common.run_fontc(src, out, timeout=timeout)
        return run

    observations = common.parallel(run_with(40), runs, procs=8)
    # A loaded machine is not a hang. Re-run a few of the timed-out inputs with a limit far beyond what the
    # completed runs needed; only if those finish is the machine merely slow, and then all of them are re-run.
    timed = [i for i, o in enumerate(observations) if o["how"] == "timedout"]
    if timed:
        walls = sorted(o["wall"] for o in observations if o["how"] != "timedout") or [1.0]
        long_t = int(max(180, 150 * walls[len(walls) // 2]))
        probe = timed[:6]
        for i, o in zip(probe, common.parallel(run_with(long_t), [runs[i] for i in probe], procs=6)):
            o["retried"] = long_t
            observations[i] = o
        if any(observations[i]["how"] != "timedout" for i in probe):
            rest = timed[6:]
            for i, o in zip(rest, common.parallel(run_with(long_t), [runs[i] for i in rest], procs=8)):
                o["retried"] = long_t
                observations[i] = o
        ev.extra["timeouts_first_pass"] = len(timed)
        ev.extra["long_timeout_s"] = long_t
    obs_path = ctx.path("obs.ndjson")
    with open(obs_path, "w") as f:
        for (label, src, cyclic, sig), o in zip(runs, observations):
            f.write(json.dumps(dict(how=o["how"], status=o["status"], font=o["font"], diag=o["diag"],
                                    cyclic=cyclic)) + "\n")
    outcomes = {}
    for o in observations:
        key = "%s/%s/%s" % (o["how"], "0" if o["status"] == 0 else "nz", o["font"])
        outcomes[key] = outcomes.get(key, 0) + 1
    ev.extra["outcome_histogram"] = outcomes
    # TLC decides: replay the observation log through Outcome.tla. It stops at the first bad state, so
    # loop: report it, drop that run from the log, validate the rest.
    remaining = list(range(len(runs)))
    for _round in range(60):
        with open(obs_path, "w") as f:
            for i in remaining:
                o = observations[i]
                f.write(json.dumps(dict(how=o["how"], status=o["status"], font=o["font"], diag=o["diag"],
                                        cyclic=runs[i][2])) + "\n")
        r = common.run_tlc(ctx, "Outcome", "OutcomeObs.cfg", workers=1, timeout=300, deque=True, xmx="2g",
                           env={"OBS": obs_path}, tag="obs")
        if r.violated == "NotAccepted":
            ev.traces += len(remaining)
            break
        if r.violated in ("Allowed", "CyclicRejected"):
            import re
            m = re.findall(r'<<"PROGRESS", (\d+), (\d+)>>', r.out)
            # k is the index of the run in progress/just ended when the invariant broke
            ks = re.findall(r"/\\ k = (\d+)", r.out)
            k = int(ks[-1]) if ks else None
            phases = re.findall(r'/\\ phase = "(\w+)"', r.out)
            # after End, k already points past the offending run
            idx = (k - 2) if (phases and phases[-1] != "running") else (k - 1)
            i = remaining[idx]
            label, src, cyclic, sig = runs[i]
            o = observations[i]
            what = "fontc on %s: %s status=%s signal=%s font=%s diag=%s (%s violated); stderr: %s" % (
                json.dumps(label)[:300], o["how"], o["status"], o["signal"], o["font"], o["diag"], r.violated,
                o["stderr"][-200:].replace("\n", " | "))
            keep = ctx.path("failing", str(i), "x")[:-2]
            shutil.rmtree(keep, ignore_errors=True)
            shutil.copytree(os.path.dirname(src), keep)
            ctx.violation(sig, what, dict(label=label, observation=o, input_copy=keep,
                                          cmd="%s %s -o out.ttf" % (common.FONTC, os.path.basename(src))))
            remaining.pop(idx)
            continue
        raise common.ToolError("Outcome validation failed: %s" % (r.error or r.violated or "stuck"))
    for (label, src, cyclic, sig), o in list(zip(runs, observations))[:3]:
        ev.sample({"input": label, "observed": {k: o[k] for k in ("how", "status", "font", "diag")}})
    ev.evaluations += len(runs)
    for (label, src, cyclic, sig), o in zip(runs, observations):
        ev.nontrivial_add("%s|%s|%s|%s" % (label.get("kind"), o["how"], o["status"] != 0, o["stderr"][-60:]))

    # ------------------------------------------------------------ scheduler faults
    fault_sources = sched.QUICK_SOURCES[:2] if quick else sched.QUICK_SOURCES[:6]
    common.log("fault injection on %d sources" % len(fault_sources))
    builds = sched.traced_builds(ctx, fault_sources, [(4, 0)])
    freqs = []
    fmeta = []
    for (rel, flags), runs_ in builds.items():
        if runs_[0]["res"].get("outcome") != "ok":
            continue
        g = sched.load_graph(runs_[0])
        jobs = [j for j in g.order]
        if quick:
            jobs = rng.sample(jobs, min(14, len(jobs)))
        for j in jobs:
            for kind in ("fail", "panic"):
                tag = "f%d" % len(freqs)
                tr = ctx.path("ftraces", tag + ".ndjson")
                freqs.append(dict(tag=tag, src=sched.source_path(rel), threads=4, trace=tr, flags=list(flags),
                                  fault="%s=%s" % (j, kind), jitter=ctx.seed * 13 + len(freqs)))
                fmeta.append((rel, j, kind, tr))

    def run_fault(req):
        try:
            p = subprocess.run([common.VH, "compile", json.dumps(req)], capture_output=True, text=True, timeout=60)
            line = [l for l in p.stdout.splitlines() if l.startswith("{")]
            if p.returncode != 0 or not line:
                return {"outcome": "crash", "rc": p.returncode, "message": p.stderr[-300:]}
            return json.loads(line[-1])
        except subprocess.TimeoutExpired:
            try:
                p = subprocess.run([common.VH, "compile", json.dumps(req)], capture_output=True, text=True, timeout=900)
                line = [l for l in p.stdout.splitlines() if l.startswith("{")]
                if p.returncode == 0 and line:
                    return json.loads(line[-1])
                return {"outcome": "crash", "rc": p.returncode, "message": p.stderr[-300:]}
            except subprocess.TimeoutExpired:
                return {"outcome": "hang"}

    fres = common.parallel(run_fault, freqs, procs=8)
    vjobs = []
    for (rel, j, kind, tr), res in zip(fmeta, fres):
        ev.evaluations += 1
        ev.nontrivial_add("fault:%s:%s:%s" % (rel, j, kind))
        if res.get("outcome") != "error":
            ctx.violation("fault:%s:%s:%s:%s" % (rel, j, kind, res.get("outcome")),
                          "%s with an injected %s in job %s: build outcome is '%s' (expected a reported error): %s" %
                          (rel, kind, j, res.get("outcome"), res.get("message", "")[:200]),
                          dict(source=rel, job=j, fault=kind, result=res))
            continue
        # validate the recorded faulty build against the scheduler spec
        try:
            g = sched.load_graph(dict(trace=tr))
            gj, _ = graphs.build(g)
        except Exception as e:  # unparsable trace = tool problem
            raise common.ToolError("cannot load fault trace %s: %s" % (tr, e))
        gpath = tr.replace(".ndjson", ".graph.json")
        json.dump(gj, open(gpath, "w"))
        tpath = tr.replace(".ndjson", ".sched.ndjson")
        graphs.write_ndjson(tpath, graphs.scheduler_trace(g, gj))
        vjobs.append((dict(source=rel, job=j, fault=kind), gpath, tpath))
    if quick:
        vjobs = vjobs[:24]
    for label, status, r in sched.validate_traces(ctx, vjobs):
        if status == "accepted":
            ev.traces += 1
        elif status.startswith("invariant:") and status.split(":")[1] in ("ErrorReported", "NoSchedulerPanic"):
            ctx.violation("fault-trace:%s:%s" % (label["source"], status),
                          "faulty build of %s (%s in %s): %s" % (label["source"], label["fault"], label["job"], status),
                          dict(label=label, tlc=common.tlc_trace_text(r.out)[-4000:]))
        elif status == "tool-error":
            raise common.ToolError("fault trace validation: %s" % (r.error or "timeout"))
        else:
            tp = [j[2] for j in vjobs if j[0] is label][0]
            k, e = sched.stuck_at(r, tp)
            ctx.drift("WorkloadTrace", "faulty build of %s (%s in %s): %s at event %s %s" % (
                label["source"], label["fault"], label["job"], status, k, e))
    if fmeta:
        ev.sample({"kind": "fault injection", "source": fmeta[0][0], "job": fmeta[0][1], "fault": fmeta[0][2],
                   "result": fres[0]})

    # model: any single fault on graph slices, exhaustive
    common.log("model checking single-fault behaviours of graph slices")
    for (rel, flags), runs_ in list(builds.items())[:(1 if quick else 3)]:
        if runs_[0]["res"].get("outcome") != "ok":
            continue
        g = sched.load_graph(runs_[0])
        gj, _ = graphs.build(g)
        sl = [s for s in graphs.slices(gj, 7 if quick else 8) if s[1] >= 4][: (2 if quick else 6)]
        for n, (c, real, name) in enumerate(sl):
            sg = graphs.slice_graph(gj, c)
            sg["anyfault"] = True
            sp = ctx.path("fslices", "%s_%d.json" % (rel.replace("/", "_"), n))
            json.dump(sg, open(sp, "w"))
            r = common.run_tlc(ctx, "Workload", "MCWorkloadGraph.cfg", workers=4, timeout=600, xmx="6g",
                               env={"GRAPH": sp}, tag="fault")
            ev.evaluations += 1
            if r.violated:
                ctx.violation("fault-model:%s:%s" % (rel, r.violated),
                              "graph slice of %s (%s) with any single job failing or panicking: TLC found %s" %
                              (rel, name, r.violated), dict(graph=sp, tlc=common.tlc_trace_text(r.out)[-6000:]))
            elif r.error:
                raise common.ToolError("TLC error on fault slice: %s" % r.error)
            ev.sample({"kind": "single-fault slice", "source": rel, "target": name, "executing_jobs": real,
                       "distinct_states": r.distinct, "complete": r.complete}, limit=8)
    ev.rule = ("cases = fontc subprocess runs on TLC-enumerated component digraphs (cycles included), degenerate "
               "designspaces and seeded file mutations of fixtures, validated against Outcome.tla; plus real builds "
               "with one injected job failure/panic; non-trivial = distinct (input kind, outcome, diagnostic tail) / "
               "(source, job, fault kind)")
    ev.assumptions = ["time bound 40 s (re-tried once with 900 s before a hang is reported) and address-space bound 8 GiB per process stand for 'bounded time and memory'",
                      "a Rust panic that ends the process with a non-zero status and a message counts as a reported error"]
