"""MiniFont: a small abstract font source (dict) materialised as UFO3 masters + a .designspace.

The dict (all keys optional except glyphs/masters):
{
  "family": "Mini", "upem": 1000,
  "axes": [{"tag","name","min","default","max","map":[[user,design],...],"hidden":bool,"labels":...}],   # [] = static
  "masters": [{"name":"Regular","style":"Regular","loc":{"Weight":400}   # design coords keyed by axis *name*
               "info":{fontinfo.plist overrides}, "kerning":{l:{r:v}}, "groups":{name:[glyphs]},
               "features": "fea text" | None, "lib":{}}],
  "glyphs": [{"name":"a","unicodes":[97],
              "layers": {"Regular": LAYER, ...},          # keyed by master name; missing = glyph absent there
              "sparse": [{"layer":"M550","master":"Regular","loc":{"Weight":550},"data":LAYER}]}],
  "glyph_order": [...], "skip_export": [...], "categories": {name: "mark"|"base"|"ligature"|"component"},
  "postscript_names": {name: ps}, "lib": {public/private lib keys for the default master},
  "rules": [{"name":..,"conditionsets":[[{"name":axisname,"minimum":..,"maximum":..}]],"subs":[[a,b]]}],
  "rules_processing": "first"|"last", "instances": [{"familyname","stylename","postscriptfontname","loc":{...}}],
  "default_master": index
}
LAYER = {"width":500, "height":None, "contours":[[[x,y,"line"|"curve"|"qcurve"|"offcurve"|"move"],...]],
         "components":[{"base":"b","xform":[xx,xy,yx,yy,dx,dy]}], "anchors":[{"name":"top","x":1,"y":2}]}
"""
import os, plistlib, shutil
from xml.sax.saxutils import quoteattr, escape


def _num(v):
    if isinstance(v, float) and (v != v or v in (float("inf"), float("-inf"))):
        return repr(v)
    if isinstance(v, float) and abs(v) < 1e15 and v == int(v):
        return str(int(v))
    return repr(v) if isinstance(v, float) else str(v)


def glif(name, unicodes, layer):
    out = ['<?xml version="1.0" encoding="UTF-8"?>', '<glyph name=%s format="2">' % quoteattr(name)]
    adv = []
    if layer.get("width") is not None:
        adv.append('width="%s"' % _num(layer["width"]))
    if layer.get("height") is not None:
        adv.append('height="%s"' % _num(layer["height"]))
    if adv:
        out.append("  <advance %s/>" % " ".join(adv))
    for u in unicodes or []:
        out.append('  <unicode hex="%04X"/>' % u)
    for a in layer.get("anchors", []) or []:
        out.append('  <anchor name=%s x="%s" y="%s"/>' % (quoteattr(a["name"]), _num(a["x"]), _num(a["y"])))
    contours = layer.get("contours") or []
    comps = layer.get("components") or []
    if contours or comps:
        out.append("  <outline>")
        for c in comps:
            xf = c.get("xform", [1, 0, 0, 1, 0, 0])
            names = ["xScale", "xyScale", "yxScale", "yScale", "xOffset", "yOffset"]
            dflt = [1, 0, 0, 1, 0, 0]
            attrs = " ".join('%s="%s"' % (n, _num(v)) for n, v, d in zip(names, xf, dflt) if v != d)
            out.append("    <component base=%s%s/>" % (quoteattr(c["base"]), (" " + attrs) if attrs else ""))
        for contour in contours:
            out.append("    <contour>")
            for p in contour:
                x, y, t = p[0], p[1], (p[2] if len(p) > 2 else "line")
                if t == "offcurve":
                    out.append('      <point x="%s" y="%s"/>' % (_num(x), _num(y)))
                else:
                    out.append('      <point x="%s" y="%s" type="%s"/>' % (_num(x), _num(y), t))
            out.append("    </contour>")
        out.append("  </outline>")
    if layer.get("lib"):
        out.append("  <lib>")
        out.append(plistlib.dumps(layer["lib"]).decode().split("\n", 3)[3].rsplit("</plist>", 1)[0])
        out.append("  </lib>")
    out.append("</glyph>")
    return "\n".join(out) + "\n"


def _plist(path, obj):
    with open(path, "wb") as f:
        plistlib.dump(obj, f, sort_keys=True)


DEFAULT_INFO = dict(unitsPerEm=1000, ascender=800, descender=-200, xHeight=500, capHeight=700,
                    versionMajor=1, versionMinor=0)


def write_ufo(path, mf, master, is_default):
    shutil.rmtree(path, ignore_errors=True)
    os.makedirs(path)
    _plist(os.path.join(path, "metainfo.plist"), {"creator": "verif.minifont", "formatVersion": 3})
    info = dict(DEFAULT_INFO)
    info["unitsPerEm"] = mf.get("upem", 1000)
    info["familyName"] = mf.get("family", "Mini")
    info["styleName"] = master.get("style", master["name"])
    info.update(master.get("info") or {})
    info = {k: v for k, v in info.items() if v is not None}
    _plist(os.path.join(path, "fontinfo.plist"), info)
    lib = dict(master.get("lib") or {})
    if is_default:
        lib.update(mf.get("lib") or {})
        if mf.get("glyph_order") is not None:
            lib["public.glyphOrder"] = list(mf["glyph_order"])
        if mf.get("skip_export"):
            lib["public.skipExportGlyphs"] = list(mf["skip_export"])
        if mf.get("categories"):
            lib["public.openTypeCategories"] = dict(mf["categories"])
        if mf.get("postscript_names"):
            lib["public.postscriptNames"] = dict(mf["postscript_names"])
    _plist(os.path.join(path, "lib.plist"), lib)
    if master.get("groups"):
        _plist(os.path.join(path, "groups.plist"), master["groups"])
    if master.get("kerning"):
        _plist(os.path.join(path, "kerning.plist"), master["kerning"])
    fea = master.get("features")
    if fea is None and is_default:
        fea = mf.get("features")
    if fea is not None:
        with open(os.path.join(path, "features.fea"), "w") as f:
            f.write(fea)
    # layers: default + sparse ones hosted by this master
    layers = [("public.default", "glyphs")]
    sparse_layers = {}
    for g in mf["glyphs"]:
        for sp in g.get("sparse") or []:
            if sp["master"] == master["name"]:
                sparse_layers.setdefault(sp["layer"], "glyphs." + "".join(ch if ch.isalnum() else "_" for ch in sp["layer"]))
    for lname, ldir in sparse_layers.items():
        layers.append((lname, ldir))
    _plist(os.path.join(path, "layercontents.plist"), [list(x) for x in layers])
    for lname, ldir in layers:
        d = os.path.join(path, ldir)
        os.makedirs(d)
        contents = {}
        for gi, g in enumerate(mf["glyphs"]):
            if lname == "public.default":
                layer = (g.get("layers") or {}).get(master["name"])
            else:
                layer = None
                for sp in g.get("sparse") or []:
                    if sp["master"] == master["name"] and sp["layer"] == lname:
                        layer = sp["data"]
            if layer is None:
                continue
            fn = "g%04d.glif" % gi
            contents[g["name"]] = fn
            with open(os.path.join(d, fn), "w", encoding="utf-8") as f:
                f.write(glif(g["name"], g.get("unicodes") if lname == "public.default" else [], layer))
        _plist(os.path.join(d, "contents.plist"), contents)


def designspace_xml(mf, ufo_names):
    axes = mf.get("axes") or []
    out = ['<?xml version="1.0" encoding="UTF-8"?>', '<designspace format="4.1">']
    if axes:
        out.append("  <axes>")
        for a in axes:
            attrs = 'tag=%s name=%s minimum="%s" default="%s" maximum="%s"' % (
                quoteattr(a["tag"]), quoteattr(a["name"]), _num(a["min"]), _num(a["default"]), _num(a["max"]))
            if a.get("hidden"):
                attrs += ' hidden="1"'
            body = []
            for (u, d) in a.get("map") or []:
                body.append('      <map input="%s" output="%s"/>' % (_num(u), _num(d)))
            for lab in a.get("labelnames") or []:
                body.append('      <labelname xml:lang=%s>%s</labelname>' % (quoteattr(lab[0]), escape(lab[1])))
            if body:
                out.append("    <axis %s>" % attrs)
                out.extend(body)
                out.append("    </axis>")
            else:
                out.append("    <axis %s/>" % attrs)
        out.append("  </axes>")
    rules = mf.get("rules") or []
    if rules:
        proc = mf.get("rules_processing")
        out.append("  <rules%s>" % ((' processing="%s"' % proc) if proc else ""))
        for r in rules:
            out.append("    <rule name=%s>" % quoteattr(r.get("name", "r")))
            for cs in r["conditionsets"]:
                out.append("      <conditionset>")
                for c in cs:
                    attrs = "name=%s" % quoteattr(c["name"])
                    if c.get("minimum") is not None:
                        attrs += ' minimum="%s"' % _num(c["minimum"])
                    if c.get("maximum") is not None:
                        attrs += ' maximum="%s"' % _num(c["maximum"])
                    out.append("        <condition %s/>" % attrs)
                out.append("      </conditionset>")
            for a, b in r["subs"]:
                out.append("      <sub name=%s with=%s/>" % (quoteattr(a), quoteattr(b)))
            out.append("    </rule>")
        out.append("  </rules>")
    out.append("  <sources>")

    def loc_xml(loc, indent):
        o = [indent + "<location>"]
        for k, v in loc.items():
            o.append(indent + '  <dimension name=%s xvalue="%s"/>' % (quoteattr(k), _num(v)))
        o.append(indent + "</location>")
        return o

    for mi, m in enumerate(mf["masters"]):
        attrs = 'filename=%s name=%s familyname=%s stylename=%s' % (
            quoteattr(ufo_names[mi]), quoteattr(m["name"]), quoteattr(mf.get("family", "Mini")),
            quoteattr(m.get("style", m["name"])))
        out.append("    <source %s>" % attrs)
        out.extend(loc_xml(m.get("loc") or {}, "      "))
        out.append("    </source>")
    seen = set()
    for g in mf["glyphs"]:
        for sp in g.get("sparse") or []:
            key = (sp["master"], sp["layer"])
            if key in seen:
                continue
            seen.add(key)
            mi = [m["name"] for m in mf["masters"]].index(sp["master"])
            out.append('    <source filename=%s name=%s layer=%s>' % (
                quoteattr(ufo_names[mi]), quoteattr(sp["layer"]), quoteattr(sp["layer"])))
            out.extend(loc_xml(sp["loc"], "      "))
            out.append("    </source>")
    out.append("  </sources>")
    insts = mf.get("instances") or []
    if insts:
        out.append("  <instances>")
        for i in insts:
            attrs = "familyname=%s stylename=%s" % (quoteattr(i.get("familyname", mf.get("family", "Mini"))),
                                                    quoteattr(i["stylename"]))
            if i.get("name"):
                attrs += " name=%s" % quoteattr(i["name"])
            if i.get("postscriptfontname"):
                attrs += " postscriptfontname=%s" % quoteattr(i["postscriptfontname"])
            out.append("    <instance %s>" % attrs)
            out.extend(loc_xml(i["loc"], "      "))
            out.append("    </instance>")
        out.append("  </instances>")
    out.append("</designspace>")
    return "\n".join(out) + "\n"


def materialize(mf, outdir, name="Mini"):
    """Write the UFOs and the designspace; returns the path to compile (designspace, or the lone UFO if
    mf["as_ufo"] is set and there is one master)."""
    os.makedirs(outdir, exist_ok=True)
    dm = mf.get("default_master", 0)
    ufo_names = []
    for mi, m in enumerate(mf["masters"]):
        un = "%s-%s.ufo" % (name, "".join(ch if ch.isalnum() else "_" for ch in m["name"]))
        ufo_names.append(un)
        write_ufo(os.path.join(outdir, un), mf, m, mi == dm)
    if mf.get("as_ufo") and len(mf["masters"]) == 1:
        return os.path.join(outdir, ufo_names[0])
    ds = os.path.join(outdir, name + ".designspace")
    with open(ds, "w", encoding="utf-8") as f:
        f.write(designspace_xml(mf, ufo_names))
    return ds


# ----------------------------------------------------------------------------- templates


def square(x0, y0, x1, y1):
    """Counter-clockwise line contour."""
    return [[x0, y0, "line"], [x1, y0, "line"], [x1, y1, "line"], [x0, y1, "line"]]


def simple_layer(width=500, x0=50, y0=0, x1=450, y1=700):
    return {"width": width, "contours": [square(x0, y0, x1, y1)]}


def template_static(glyph_names=("a", "b")):
    return {
        "family": "Mini",
        "axes": [],
        "masters": [{"name": "Regular", "style": "Regular", "loc": {}}],
        "glyphs": [{"name": n, "unicodes": [ord(n)] if len(n) == 1 else [],
                    "layers": {"Regular": simple_layer(500 + 10 * i)}} for i, n in enumerate(glyph_names)],
    }


def template_wght(glyph_names=("a", "b")):
    return {
        "family": "Mini",
        "axes": [{"tag": "wght", "name": "Weight", "min": 400, "default": 400, "max": 700}],
        "masters": [{"name": "Regular", "style": "Regular", "loc": {"Weight": 400}},
                    {"name": "Bold", "style": "Bold", "loc": {"Weight": 700}}],
        "glyphs": [{"name": n, "unicodes": [ord(n)] if len(n) == 1 else [],
                    "layers": {"Regular": simple_layer(500 + 10 * i),
                               "Bold": simple_layer(600 + 10 * i, 40, 0, 560, 700)}}
                   for i, n in enumerate(glyph_names)],
    }
