"""Job graph extraction: hook traces -> JSON constants for spec/Workload.tla."""
import json
import tracelib


def access_to_tla(acc, idx):
    vs, ss = [], []
    for it in acc["items"]:
        if it["t"] == "V":
            vs.append(it["d"])
        else:
            # a specific instance that was never inserted is never pending: dependency always fulfilled
            if it["id"] in idx:
                ss.append(idx[it["id"]])
    return {"k": acc["k"], "vs": sorted(set(vs)), "ss": sorted(set(ss))}


def access_sets(g):
    """job -> (reads, writes) over item names; nop-writes and absent reads count as reads."""
    acc = {}
    for j in g.order:
        r = set(g.reads.get(j, ())) | set(g.reads_absent.get(j, ())) | set(g.nopwrites.get(j, ()))
        w = set(g.writes.get(j, ()))
        acc[j] = (r, w)
    return acc


def conflict_items(a, b):
    ra, wa = a
    rb, wb = b
    return (wa & (rb | wb)) | (wb & ra)


def build(ref, others=(), fails=(), panics=()):
    """ref: tracelib.Graph of the reference run; others: more runs of the same source+options.

    Returns (graph_json, problems) where problems lists property-level observations made while
    merging (observed overlap of conflicting jobs, unstable order between runs)."""
    problems = []
    names = list(ref.jobs.keys())
    idx = {n: i + 1 for i, n in enumerate(names)}
    n = len(names)
    # union of observed access sets
    acc = access_sets(ref)
    for o in others:
        for j, (r, w) in access_sets(o).items():
            if j in acc:
                acc[j] = (acc[j][0] | r, acc[j][1] | w)
            else:
                acc[j] = (r, w)
    before = {j: set() for j in names}
    ran = [j for j in ref.order if j in ref.end]
    for i, a in enumerate(ran):
        for b in ran[i + 1:]:
            if a == b or a not in acc or b not in acc:
                continue
            items = conflict_items(acc[a], acc[b])
            if not items:
                continue
            runs = [ref] + list(others)
            orders = set()
            for g in runs:
                if a not in g.start or b not in g.start:
                    continue
                if g.ordered(a, b):
                    orders.add("ab")
                elif g.ordered(b, a):
                    orders.add("ba")
                else:
                    orders.add("overlap")
            if "overlap" in orders:
                problems.append(dict(kind="overlap", a=a, b=b, items=sorted(items)))
            elif len(orders) > 1:
                problems.append(dict(kind="unstable-order", a=a, b=b, items=sorted(items)))
            if ref.ordered(a, b):
                before[b].add(a)
            elif ref.ordered(b, a):
                before[a].add(b)
    # dataflow for the Confluence invariant: reads-from relation of the reference (canonical) run
    item_idx = {}
    for j in names:
        if j in acc:
            for x in sorted(acc[j][0] | acc[j][1]):
                item_idx.setdefault(x, len(item_idx) + 1)
    last = {}
    canon_rf = {j: [] for j in names}
    reads_of = {j: [] for j in names}
    writes_of = {j: [] for j in names}
    ref_acc = access_sets(ref)
    for j in ran:  # canonical order = start order of the reference run
        r, w = ref_acc.get(j, (set(), set()))
        for x in sorted(r):
            reads_of[j].append(item_idx[x])
            canon_rf[j].append(idx.get(last.get(x), 0))
        for x in sorted(w):
            writes_of[j].append(item_idx[x])
            last[x] = j
    # context model (spec/Context.tla): every item any thread touched, with its discriminant and owner id
    for g_ in [ref] + list(others):
        for e in g_.evs:
            if e["ev"] in ("Read", "Write", "DiskRead"):
                item_idx.setdefault(tracelib.norm_item(e["item"]), len(item_idx) + 1)
    item_disc = {}
    for g_ in [ref] + list(others):
        for e in g_.evs:
            if e["ev"] in ("Read", "Write", "DiskRead"):
                item_disc[tracelib.norm_item(e["item"])] = e["disc"]
    final_read = {x: ref.jobs[x]["read"] for x in names}
    for h, rws in ref.rewrites.items():
        for (j, r) in rws:
            final_read[j] = r
    item_names = [x for x, _ in sorted(item_idx.items(), key=lambda kv: kv[1])]
    gj = {
        "itemdisc": [item_disc.get(x, "?") for x in item_names],
        "itemjob": [idx.get(x, 0) for x in item_names],
        "itemfe": [x.startswith("Fe(") for x in item_names],
        "jobfe": [x.startswith("Fe(") for x in names],
        "finalread": [access_to_tla(final_read[x], idx) for x in names],
        "write": [access_to_tla(ref.jobs[x]["write"], idx) for x in names],
        "staledisk": [],
        "nitems": len(item_idx),
        "items": item_names,
        "reads": [reads_of[x] for x in names],
        "writes": [writes_of[x] for x in names],
        "canonrf": [canon_rf[x] for x in names],
        "n": n,
        "names": names,
        "disc": [ref.jobs[x]["disc"] for x in names],
        "kind": [ref.jobs[x]["kind"] for x in names],
        "prio": [ref.jobs[x].get("prio", 32) for x in names],
        "init": [idx[x] for x in names if ref.jobs[x]["creator"] is None],
        "also": [[idx[a] for a in ref.jobs[x]["also"]] for x in names],
        "read": [access_to_tla(ref.jobs[x]["read"], idx) for x in names],
        "creates": [[idx[c] for c in ref.creates.get(x, [])] for x in names],
        "skips": [[idx[c] for c in ref.skipbe.get(x, [])] for x in names],
        "rewrites": [[{"id": idx[j], "read": access_to_tla(r, idx),
                       "must": not j.startswith("Be(GlyfFragment(")}
                      for (j, r) in ref.rewrites.get(x, [])] for x in names],
        "before": [sorted(idx[b] for b in before[x]) for x in names],
        "fails": [idx[x] for x in fails],
        "panics": [idx[x] for x in panics],
    }
    return gj, problems


def from_trace_files(ref_path, other_paths=()):
    ref = tracelib.Graph(tracelib.load(ref_path))
    others = [tracelib.Graph(tracelib.load(p)) for p in other_paths]
    for e in ref.evs:
        if e["ev"] == "Insert" and "prio" in e:
            ref.jobs[e["id"]]["prio"] = e["prio"]
    return build(ref, others)


if __name__ == "__main__":
    import sys
    gj, problems = from_trace_files(sys.argv[1], sys.argv[3:])
    json.dump(gj, open(sys.argv[2], "w"))
    print("n=%d problems=%s" % (gj["n"], problems))


SCHED_EVENTS = {"Launch", "JobStart", "JobAborted", "JobEnd", "Dec", "Recv", "HandleSuccess", "CompleteOne",
                "Unable", "ScopeDone", "ExecReturn"}


def scheduler_trace(g, gj):
    """Reduce a recorded build to the events WorkloadTrace.tla consumes, with integer ids."""
    idx = {n: i + 1 for i, n in enumerate(gj["names"])}
    out = []
    for e in g.evs:
        if e["ev"] not in SCHED_EVENTS:
            continue
        r = {"ev": e["ev"]}
        if "id" in e:
            if e["id"] not in idx:
                r["id"] = 0
            else:
                r["id"] = idx[e["id"]]
        if "ok" in e:
            r["ok"] = e["ok"]
        out.append(r)
    return out


def write_ndjson(path, recs):
    with open(path, "w") as f:
        for r in recs:
            f.write(json.dumps(r) + "\n")


def dependency_edges(gj):
    """i -> set of ids i waits for, directly: declared accesses (initial and every rewrite),
    creators, rewriters, owners of also-completes, and observed conflict predecessors."""
    n = gj["n"]
    by_disc = {}
    for i in range(1, n + 1):
        by_disc.setdefault(gj["disc"][i - 1], set()).add(i)
    owner = {}
    for i in range(1, n + 1):
        for a in gj["also"][i - 1]:
            owner[a] = i
    deps = {i: set() for i in range(1, n + 1)}

    def add_access(i, acc):
        for d in acc["vs"]:
            deps[i] |= by_disc.get(d, set())
        deps[i] |= set(acc["ss"])

    for i in range(1, n + 1):
        add_access(i, gj["read"][i - 1])
        deps[i] |= set(gj["before"][i - 1])
        for c in gj["creates"][i - 1]:
            deps[c].add(i)
        for s in gj["skips"][i - 1]:
            deps[s].add(i)
        for rw in gj["rewrites"][i - 1]:
            deps[rw["id"]].add(i)
            add_access(rw["id"], rw["read"])
    # an also-complete id stands for its owner
    for i in range(1, n + 1):
        deps[i] = {owner.get(d, d) for d in deps[i]} | ({owner[i]} if i in owner else set())
        deps[i].discard(i)
    return deps, owner


def closure(gj, target, deps=None):
    if deps is None:
        deps, _ = dependency_edges(gj)
    seen = {target}
    todo = [target]
    while todo:
        x = todo.pop()
        for d in deps[x]:
            if d not in seen:
                seen.add(d)
                todo.append(d)
    # keep also-completes of everything kept
    for i in list(seen):
        seen |= set(gj["also"][i - 1])
    return seen


def slice_graph(gj, keep):
    """Sub-graph on an ancestor-closed id set `keep` (re-indexed)."""
    keep = sorted(keep)
    new = {old: k + 1 for k, old in enumerate(keep)}

    def acc(a):
        return {"k": a["k"], "vs": a["vs"], "ss": [new[s] for s in a["ss"] if s in new]}

    def ids(xs):
        return [new[x] for x in xs if x in new]

    out = {"n": len(keep)}
    out["names"] = [gj["names"][i - 1] for i in keep]
    for k in ("disc", "kind", "prio"):
        out[k] = [gj[k][i - 1] for i in keep]
    out["init"] = ids(gj["init"])
    for k in ("also", "creates", "skips", "before"):
        out[k] = [ids(gj[k][i - 1]) for i in keep]
    out["read"] = [acc(gj["read"][i - 1]) for i in keep]
    out["rewrites"] = [[{"id": new[r["id"]], "read": acc(r["read"]), "must": r["must"]}
                        for r in gj["rewrites"][i - 1] if r["id"] in new] for i in keep]
    if "nitems" in gj:
        out["nitems"] = gj["nitems"]
        out["items"] = gj["items"]
        out["writes"] = [gj["writes"][i - 1] for i in keep]
        rd, rf = [], []
        for i in keep:
            r2, f2 = [], []
            for x, w in zip(gj["reads"][i - 1], gj["canonrf"][i - 1]):
                if w == 0 or w in new:  # the slice is ancestor-closed, so canonical writers are in it
                    r2.append(x)
                    f2.append(new.get(w, 0))
            rd.append(r2)
            rf.append(f2)
        out["reads"] = rd
        out["canonrf"] = rf
    out["fails"] = ids(gj.get("fails", []))
    out["panics"] = ids(gj.get("panics", []))
    return out


def slices(gj, max_real, keep_nested=False):
    """Distinct ancestor-closed slices with at most max_real executing jobs, largest first.
    keep_nested: also return slices contained in a larger returned slice."""
    deps, _ = dependency_edges(gj)
    seen = {}
    for t in range(1, gj["n"] + 1):
        if gj["kind"][t - 1] == "also":
            continue
        c = frozenset(closure(gj, t, deps))
        real = sum(1 for i in c if gj["kind"][i - 1] != "also")
        if 2 <= real <= max_real:
            seen[c] = (real, gj["names"][t - 1])
    # drop slices contained in another kept slice
    keys = sorted(seen, key=lambda c: -len(c))
    out = []
    for c in keys:
        if keep_nested or not any(c < o for o, _, _ in out):
            out.append((c, seen[c][0], seen[c][1]))
    return out


def context_log(g, gj):
    """Reduce a recorded build to the events spec/Context.tla consumes."""
    jidx = {n: i + 1 for i, n in enumerate(gj["names"])}
    iidx = {n: i + 1 for i, n in enumerate(gj["items"])}
    out = []
    for e in g.evs:
        ev = e["ev"]
        if ev in ("JobStart", "JobEnd"):
            if e["id"] in jidx:
                out.append({"ev": ev, "job": jidx[e["id"]]})
        elif ev in ("Read", "Write", "DiskRead"):
            it = iidx.get(tracelib.norm_item(e["item"]))
            if it is None:
                continue
            r = {"ev": ev, "job": jidx.get(e["job"], 0), "item": it}
            if ev == "Read":
                r["present"] = bool(e["present"])
            elif ev == "Write":
                r["changed"] = bool(e["changed"])
                r["persisted"] = bool(e.get("persisted"))
            out.append(r)
    return out
