"""C08 Axis ranges and user/design/normalized mapping survive into fvar and avar.

Decided by spec/Coords.tla (exact rationals, spec/RationalC.tla):
 (M) TLC checks the property on the spec for every enumerated axis definition (fvar = user bounds; avar has
     -1:-1, 0:0, 1:1 and is non-decreasing; avar(fvar-normalise(u)) = design-normalise(user-to-design(u)) exactly
     for the unrounded map and within 2^-14*(1+maxSlope) once everything is F2Dot14; instances in range; the
     order of <map> entries is irrelevant);
 (R) every enumerated case + the spec's expected observation is replayed into the real code by `vh coords`:
     the public fontdrasil API (every case, every listed order of the map entries) and a full compile
     (generate_font) of a generated designspace whose fvar/avar are read back and evaluated by the harness's
     own avar implementation;
 (O) the axes of the repository's .designspace fixtures go through the same spec (Source = "file") and the
     fixture itself is compiled; .glyphs fixtures get the structural part (required maps, monotone, ranges).

PROPERTY-LEVEL (violation): fvar bounds != user bounds; avar missing -1/0/1 or decreasing; either route differs
from the spec's normalized value by more than the spec's tolerance at any u; instance coordinate out of range;
panic/error on a valid axis definition.
INTERNAL (drift): node list / avar segment list / design values / instance coordinates / float noise differ from
the transcription while the routes still agree.
"""
import json, os, re, glob
from fractions import Fraction as F
import xml.etree.ElementTree as ET
import common

UNIT = 16384
FIXED = 65536
FLOAT_EPS = 1e-9


def fr(p):
    return F(p[0], p[1])


def fl(p):
    return p[0] / p[1]


# ----------------------------------------------------------------------------- requests


def orders_of(m):
    """The orders in which a source may list the same map entries (as in Coords.tla Orders)."""
    out = [("sorted", m)]
    if len(m) > 1:
        for name, o in (("reversed", m[::-1]), ("rotated", m[1:] + m[:1]), ("swapped", [m[1], m[0]] + m[2:])):
            if all(o != p for _, p in out):
                out.append((name, o))
    return out


def request(exp, order_name, m, api, compile_, workdir, src="", tag=""):
    cs = exp["case"]
    return {"id": [exp["id"], order_name], "mapped": cs["mapped"], "amin": fl(cs["amin"]), "adef": fl(cs["adef"]),
            "amax": fl(cs["amax"]), "map": [[fl(u), fl(d)] for u, d in m], "grid": [fl(u) for u in cs["grid"]],
            "inst": [fl(d) for d in cs["inst"]], "api": api, "compile": compile_, "dir": workdir, "threads": 1,
            "src": src, "tag": tag}


# ----------------------------------------------------------------------------- comparison


class Judge:
    def __init__(self, ctx):
        self.ctx = ctx
        self.n_api = 0
        self.n_font = 0
        self.n_eval = 0
        self.max_err_units = F(0)
        self.max_err_ratio = F(0)
        self.drifts = {}

    def drift(self, kind, what):
        self.drifts[kind] = self.drifts.get(kind, 0) + 1
        if self.drifts[kind] <= 2:
            self.ctx.drift("Coords", "%s: %s" % (kind, what))

    def violation(self, kind, exp, req, res, what):
        self.n_viol = getattr(self, "n_viol", 0) + 1
        self.viol_kinds = getattr(self, "viol_kinds", {})
        self.viol_kinds[kind] = self.viol_kinds.get(kind, 0) + 1
        if self.n_viol > 60:
            return                      # enough replay files; the count is still reported
        cid = json.dumps(exp["id"])
        self.ctx.violation("%s:%s:%s" % (kind, cid, req["id"][1]),
                           "%s; axis min/default/max=%s/%s/%s map(user,design)=%s" %
                           (what, req["amin"], req["adef"], req["amax"], req["map"] if req["mapped"] else "none"),
                           {"exp": exp, "req": req, "res": res})

    # -- the public API route
    def api(self, exp, req, res, exact=True):
        a = res.get("api") or {}
        if a.get("outcome") == "skipped":
            return
        self.n_api += 1
        if a.get("outcome") != "ok":
            self.violation("api-" + str(a.get("outcome")), exp, req, res,
                           "CoordConverter on a valid axis definition: %s %s" % (a.get("outcome"), a.get("message")))
            return
        tol = fr(exp["tolU"]) / UNIT
        tolf = float(tol)
        grid = exp["case"]["grid"]
        for i, u in enumerate(grid):
            self.n_eval += 1
            wn, wd = exp["norm"][i]
            got = a["norm"][i]
            if got is None or got != got or abs(got) == float("inf") or a["design"][i] is None \
                    or a["dnorm"][i] is None or a["norm_to_design"][i] is None:
                self.violation("api-route", exp, req, res,
                               "user %s: CoordConverter gives a non-finite value (design %r, normalized %r)" %
                               (fl(u), a["design"][i], got))
                return
            err = abs(got - wn / wd)            # float; its own error (~1e-16) is far below the margin used
            if not err <= tolf - 1e-12:
                exact_err = abs(F(got) - F(wn, wd))     # borderline or beyond: decide exactly
                if exact_err > tol:
                    self.violation("api-route", exp, req, res,
                                   "user %s: CoordConverter user->design->normalized = %r, the source's mapping "
                                   "gives %s (|diff| %.3g > tolerance %.3g)" %
                                   (fl(u), got, F(wn, wd), float(exact_err), tolf))
                    return
            if exact and err > FLOAT_EPS:
                self.drift("api-float", "user %s normalized %r vs exact %s" % (fl(u), got, F(wn, wd)))
            if exact and abs(a["design"][i] - fl(exp["design"][i])) > FLOAT_EPS:
                self.drift("api-design", "case %s user %s design %r vs spec %s" %
                           (exp["id"], fl(u), a["design"][i], fl(exp["design"][i])))
            if exact and abs(a["dnorm"][i] - fl(exp["dnorm"][i])) > FLOAT_EPS:
                self.drift("api-default-normalization", "case %s user %s %r vs spec %s" %
                           (exp["id"], fl(u), a["dnorm"][i], fl(exp["dnorm"][i])))
            if exact and abs(a["norm_to_design"][i] - fl(exp["back"][i])) > 1e-6:
                self.drift("api-norm-to-design", "case %s user %s: normalized->design %r, spec %s" %
                           (exp["id"], fl(u), a["norm_to_design"][i], fl(exp["back"][i])))
        lo, hi = req["amin"], req["amax"]
        for i, got in enumerate(a["inst_user"]):
            # FLOAT_EPS: f64 noise only; a named-instance coordinate is stored as 16.16 (resolution 1.5e-5)
            if got is None or not (lo - FLOAT_EPS <= got <= hi + FLOAT_EPS):
                self.violation("api-instance-range", exp, req, res,
                               "instance at design %s converts to user %r outside [%s, %s]" %
                               (req["inst"][i], got, lo, hi))
                return
            if exact and abs(got - fl(exp["instUser"][i])) > FLOAT_EPS:
                self.drift("api-design-to-user", "case %s design %s -> user %r, spec %s" %
                           (exp["id"], req["inst"][i], got, fl(exp["instUser"][i])))
        if exact:
            want_nodes = [[fl(a_) for a_ in n] for n in exp["nodes"]]
            if len(want_nodes) != len(a["nodes"]) or any(
                    abs(x - y) > FLOAT_EPS for wn, gn in zip(want_nodes, a["nodes"]) for x, y in zip(wn, gn)):
                self.drift("api-nodes", "case %s order %s: iter() = %s, spec %s" %
                           (exp["id"], req["id"][1], a["nodes"], want_nodes))

    # -- structural checks on every axis of a compiled font
    def structure(self, exp, req, res, axis):
        """axis: {tag, fvar:[min,def,max], avar:[[from,to]..]|None, instances:[..]}; True if fine."""
        ok = True
        fmin, fdef, fmax = axis["fvar"]
        if not (fmin <= fdef <= fmax):
            self.violation("fvar-order", exp, req, res, "axis %s: fvar min/default/max %s/%s/%s not ordered" %
                           (axis["tag"], fmin / FIXED, fdef / FIXED, fmax / FIXED))
            ok = False
        seg = axis.get("avar")
        if seg is not None and len(seg) > 0:
            for need in ([-UNIT, -UNIT], [0, 0], [UNIT, UNIT]):
                if need not in seg:
                    self.violation("avar-required", exp, req, res,
                                   "axis %s: avar segment map %s lacks %s:%s" %
                                   (axis["tag"], [[a / UNIT, b / UNIT] for a, b in seg], need[0] // UNIT, need[1] // UNIT))
                    ok = False
                    break
            for p, q in zip(seg, seg[1:]):
                if q[0] < p[0] or q[1] < p[1]:
                    self.violation("avar-decreasing", exp, req, res,
                                   "axis %s: avar segment map decreases: %s" %
                                   (axis["tag"], [[a / UNIT, b / UNIT] for a, b in seg]))
                    ok = False
                    break
        for i, cval in enumerate(axis.get("instances") or []):
            if cval is None or not (fmin <= cval <= fmax):
                self.violation("instance-range", exp, req, res,
                               "axis %s: named instance %d coordinate %s outside fvar range [%s, %s]" %
                               (axis["tag"], i, None if cval is None else cval / FIXED, fmin / FIXED, fmax / FIXED))
                ok = False
                break
        return ok

    # -- the compiled-font route
    def font(self, exp, req, res, exact=True, fixture=None, check_instances=True):
        f = res.get("font") or {}
        out = f.get("outcome")
        if out != "ok":
            if fixture is not None and out == "error":
                return "error"          # fixtures may fail for unrelated reasons; the caller records it
            self.violation("compile-" + str(out), exp, req, res,
                           "compile of a valid axis definition: %s %s" % (out, (f.get("message") or "")[:300]))
            return out
        self.n_font += 1
        if exp.get("point"):
            if f.get("has_axis"):
                self.drift("point-axis", "case %s: a min=default=max axis has an fvar record" % (exp["id"],))
            return "ok"
        if not f.get("has_fvar") or not f.get("has_axis"):
            self.violation("fvar-missing", exp, req, res, "the compiled font has no fvar record for the axis")
            return "ok"
        want_fv = exp["fvarFixed"]
        if f["fvar"] != want_fv:
            self.violation("fvar-bounds", exp, req, res,
                           "fvar min/default/max = %s, the source's user bounds are %s" %
                           ([v / FIXED for v in f["fvar"]], [v / FIXED for v in want_fv]))
            return "ok"
        me = [a for a in f["all_axes"] if a["index"] == f["axis_index"]][0]
        if not check_instances:
            me = dict(me, instances=[])
        if not self.structure(exp, req, res, me):
            return "ok"
        lo, hi = fr(exp["case"]["amin"]) * FIXED, fr(exp["case"]["amax"]) * FIXED
        for i, cval in enumerate(f["instances"] if check_instances else []):
            if not (lo <= cval <= hi):
                self.violation("instance-range", exp, req, res,
                               "named instance at design %s has fvar coordinate %s outside the axis range" %
                               (req["inst"][i] if i < len(req["inst"]) else "?", cval / FIXED))
                return "ok"
        if not f.get("covered", True):
            self.violation("avar-coverage", exp, req, res, "avar segment map does not cover [-1, 1]: %s" % f["avar"])
            return "ok"
        tn, td = exp["tolU"]
        worst = None
        for i, u in enumerate(exp["case"]["grid"]):
            self.n_eval += 1
            wn, wd = exp["norm"][i]
            gn, gd = f["norm_units"][i]
            # |gn/gd - UNIT*wn/wd| <= tn/td  with integers only
            num = abs(gn * wd - UNIT * wn * gd)
            den = gd * wd
            if num * td > tn * den:
                got, want, err = F(gn, gd), F(wn, wd) * UNIT, F(num, den)
                self.violation("font-route", exp, req, res,
                               "user %s: fvar+avar of the compiled font give %.6f, the source's mapping gives %.6f "
                               "(|diff| %.3f F2Dot14 units > tolerance %.3f); avar=%s" %
                               (fl(u), float(got / UNIT), float(want / UNIT), float(err), tn / td,
                                None if f["avar"] is None else [[a / UNIT, b / UNIT] for a, b in f["avar"]]))
                return "ok"
            if worst is None or num * worst[1] > worst[0] * den:
                worst = (num, den)
        if worst is not None:
            err = F(worst[0], worst[1])
            if err > self.max_err_units:
                self.max_err_units = err
            if err * td / tn > self.max_err_ratio:
                self.max_err_ratio = err * td / tn
        # internal: segment list and instance coordinates as transcribed
        want_seg = exp["avarU"]
        got_seg = f["avar"]
        if got_seg is None:
            if not exp["identity"] and fixture is None:
                self.drift("avar-absent", "case %s: no avar for this axis, spec expects %s" % (exp["id"], want_seg))
        elif exact and got_seg != want_seg:
            self.drift("avar-segments", "case %s: font %s, spec %s" % (exp["id"], got_seg, want_seg))
        elif not exact and (len(got_seg) != len(want_seg) or
                            any(abs(a - b) > 1 for p, q in zip(got_seg, want_seg) for a, b in zip(p, q))):
            self.drift("avar-segments", "case %s: font %s, spec %s" % (exp["id"], got_seg, want_seg))
        if len(f["instances"]) == len(exp["instUser"]):
            for i, cval in enumerate(f["instances"]):
                if abs(F(cval, FIXED) - fr(exp["instUser"][i])) > F(1, FIXED):
                    self.drift("instance-coordinate", "case %s: instance at design %s has user %s, spec %s" %
                               (exp["id"], fl(exp["case"]["inst"][i]), cval / FIXED, fl(exp["instUser"][i])))
        return "ok"


class _Sink:
    """A stand-in for ctx used by the binding self-test: records instead of reporting."""

    def __init__(self):
        self.hits = []

    def violation(self, signature, what, replay_obj):
        self.hits.append(signature)

    def drift(self, module, what):
        pass


def binding_selftest(kept):
    """Flip one expected value of a replayed case (by twice the tolerance) and one observed fvar bound: the
    judge must reject both, otherwise the comparison is not live."""
    exp, req, res = kept
    bad = json.loads(json.dumps(exp))
    k = len(bad["norm"]) // 2
    shifted = fr(bad["norm"][k]) + 2 * fr(bad["tolU"]) / UNIT
    bad["norm"][k] = [shifted.numerator, shifted.denominator]
    j1 = Judge(_Sink())
    j1.font(bad, req, res)
    j2 = Judge(_Sink())
    j2.api(bad, req, res)
    res2 = json.loads(json.dumps(res))
    res2["font"]["fvar"][2] += 1
    j3 = Judge(_Sink())
    j3.font(exp, req, res2)
    if not (j1.ctx.hits and j2.ctx.hits and j3.ctx.hits):
        raise common.ToolError("binding self-test failed: a corrupted expectation/observation was accepted (%s %s %s)" %
                               (j1.ctx.hits, j2.ctx.hits, j3.ctx.hits))


# ----------------------------------------------------------------------------- TLC


def tlc_cases(ctx, cfg, workers, timeout, env=None):
    r = common.run_tlc(ctx, "Coords", cfg, workers=workers, timeout=timeout, env=env)
    if r.timed_out:
        raise common.ToolError("TLC timed out on %s" % cfg)
    if r.violated:
        raise common.ToolError("design-level check failed: invariant %s of Coords.tla is violated on %s "
                               "(the property does not hold on the specification itself; see %s/tlc.out)\n%s" %
                               (r.violated, cfg, r.meta, common.tlc_trace_text(r.out, 30)))
    if r.error or not r.complete:
        raise common.ToolError("TLC failed on %s: %s (see %s/tlc.out)" % (cfg, r.error, r.meta))
    cases = common.replay_lines(r.out)
    common.log("%s: %d cases from TLC in %.0fs" % (cfg, len(cases), r.wall))
    return cases, r


# ----------------------------------------------------------------------------- fixtures


def dec(s):
    return F(s.strip())


def designspace_cases(path, rel, grid_n):
    """One case per axis of a .designspace fixture: the axis definition exactly as the XML states it."""
    root = ET.parse(path).getroot()
    cases = []
    insts = root.findall("./instances/instance")
    for ax in root.findall("./axes/axis"):
        if ax.get("minimum") is None or ax.get("maximum") is None or ax.get("default") is None:
            continue                    # discrete axes (values=) are not ranges
        amin, adef, amax = dec(ax.get("minimum")), dec(ax.get("default")), dec(ax.get("maximum"))
        maps = [(dec(m.get("input")), dec(m.get("output"))) for m in ax.findall("map")]
        name = ax.get("name")
        inst = []
        for ins in insts:
            for dim in ins.findall("./location/dimension"):
                if dim.get("name") == name and dim.get("xvalue") is not None:
                    inst.append(dec(dim.get("xvalue")))
        # a named instance placed outside the axis's design range is a source error, not this property's business
        dlo, dhi = (min(d for _, d in maps), max(d for _, d in maps)) if maps else (amin, amax)
        inst_complete = all(dlo <= d <= dhi for d in inst)
        inst = [d for d in inst if dlo <= d <= dhi]
        grid = sorted(set([amin + (amax - amin) * F(k, grid_n) for k in range(grid_n + 1)] + [adef] +
                          [u for u, _ in maps if amin <= u <= amax]))
        q = lambda v: [v.numerator, v.denominator]
        cases.append({"id": ["fixture", rel, ax.get("tag")], "glyphs": False, "mapped": bool(maps), "amin": q(amin),
                      "adef": q(adef), "amax": q(amax), "map": [[q(u), q(d)] for u, d in maps], "mvals": [],
                      "defm": 0, "grid": [q(u) for u in grid], "inst": [q(d) for d in inst],
                      "inst_complete": inst_complete})
    return cases


def valid_py(cs):
    """Coords.tla Valid, for deciding which fixture axes are in the property's domain (TLC reports it too)."""
    amin, adef, amax = fr(cs["amin"]), fr(cs["adef"]), fr(cs["amax"])
    if not (amin <= adef <= amax):
        return False
    if not cs["mapped"]:
        return True
    m = [(fr(u), fr(d)) for u, d in cs["map"]]
    us = [u for u, _ in m]
    if len(set(us)) != len(us) or any(not (amin <= u <= amax) for u in us):
        return False
    if any(u1 < u2 and d1 > d2 for u1, d1 in m for u2, d2 in m):
        return False
    if any(v not in us for v in (amin, adef, amax)):
        return False
    out = dict(m)
    return (amin < adef) == (out[amin] < out[adef]) and (adef < amax) == (out[adef] < out[amax])


# ----------------------------------------------------------------------------- main


def main(ctx):
    common.build_harness()
    ev = ctx.ev
    judge = Judge(ctx)
    workdir = ctx.path("gen", "x")[:-2]
    ev.rule = ("cases = every valid axis definition enumerated by TLC from Coords*.cfg plus the fixture axes; "
               "evaluations = (route, case, user coordinate) comparisons against the spec's expected normalized "
               "value; a case is non-trivial when its avar segment map is not the identity (the axis map bends the "
               "default normalisation), at least one evaluated user coordinate is not a mapping node, and it "
               "went through the full compile")

    if ctx.replay:
        rp = json.load(open(ctx.replay))["replay"]
        exp, req = rp["exp"], rp["req"]
        req["dir"] = workdir
        res = common.vh_batch([req], procs=1, module="coords")[0]
        if req.get("api"):
            judge.api(exp, req, res, exact=exp["id"][0] != "fixture")
        if req.get("compile"):
            judge.font(exp, req, res, exact=exp["id"][0] != "fixture",
                       fixture=(exp["id"][1] if exp["id"][0] == "fixture" else None))
        ev.traces = 1
        ev.evaluations = judge.n_eval
        return

    # ---- fixture axis statements (needed before TLC: they ride in the same run)
    skipped = []
    fcases, gfiles = collect_fixture_cases(ctx)
    fpath = ctx.path("fixtures", "cases.ndjson")
    with open(fpath, "w") as f:
        for cs in fcases:
            f.write(json.dumps(cs) + "\n")

    # ---- (M) + generator
    main_cfg = "CoordsQuick.cfg" if ctx.quick else "CoordsThorough.cfg"
    try:
        cases, r1 = tlc_cases(ctx, main_cfg, 4, 900 if ctx.quick else 3000, env={"C08_CASES": fpath})
        fexps = [c for c in cases if c["id"][0] == "fixture"]
        cases = [c for c in cases if c["id"][0] != "fixture"]
    except common.ToolError as ex:
        if "verflow" not in str(ex):
            raise
        # some fixture does not fit 32-bit arithmetic: generator alone, then the fixtures one by one
        common.log("combined TLC run failed on a fixture (%s); separating" % str(ex)[:160])
        empty = ctx.path("fixtures", "empty.ndjson")
        open(empty, "w").close()
        cases, r1 = tlc_cases(ctx, main_cfg, 4, 900 if ctx.quick else 3000, env={"C08_CASES": empty})
        fexps = run_file_cases(ctx, fcases, skipped)
    if ctx.quick:
        max_compiles = 1000
    else:
        c5, r5 = tlc_cases(ctx, "CoordsThorough5.cfg", 4, 1800)
        cases += c5
        max_compiles = 8000
    n_cases = len(cases)
    ev.exhaustive = True
    bad = [c for c in cases if not c.get("valid") or not c.get("ok")]
    if bad:
        raise common.ToolError("generator emitted a case outside the domain: %s" % bad[0]["id"])

    # ---- (R) requests: API for every order; compile for a seeded subset, one order each
    compilable = [i for i, c in enumerate(cases) if not c["point"]]
    ctx.rng.shuffle(compilable)
    chosen = set(compilable[:max_compiles])
    common.log("replaying %d cases (%d with a full compile) into vh coords" % (len(cases), len(chosen)))
    n_compiled = 0
    n_requests = 0
    shapes = {}
    kept = None
    CHUNK = 4000
    for c0 in range(0, len(cases), CHUNK):
        reqs, owner = [], []
        for i in range(c0, min(c0 + CHUNK, len(cases))):
            exp = cases[i]
            orders = orders_of(exp["case"]["map"])
            if not ctx.quick and len(orders) > 2:
                # thorough: the sorted listing and one other (seeded) per case; quick replays all of them
                orders = [orders[0], orders[1 + ctx.rng.randrange(len(orders) - 1)]]
            pick = ctx.rng.randrange(len(orders)) if i in chosen else -1
            for k, (oname, o) in enumerate(orders):
                reqs.append(request(exp, oname, o, True, k == pick, workdir))
                owner.append(i)
        n_requests += len(reqs)
        results = common.vh_batch(reqs, procs=8, module="coords", timeout=2400)
        for req, res, i in zip(reqs, results, owner):
            exp = cases[i]
            if res is None or res.get("outcome") == "crash":
                judge.violation("crash", exp, req, res, "vh coords died on this case: %s" % (res or {}).get("message"))
                continue
            judge.api(exp, req, res)
            if req["compile"]:
                n_compiled += 1
                judge.font(exp, req, res)
                nodes_u = [n[0] for n in exp["nodes"]]
                offnode = any(u not in nodes_u for u in exp["case"]["grid"])
                if not exp["identity"] and offnode and (res.get("font") or {}).get("outcome") == "ok":
                    ev.nontrivial_add(json.dumps(exp["id"]))
                if kept is None and not exp["identity"] and (res.get("font") or {}).get("outcome") == "ok" \
                        and (res.get("api") or {}).get("outcome") == "ok" and not ctx.violations:
                    kept = (exp, req, res)
                if not exp["identity"] and len(exp["nodes"]) >= 3:
                    ev.sample({"axis": {k: exp["case"][k] for k in ("amin", "adef", "amax", "map")},
                               "order": req["id"][1], "fvar": (res.get("font") or {}).get("fvar"),
                               "avar": (res.get("font") or {}).get("avar"), "spec_avar": exp["avarU"],
                               "tolerance_units": exp["tolU"]}, limit=4)
            if req["id"][1] == "sorted":
                cs = exp["case"]
                k = ("%d points" % len(cs["map"]) if cs["mapped"] else "no map",
                     "point" if cs["amin"] == cs["amax"] else
                     "one-sided" if cs["adef"] in (cs["amin"], cs["amax"]) else "two-sided",
                     "flat" if any(a[1] == b[1] for a, b in zip(exp["nodes"], exp["nodes"][1:])) else "strict")
                shapes[k] = shapes.get(k, 0) + 1
        for i in range(c0, min(c0 + CHUNK, len(cases))):
            cases[i] = None                      # free the expectations that have been judged
        common.log("  %d/%d cases replayed" % (min(c0 + CHUNK, len(cases)), len(cases)))
    ev.extra["replay_requests"] = n_requests
    if kept is not None:
        binding_selftest(kept)
        ev.extra["binding_selftest"] = "corrupted expected normalized value and corrupted fvar bound both rejected"
    ev.extra["case_shapes"] = {"%s/%s/%s" % k: v for k, v in sorted(shapes.items())}
    ev.extra["generated_cases"] = n_cases
    ev.extra["generated_compiles"] = n_compiled

    # ---- (O) fixtures
    fixture_part(ctx, judge, workdir, fcases, fexps, gfiles, skipped)

    ev.traces = judge.n_api + judge.n_font
    ev.evaluations = judge.n_eval
    ev.extra["api_calls_checked"] = judge.n_api
    ev.extra["fonts_checked"] = judge.n_font
    ev.extra["max_font_route_error_units"] = float(judge.max_err_units)
    ev.extra["max_font_route_error_over_tolerance"] = float(judge.max_err_ratio)
    ev.extra["drift_counts"] = judge.drifts
    if getattr(judge, "n_viol", 0):
        ev.extra["violation_counts"] = judge.viol_kinds
        common.log("violations by kind: %s" % judge.viol_kinds)
    ev.assumptions += [
        "valid axis definition = Coords.tla Valid: distinct inputs within [min,max] that include min, default and max; "
        "outputs non-decreasing; design min<default iff user min<default, likewise for max",
        "tolerance = 2^-14 * (1 + steepest slope of the exact avar map), derived in Coords.tla (TolUnits) and checked by "
        "TLC against a quantised model of the font (TwoRoutesQuantised)",
        "trusted: read-fonts parsing of fvar/avar; the harness's integer avar evaluator; TLC",
        "all generated coordinates are dyadic so f64 and Fixed 16.16 hold them exactly",
    ]
    common.log("api calls %d, fonts %d, evaluations %d, worst font-route error %.3f units (%.0f%% of tolerance)" %
               (judge.n_api, judge.n_font, judge.n_eval, float(judge.max_err_units), 100 * float(judge.max_err_ratio)))


def q_(v):
    return [v.numerator, v.denominator]


def glyphs_cases(ctx, files):
    """One case per axis of a .glyphs fixture, stated the Glyphs way (mapping in list order, master positions,
    default master) exactly as glyphs-reader parses the file; Coords.tla GlyphsCase derives min/default/max."""
    reqs = [{"id": ["glyphs-axes", g], "glyphs_axes": True, "src": os.path.join(common.TESTDATA, g)} for g in files]
    out = []
    for req, res in zip(reqs, common.vh_batch(reqs, procs=4, module="coords", timeout=600)):
        g = (res or {}).get("glyphs") or {}
        if g.get("outcome") != "ok":
            continue
        for ax in g["axes"]:
            if any(v is None for v in ax["masters"]) or not ax["masters"]:
                continue
            mv = [F(str(v)) for v in ax["masters"]]
            m = [(F(str(u)), F(str(d))) for u, d in ax["map"]]
            ddef = mv[g["default_master"]]
            # where to evaluate: the user range the statement implies (the expected values come from TLC)
            if m and any(u != d for u, d in m) and min(mv) != max(mv):
                first = lambda dv: next((u for u, d in m if d == dv), None)
                lo, de, hi = first(min(mv)), first(ddef), first(max(mv))
                if None in (lo, de, hi):
                    continue
            else:
                lo, de, hi = min(mv), ddef, max(mv)
            grid = sorted(set([lo + (hi - lo) * F(k, 32) for k in range(33)] + [de] + [u for u, _ in m if lo <= u <= hi]))
            out.append({"id": ["fixture", req["id"][1], ax["tag"]], "glyphs": True, "mapped": bool(m),
                        "amin": [0, 1], "adef": [0, 1], "amax": [0, 1], "map": [[q_(u), q_(d)] for u, d in m],
                        "mvals": [q_(v) for v in mv], "defm": g["default_master"] + 1,
                        "grid": [q_(u) for u in grid], "inst": []})
    return out


def run_file_cases(ctx, fcases, skipped):
    """Expected values for fixture cases from TLC (CoordsFile.cfg), one fixture axis per run; a fixture whose
    coordinates overflow TLC's 32-bit integers is skipped (and listed)."""
    exps = []
    for n, cs in enumerate(fcases):
        p1 = ctx.path("fixtures", "case%d.ndjson" % n)
        with open(p1, "w") as f:
            f.write(json.dumps(cs) + "\n")
        try:
            e1, _ = tlc_cases(ctx, "CoordsFile.cfg", 1, 300, env={"C08_CASES": p1})
            exps += e1
        except common.ToolError as ex1:
            if "verflow" in str(ex1):
                skipped.append([cs["id"], "TLC 32-bit overflow"])
            else:
                raise
    return exps


def collect_fixture_cases(ctx):
    fcases = []
    for rel in common.fixtures(exts=(".designspace",)):
        try:
            fcases += designspace_cases(os.path.join(common.TESTDATA, rel), rel, 32)
        except Exception as ex:           # not parseable as XML: not a usable fixture
            common.log("fixture %s: cannot extract axes (%s)" % (rel, ex))
    gl = common.fixtures(exts=(".glyphs", ".glyphspackage"))
    prefer = [g for g in gl if re.search(r"(?i)avar|axis|map|opsz", g)]
    rest = [g for g in gl if g not in prefer]
    ctx.rng.shuffle(rest)
    if ctx.quick:
        rest = rest[:25]
    gfiles = prefer + rest
    fcases += glyphs_cases(ctx, gfiles)
    return fcases, gfiles


def fixture_part(ctx, judge, workdir, fcases, exps, gfiles, skipped):
    ev = ctx.ev
    n_ok = 0
    if fcases:
        by_id = {json.dumps(e["id"]): e for e in exps}
        reqs, metas = [], []
        for cs in fcases:
            exp = by_id.get(json.dumps(cs["id"]))
            if exp is None:
                continue
            if not exp.get("ok") or not exp.get("valid"):
                skipped.append([cs["id"], "outside the property's domain (Coords.tla Valid)%s" %
                                ("" if exp.get("ok") else ": " + str(exp.get("why")))])
                continue
            rel = cs["id"][1]
            reqs.append(request(exp, "as-listed", exp["case"]["map"], True, True, workdir,
                                src=os.path.join(common.TESTDATA, rel), tag=cs["id"][2]))
            metas.append((exp, cs))
        results = common.vh_batch(reqs, procs=4, module="coords", timeout=900)
        for req, res, (exp, cs) in zip(reqs, results, metas):
            if res is None or res.get("outcome") == "crash":
                judge.violation("crash", exp, req, res, "vh coords died on fixture %s" % cs["id"][1])
                continue
            judge.api(exp, req, res, exact=False)
            st = judge.font(exp, req, res, exact=False, fixture=cs["id"][1],
                            check_instances=cs.get("inst_complete", True))
            if not cs.get("inst_complete", True):
                skipped.append([cs["id"], "has a named instance outside the design range: instance checks skipped"])
            if st == "error":
                skipped.append([cs["id"], "does not compile: %s" % (res["font"].get("message") or "")[:120]])
            else:
                n_ok += 1
                if not exp["identity"]:
                    ev.nontrivial_add(json.dumps(exp["id"]))
    ev.extra["fixture_axes_checked"] = n_ok
    common.log("fixtures: %d axes (designspace + glyphs) checked against the spec, %d skipped" % (n_ok, len(skipped)))

    # structural part for every axis of every compiled .glyphs fixture, whatever its axis statement
    reqs = [{"id": ["glyphs", g], "api": False, "compile": True, "src": os.path.join(common.TESTDATA, g), "tag": "*",
             "threads": 1, "grid": [], "map": [], "inst": []} for g in gfiles]
    results = common.vh_batch(reqs, procs=4, module="coords", timeout=900)
    n_axes = 0
    for req, res in zip(reqs, results):
        f = (res or {}).get("font") or {}
        if f.get("outcome") != "ok" or not f.get("has_fvar"):
            continue
        for axis in f.get("all_axes") or []:
            n_axes += 1
            exp = {"id": req["id"] + [axis["tag"]], "case": {}}
            rq = dict(req, amin=None, adef=None, amax=None, mapped=False)
            judge.structure(exp, rq, res, axis)
    ev.extra["glyphs_fixture_axes_structurally_checked"] = n_axes
    ev.extra["fixtures_skipped"] = skipped[:60]
    common.log("glyphs fixtures: %d axes structurally checked" % n_axes)
