"""Traced builds of real sources, trace validation and graph model checking (shared by C01/C02/C14/C15)."""
import json, os, concurrent.futures
import common, graphs, tracelib

# Sources for the quick tier: chosen to exercise every dynamic part of the scheduler
# (generated .notdef, composites waiting on GlyphOrder, non-export skips, kerning instance/fragment
# creation, bracket glyphs, colour, vertical metrics, feature includes).
QUICK_SOURCES = [
    ("wght_var.designspace", []),
    ("glyphs3/WghtVar.glyphs", []),
    ("glyphs3/WghtVar_NoExport.glyphs", []),
    ("glyphs3/NestedNoExportComponent.glyphs", ["flatten"]),
    ("glyphs2/Component.glyphs", []),
    ("glyphs3/kerning_ltr_and_rtl.glyphs", []),
    ("PartialKernException.designspace", []),
    ("dspace_rules/Basic.designspace", []),
    ("glyphs3/IntermediateLayer.glyphs", []),
    ("glyphs3/COLRv1-gradient.glyphs", []),
    ("Vertical.ufo", []),
    ("fea_include.designspace", []),
    ("glyphs3/WghtVar.glyphs", ["skip_features"]),   # the nop-job graph
    ("glyphs3/Component.glyphs", ["decompose"]),
]

SCHED_PANICS = ("unable to proceed", "Unable to proceed", "is not available", "Illegal read", "Illegal write",
                "completed but isn't pending", "Multiple completions", "Repeat signals", "has to be pending",
                "No errors but only", "Not all counts", "Missing data, dependency management")


def source_path(rel):
    return os.path.join(common.TESTDATA, rel)


def traced_builds(ctx, sources, configs, procs=6):
    """Build every (source, flags) under every config (threads, jitter seed). Returns
    {key: [run dicts]} with run = {cfg, res, trace(path), font(path)}; the first config is the reference."""
    reqs = []
    meta = []
    for si, (rel, flags) in enumerate(sources):
        for ci, (threads, jitter) in enumerate(configs):
            tag = "%d_%d" % (si, ci)
            tr = ctx.path("traces", tag + ".ndjson")
            font = ctx.path("fonts", tag + ".ttf")
            reqs.append(dict(tag=tag, src=source_path(rel), out=font, threads=threads, trace=tr, jitter=jitter,
                             flags=[f for f in flags if f != "skip_features"],
                             skip_features="skip_features" in flags))
            meta.append((rel, tuple(flags), (threads, jitter), tr, font))
    # tracing installs a process-global sink: one request at a time per process, several processes
    res = common.vh_batch(reqs, procs=procs)
    out = {}
    for (rel, flags, cfg, tr, font), r in zip(meta, res):
        out.setdefault((rel, flags), []).append(dict(cfg=cfg, res=r or {"outcome": "missing"}, trace=tr, font=font))
    return out


def load_graph(run):
    g = tracelib.Graph(tracelib.load(run["trace"]))
    for e in g.evs:
        if e["ev"] == "Insert" and "prio" in e:
            g.jobs[e["id"]]["prio"] = e["prio"]
    return g


def validate_traces(ctx, jobs, procs=8, timeout=180):
    """jobs: list of (label, graph_json_path, trace_ndjson_path). Returns list of (label, status, detail)
    with status in accepted | invariant:<name> | stuck | tool-error."""
    def one(job):
        label, gpath, tpath = job
        r = common.run_tlc(ctx, "WorkloadTrace", "WorkloadTrace.cfg", workers=1, timeout=timeout, deque=True,
                           xmx="2g", env={"GRAPH": gpath, "TRACE": tpath}, tag="trace")
        if r.violated == "NotAccepted":
            return (label, "accepted", r)
        if r.violated:
            return (label, "invariant:" + r.violated, r)
        if r.error or r.timed_out:
            return (label, "tool-error", r)
        return (label, "stuck", r)

    with concurrent.futures.ThreadPoolExecutor(procs) as ex:
        return list(ex.map(one, jobs))


def stuck_at(r, tpath):
    """(index, event) of the first trace line TLC could not match."""
    import re
    m = re.findall(r'<<"PROGRESS", (\d+), (\d+)>>', r.out)
    if not m:
        return None, None
    k = int(m[-1][0])
    lines = open(tpath).read().splitlines()
    ev = json.loads(lines[k - 1]) if 0 < k <= len(lines) else None
    return k, ev
