"""Traced builds of real sources, trace validation and graph model checking (shared by C01/C02/C14/C15)."""
import json, os, concurrent.futures
import common, graphs, tracelib

# Sources for the quick tier: chosen to exercise every dynamic part of the scheduler
# (generated .notdef, composites waiting on GlyphOrder, non-export skips, kerning instance/fragment
# creation, bracket glyphs, colour, vertical metrics, feature includes).
QUICK_SOURCES = [
    ("wght_var.designspace", []),
    ("glyphs3/WghtVar.glyphs", []),
    ("glyphs3/WghtVar_NoExport.glyphs", []),
    ("glyphs3/NestedNoExportComponent.glyphs", ["flatten"]),
    ("glyphs2/Component.glyphs", []),
    ("glyphs3/kerning_ltr_and_rtl.glyphs", []),
    ("PartialKernException.designspace", []),
    ("dspace_rules/Basic.designspace", []),
    ("dspace_rules/CustomFeatures.designspace", []),   # rules applied to three features at once
    ("glyphs3/IntermediateLayer.glyphs", []),
    ("glyphs3/COLRv1-gradient.glyphs", []),
    ("Vertical.ufo", []),
    ("fea_include.designspace", []),
    ("glyphs3/WghtVar.glyphs", ["skip_features"]),   # the nop-job graph
    ("glyphs3/Component.glyphs", ["decompose"]),
]

SCHED_PANICS = ("unable to proceed", "Unable to proceed", "is not available", "Illegal read", "Illegal write",
                "completed but isn't pending", "Multiple completions", "Repeat signals", "has to be pending",
                "No errors but only", "Not all counts", "Missing data, dependency management")


def source_path(rel):
    """fixture-relative path, or an absolute path (generated sources) as is"""
    return rel if os.path.isabs(rel) else os.path.join(common.TESTDATA, rel)


def traced_builds(ctx, sources, configs, procs=6):
    """Build every (source, flags) under every config (threads, jitter seed). Returns
    {key: [run dicts]} with run = {cfg, res, trace(path), font(path)}; the first config is the reference."""
    reqs = []
    meta = []
    for si, (rel, flags) in enumerate(sources):
        for ci, (threads, jitter) in enumerate(configs):
            tag = "%d_%d" % (si, ci)
            tr = ctx.path("traces", tag + ".ndjson")
            font = ctx.path("fonts", tag + ".ttf")
            reqs.append(dict(tag=tag, src=source_path(rel), out=font, threads=threads, trace=tr, jitter=jitter,
                             flags=[f for f in flags if f != "skip_features" and not f.startswith("!")],
                             no_flags=[f[1:] for f in flags if f.startswith("!")],
                             skip_features="skip_features" in flags))
            meta.append((rel, tuple(flags), (threads, jitter), tr, font))
    # tracing installs a process-global sink: one request at a time per process, several processes
    res = common.vh_batch(reqs, procs=procs)
    out = {}
    for (rel, flags, cfg, tr, font), r in zip(meta, res):
        out.setdefault((rel, flags), []).append(dict(cfg=cfg, res=r or {"outcome": "missing"}, trace=tr, font=font))
    return out


def load_graph(run):
    g = tracelib.Graph(tracelib.load(run["trace"]))
    for e in g.evs:
        if e["ev"] == "Insert" and "prio" in e:
            g.jobs[e["id"]]["prio"] = e["prio"]
    return g


def validate_traces(ctx, jobs, procs=8, timeout=1500):
    """jobs: list of (label, graph_json_path, trace_ndjson_path). Returns list of (label, status, detail)
    with status in accepted | invariant:<name> | stuck | tool-error."""
    def one(job):
        label, gpath, tpath = job
        r = common.run_tlc(ctx, "WorkloadTrace", "WorkloadTrace.cfg", workers=1, timeout=timeout, deque=True,
                           xmx="2g", env={"GRAPH": gpath, "TRACE": tpath}, tag="trace")
        if r.violated == "NotAccepted":
            return (label, "accepted", r)
        if r.violated:
            return (label, "invariant:" + r.violated, r)
        if r.error or r.timed_out:
            return (label, "tool-error", r)
        return (label, "stuck", r)

    with concurrent.futures.ThreadPoolExecutor(procs) as ex:
        return list(ex.map(one, jobs))


def stuck_at(r, tpath):
    """(index, event) of the first trace line TLC could not match."""
    import re
    m = re.findall(r'<<"PROGRESS", (\d+), (\d+)>>', r.out)
    if not m:
        return None, None
    k = int(m[-1][0])
    lines = open(tpath).read().splitlines()
    ev = json.loads(lines[k - 1]) if 0 < k <= len(lines) else None
    return k, ev


def scheduler_minifonts(ctx):
    """Generated sources that exercise data-dependent parts of the job graph which the fixtures do not:
    components that differ between masters, deep nesting through non-exported glyphs, kerning only in a
    non-default master, a mixed glyph that is split, many glyphs. Returns [(label, path, flags)]."""
    import minifont
    out = []

    def emit(name, mf, flag_sets=((),)):
        d = ctx.path("minifonts", name, "x")[:-2]
        p = minifont.materialize(mf, d)
        for fl in flag_sets:
            out.append(("minifont:" + name, p, list(fl)))

    # 1. component present only in the non-default master + nesting
    mf = minifont.template_wght(("a", "b", "c", "d", "e"))
    g = {x["name"]: x for x in mf["glyphs"]}
    g["c"]["layers"]["Regular"] = {"width": 500, "components": [{"base": "a"}]}
    g["c"]["layers"]["Bold"] = {"width": 600, "components": [{"base": "a"}, {"base": "b", "xform": [1, 0, 0, 1, 30, 0]}]}
    g["d"]["layers"]["Regular"] = {"width": 500, "components": [{"base": "c"}]}
    g["d"]["layers"]["Bold"] = {"width": 600, "components": [{"base": "c", "xform": [1, 0, 0, 1, 5, 5]}]}
    g["e"]["layers"]["Regular"] = {"width": 500, "contours": [minifont.square(0, 0, 100, 100)], "components": [{"base": "d"}]}
    g["e"]["layers"]["Bold"] = {"width": 600, "contours": [minifont.square(0, 0, 120, 100)], "components": [{"base": "d"}]}
    emit("varying-components", mf, ((), ("flatten",), ("decompose_transformed",)))
    # 2. non-exported glyphs in the middle of a chain, .notdef non-exported
    mf = minifont.template_wght((".notdef", "a", "b", "c", "d"))
    g = {x["name"]: x for x in mf["glyphs"]}
    for m in ("Regular", "Bold"):
        g["b"]["layers"][m] = {"width": 500, "components": [{"base": "a", "xform": [1, 0, 0, 1, 10, 0]}]}
        g["c"]["layers"][m] = {"width": 500, "components": [{"base": "b", "xform": [-1, 0, 0, 1, 400, 0]}]}
        g["d"]["layers"][m] = {"width": 500, "components": [{"base": "c"}, {"base": "a"}]}
    mf["skip_export"] = ["b", ".notdef"]
    emit("non-export-chain", mf, ((), ("flatten",)))
    # 2b. a source with its own .notdef and mixed contour+component glyphs, also built with prefer-simple-glyphs
    #     off: GlyphOrder then hoists the contours into derived glyphs (barbar.0) whose BE jobs only exist
    #     after its completion message was handled
    mf = minifont.template_wght((".notdef", "bar", "barbar", "plus", "mixed2"))
    g = {x["name"]: x for x in mf["glyphs"]}
    for m in ("Regular", "Bold"):
        g["barbar"]["layers"][m] = {"width": 600, "contours": [minifont.square(300, 0, 360, 700)],
                                    "components": [{"base": "bar"}]}
        g["mixed2"]["layers"][m] = {"width": 700, "contours": [minifont.square(10, 10, 60, 60)],
                                    "components": [{"base": "plus", "xform": [1, 0, 0, 1, 80, 0]}, {"base": "barbar"}]}
    emit("own-notdef-mixed-glyphs", mf, ((), ("!prefer_simple",), ("!prefer_simple", "flatten")))
    # 3. kerning only in the non-default master; groups only in one
    mf = minifont.template_wght(("a", "b", "c"))
    mf["masters"][1]["kerning"] = {"a": {"b": -30}, "public.kern1.x": {"c": 10}}
    mf["masters"][1]["groups"] = {"public.kern1.x": ["b", "c"]}
    emit("kerning-non-default-only", mf)
    # 4. many glyphs, composites over all of them
    names = ["g%02d" % i for i in range(28)]
    mf = minifont.template_wght(tuple(names))
    for i, gl in enumerate(mf["glyphs"]):
        gl["unicodes"] = [0x100 + i]
        if i % 4 == 3:
            for m in ("Regular", "Bold"):
                gl["layers"][m] = {"width": 500, "components": [{"base": names[i - 1]}, {"base": names[i - 3], "xform": [1, 0, 0, 1, 50, 0]}]}
    mf["masters"][0]["kerning"] = {names[0]: {names[1]: -10}}
    mf["masters"][1]["kerning"] = {names[0]: {names[1]: -20}, names[2]: {names[5]: 7}}
    emit("many-glyphs", mf)
    return out
