import json
props=[json.loads(l) for l in open('/verif/properties.jsonl')]
import glob,os
claimed={os.path.basename(f)[:-5]:json.load(open(f)) for f in sorted(glob.glob('/verif/checks/claims.d/C*.json'))}
accepted=set(json.load(open('/verif/checks/accepted.json')))
claimed={k:v for k,v in claimed.items() if k in accepted}
na_reason={}
if os.path.exists('/verif/checks/not_applicable.json'): na_reason=json.load(open('/verif/checks/not_applicable.json'))
checks=[]; na=[]
for p in props:
    pid=p['id']
    if pid in claimed:
        c=claimed[pid]
        checks.append({
          "property_id":pid,
          "quick_cmd":"bin/check %s --tier quick"%pid,
          "thorough_cmd":"bin/check %s --tier thorough"%pid,
          "evidence_file":"/verif/evidence/%s.json"%pid,
          "replay_cmd_template":"bin/check %s --replay {path}"%pid,
          "engine":"tlc+vh",
          "level_claimed":{"category":"model_checking","text":c["text"],"design_ref":c.get("design_ref","DESIGN.md section 6")},
          "level_note":c["note"],
          "technique":c["technique"],
        })
    else:
        na.append({"property_id":pid,"reason":na_reason.get(pid) or "check not built yet in this round; planned per DESIGN.md section 6 (model-based, TLA+), no other technique substituted"})
m={
 "version":1,
 "setup_cmd":"cd /verif/harness && (cargo build --offline -p vh -p fontc --bins --keep-going; test -x target/debug/vh -a -x target/debug/fontc)",
 "hooks":{"guard":"fontc_verif","enable":"RUSTFLAGS --cfg fontc_verif, set by /verif/harness/.cargo/config.toml (the harness workspace builds /repo's crates by path)",
          "baseline_off_cmd":"cd /repo && cargo test --workspace --no-fail-fast --offline",
          "source_commits":json.load(open('/verif/checks/hook_commits.json')),
          "add_only":True},
 "engines":[{"name":"tlc+vh","path":"/verif/bin/check","serves_properties":sorted(claimed.keys()),
             "kind_free_text":"TLA+ specifications under /verif/spec checked with TLC; bound to the code by trace validation (hooks -> ndjson -> *Trace.tla), by replay of TLC-generated cases into the real code through the Rust harness /verif/harness (vh), and by model checking job graphs extracted from real builds"}],
 "checks":checks,
 "not_applicable":na,
 "notes":"See DESIGN.md. Exit codes: 0 held, 1 VIOLATION, 2 TOOL-ERROR."
}
json.dump(m,open('/verif/MANIFEST.json','w'),indent=1)
print(len(checks),'claimed',len(na),'n/a')
