"""C05 Every emitted font is a well-formed, internally consistent OpenType file.

Decided by spec/Sfnt.tla: `Fields(F)` lists the requirements - table directory sorted by tag, header search
fields, offsets 4-byte aligned / inside the file / non-overlapping, zero padding, every table checksum = the
measured word sum, head.checkSumAdjustment = 0xB1B0AFBA - file sum, required tables present (and fvar behind
every variation table, STAT behind fvar, vhea <=> vmtx), numGlyphs agreeing with loca / hmtx / vmtx / post /
gvar, axis counts agreeing with fvar (gvar, avar, STAT, every ItemVariationStore), every glyph id / lookup
index / feature index / name id / region index / delta-set index found anywhere in the font in range, the
component graph acyclic with depth and totals covered by maxp, every table parseable field by field, and the
tables the source unambiguously calls for present (none of the variation tables for a static source).
`vh sfnt` measures (hand-written directory walker, read-fonts generic traversal of every table, typed readers
for cmap / gvar / variation stores); TLC evaluates Sfnt!Fields on every observation (spec/SfntObs.tla).

Fonts validated: checks/fontcorpus.py (the same corpus as C17).

PROPERTY-LEVEL (violation): a level-P requirement fails on a compiled font (signature = requirement:place:font).
INTERNAL (drift): a table the walker does not know (level D), corpus changes.
"""
import json
import common, fontcorpus
from c17 import observe, evaluate


def main(ctx):
    common.build_harness()
    ev = ctx.ev
    ev.rule = ("a validated font is non-trivial when it has layout tables (GSUB/GPOS/GDEF), or variation tables, or "
               "composite glyphs, or COLR (keyed by its sorted table list + glyph count + number of cross-table "
               "references collected)")
    if ctx.replay:
        fonts, stats = fontcorpus.replay_font(ctx), {"replay": 1}
    else:
        fonts, stats = fontcorpus.build(ctx)
    by_id = {f["id"]: f for f in fonts}
    obs = observe(ctx, fonts, "sfnt", {"expect": [], "forbid": []})
    for o in obs:
        o.setdefault("errors", [])
        o.setdefault("unwalked", [])
    common.log("C05: %d fonts measured" % len(obs))
    def corrupt(o):                       # one bit of the first table's checksum
        o["dir"]["recs"][0]["ck"][1] ^= 1
        return "table.checksum"

    fails, checked = evaluate(ctx, "SfntObs", obs, "sfnt_obs", 900 if ctx.quick else 2400, corrupt)
    ev.traces = len(checked)
    ev.evaluations = sum(n for n, _ in checked.values())
    nrefs = 0
    for o in obs:
        if not o.get("readable"):
            continue
        tags = o["tags"]
        refs = (sum(len(u["ids"]) for u in o["gid_uses"]) + sum(len(u["ids"]) for u in o["name_uses"]) +
                sum(len(u["ids"]) for L in o["layout"] for u in L["lookup_uses"] + L["feature_uses"]) +
                sum(len(v["pairs"]) for v in o["varidx"]))
        nrefs += refs
        if (set(tags) & {"GSUB", "GPOS", "GDEF", "fvar", "COLR"}) or any(g["k"] == "c" for g in o["glyphs"]):
            ev.nontrivial_add(json.dumps([sorted(tags), o["counts"]["num_glyphs"], refs]))
    drift_kinds, nviol = {}, 0
    for f in fails:
        font = by_id.get(f["id"], {"id": f["id"], "src": "?", "opts": "?", "kind": "?", "meta": {}})
        where = f["f"] + (" @ %s" % f["at"] if f.get("at") else "")
        what = "%s: found %s, required %s  (font %s, options %s)" % (where, json.dumps(f["s"])[:300],
                                                                    json.dumps(f["d"])[:200], font["src"], font["opts"])
        if f["lvl"] == "P":
            nviol += 1
            if nviol <= 200:
                ctx.violation("%s:%s:%s" % (f["f"], (f.get("at") or "")[:80], f["id"]), what,
                              dict(fontcorpus.replay_obj(font), field=f) if font["src"] != "?" else {"field": f})
        else:
            drift_kinds[f["f"]] = drift_kinds.get(f["f"], 0) + 1
            if drift_kinds[f["f"]] <= 2:
                ctx.drift("Sfnt", what)
    ev.extra["corpus"] = stats
    ev.extra["drift_fields"] = drift_kinds
    ev.extra["failing_property_fields"] = nviol
    ev.extra["cross_table_references_checked"] = nrefs
    ev.extra["table_fields_walked"] = sum(o.get("fields", 0) for o in obs)
    ev.exhaustive = False
    ev.assumptions = [
        "read-fonts decodes the tables correctly (trusted reader); its generic traversal reaches every field except "
        "the device tables nested in PairPosFormat2 class records, which are read with the typed API instead",
        "the sfnt byte layout is produced by write-fonts' FontBuilder (a dependency): its output is checked, not its source",
        "source-derived expectations are stated only where unambiguous: a lone UFO is static, a designspace with a "
        "ranged axis and two distinct source locations is variable (fvar, gvar, HVAR, STAT), generated sources with "
        "kerning / features / vertical metrics must have GPOS / GSUB / vhea+vmtx",
    ]
    for o in obs[:3]:
        ev.sample({"font": o["id"], "requirements_evaluated": checked[o["id"]][0], "tables": o.get("tags")})
    for f in fails[:3]:
        ev.sample({"failing": f})
    common.log("C05: %d fonts validated, %d requirement evaluations, %d cross-table references, "
               "%d property-level failures, drift %s" % (len(checked), ev.evaluations, nrefs, nviol, drift_kinds))


# ---- assembly half (lead-owned add-on): recorded builds replayed through spec/Assembly.tla
_main_structure = main


def main(ctx):  # noqa: F811
    _main_structure(ctx)
    if ctx.replay:
        return
    import assembly
    n_traces, n_eval = ctx.ev.traces, ctx.ev.evaluations
    assembly.check_assembly(ctx)
    common.log("C05 assembly: %d recorded builds replayed through Assembly.tla" % (ctx.ev.traces - n_traces))
