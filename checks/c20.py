"""C20 Same design, same font through every entry point and container.

Decided by spec/Routes.tla:
 (M) RoutesMC.cfg: exhaustive check of the route model (containers x formatting variants x entry points x option
     sets, per design class) — SameFont holds in every reachable state of the *model* (design level).
 (R) RoutesGen*.cfg: TLC enumerates every walk (sequence of Repackage / Reformat / Misname / Compile steps) up
     to a small depth per design class (and longer random walks with -simulate, seeded by VERIF_SEED); each walk is a
     REPLAY line = a schedule of presentations.  This check executes the walks on REAL sources: every presentation
     is materialised under /verif/work/C20 (copy of the fixture, split into a .glyphspackage, wrapped into a
     one-source .designspace, re-formatted by the tiny tolerant re-serialisers below) and compiled by `vh routes`
     through the real CLI binary or the real library entry point.
 (T) RoutesTrace.tla: the recorded observation trace of every executed walk (Present / Compile events with the
     sha256 of the produced bytes) is validated by TLC: accepted iff every event is a step of Routes.tla and the
     invariant SameFont holds in every state.  A rejected trace on a property observable is a VIOLATION.

Property level (=> VIOLATION): two presentations / entry points of the same design with the same options give
different bytes, or one succeeds and the other fails.  The two exceptions are modelled explicitly in Routes.tla
(they come from the property text / the code's documented behaviour, not from making the check pass):
  * a designspace does not inherit `public.*` lib keys of its default master that fontc reads from the
    designspace lib (ufo2fontir/src/source.rs: "if source was a designspace we don't want to copy over keys like
    public.skipExportGlyphs, but we do if it was a UFO") — container "ds" of a UFO design carrying such keys is its
    own equivalence class; container "dslib" (the designspace repeats those keys in its own <lib>) must agree
    with the lone UFO;
  * Glyphs text passed in memory has no directory, so `include(...)` of a file cannot be resolved
    (fontbe/src/features.rs NoIncludePathError "No include path available"): for a design that is not
    self-contained the memory container must FAIL (a silently different font would be a violation).
Internal (=> DRIFT): the `Input` variant chosen by `Input::new` differs from Routes.tla's Dispatch.
"""
import hashlib, json, os, plistlib, random, re, shutil, struct
import xml.etree.ElementTree as ET
import common, minifont

EPOCH = "1700000000"

# =============================================================================================================
# 1. OpenStep ("ASCII") plist text as used by .glyphs: span-preserving tokenizer (mirrors the grammar accepted by
#    glyphs-reader/src/plist.rs: whitespace = SP TAB CR LF; atoms [A-Za-z0-9_$/:.-]+; "strings" with \ escapes;
#    <hex data>; { k = v; } ( a, b )).  Values are never interpreted: every token keeps its source text.
# =============================================================================================================

_OS_ATOM = re.compile(r"[A-Za-z0-9_$/:.\-]+")
_OS_WS = " \t\r\n"


class OsError(Exception):
    pass


def os_tokens(text):
    """[(ws_before, tok)] + trailing ws. tok is the exact source text of the token."""
    toks = []
    i, n = 0, len(text)
    while True:
        j = i
        while j < n and text[j] in _OS_WS:
            j += 1
        ws = text[i:j]
        if j >= n:
            return toks, ws
        c = text[j]
        if c in "{}()=;,":
            k = j + 1
        elif c == '"':
            k = j + 1
            while k < n and text[k] != '"':
                k += 2 if text[k] == "\\" else 1
            if k >= n:
                raise OsError("unclosed string at %d" % j)
            k += 1
        elif c == "<":
            k = text.find(">", j)
            if k < 0:
                raise OsError("unclosed data at %d" % j)
            k += 1
        else:
            m = _OS_ATOM.match(text, j)
            if not m:
                raise OsError("unexpected character %r at %d" % (c, j))
            k = m.end()
        toks.append((ws, text[j:k]))
        i = k


class OsNode:
    """kind: 'dict' (entries = [(key_index, value_node, semi_index)]), 'array' (items = [value_node], closing
    index), 'leaf'. lo..hi = token index range (inclusive) covered by the node."""
    __slots__ = ("kind", "lo", "hi", "entries", "items")

    def __init__(self, kind, lo, hi, entries=None, items=None):
        self.kind, self.lo, self.hi, self.entries, self.items = kind, lo, hi, entries, items


def os_parse(toks, i=0):
    t = toks[i][1]
    if t == "{":
        entries = []
        j = i + 1
        while toks[j][1] != "}":
            key = j
            if toks[key][1] in "{}()=;,":
                raise OsError("bad key %r" % toks[key][1])
            if toks[j + 1][1] != "=":
                raise OsError("expected = after key %r" % toks[key][1])
            val = os_parse(toks, j + 2)
            if toks[val.hi + 1][1] != ";":
                raise OsError("expected ; after value of %r" % toks[key][1])
            entries.append((key, val, val.hi + 1))
            j = val.hi + 2
        return OsNode("dict", i, j, entries=entries)
    if t == "(":
        items = []
        j = i + 1
        while toks[j][1] != ")":
            val = os_parse(toks, j)
            items.append(val)
            j = val.hi + 1
            if toks[j][1] == ",":
                j += 1
            elif toks[j][1] != ")":
                raise OsError("expected , or ) in array")
        return OsNode("array", i, j, items=items)
    if t in "})=;,":
        raise OsError("unexpected %r" % t)
    return OsNode("leaf", i, i)


def os_load(text):
    toks, trail = os_tokens(text)
    try:
        root = os_parse(toks, 0)
    except IndexError:
        raise OsError("unexpected end of text")
    if root.hi != len(toks) - 1:
        raise OsError("trailing tokens")
    return toks, trail, root


def os_text(toks, lo, hi, strip_first_ws=False):
    out = []
    for k in range(lo, hi + 1):
        ws, t = toks[k]
        if k == lo and strip_first_ws:
            ws = ""
        out.append(ws)
        out.append(t)
    return "".join(out)


def os_unquote(tok):
    """The string value of a leaf token (only used for file names / glyph names / feature code scanning)."""
    if not tok.startswith('"'):
        return tok
    s, out, i = tok[1:-1], [], 0
    while i < len(s):
        c = s[i]
        if c == "\\" and i + 1 < len(s):
            d = s[i + 1]
            if d == "U" or d == "u":
                m = re.match(r"[0-9a-fA-F]{1,4}", s[i + 2:])
                if m:
                    out.append(chr(int(m.group(0), 16)))
                    i += 2 + len(m.group(0))
                    continue
            if d in "0123" and re.match(r"[0-7]{3}", s[i + 1:]):
                out.append(chr(int(s[i + 1:i + 4], 8)))
                i += 4
                continue
            out.append({"n": "\n", "r": "\r", "t": "\t"}.get(d, d))
            i += 2
        else:
            out.append(c)
            i += 1
    return "".join(out)


_SAFE_WORD = re.compile(r"^[A-Za-z_][A-Za-z0-9_]*$")
_INT = re.compile(r"^-?[0-9]+$")


def os_reformat(text, ops, rng):
    """Apply the formatting ops (subset of FORMAT_OPS) to Glyphs text. Every op is insignificant for an OpenStep
    plist: the token sequence (modulo the documented token-local rewrites) and the nesting are untouched.
      indent   : every line break between tokens is followed by indentation (tabs) by nesting depth; ` = ` -> `=`
                 for some keys (seeded)
      flow     : line breaks between tokens are moved: entries are packed several per line (seeded widths)
      keyorder : the entries of every dictionary are written in reverse order (arrays are untouched)
      quote    : bare words ([A-Za-z_][A-Za-z0-9_]*) are written as "quoted strings" (keys and values)
      num      : integer spelling N -> N.0 for `width` values and Glyphs-3 node / pos coordinates (floats by format)
      eol      : LF -> CRLF in the whitespace between tokens
    """
    toks, trail, root = os_load(text)
    toks = [list(t) for t in toks]

    if "num" in ops or "quote" in ops:
        def walk(node, key=None, in_nodes=False):
            if node.kind == "dict":
                for k, v, _ in node.entries:
                    kt = os_unquote(toks[k][1])
                    if "quote" in ops and _SAFE_WORD.match(toks[k][1]):
                        toks[k][1] = '"%s"' % toks[k][1]
                    walk(v, kt)
            elif node.kind == "array":
                for it in node.items:
                    if key in ("nodes", "pos") and it.kind == "leaf":
                        # pos = (x,y); nodes = ((x,y,l),...) -> the inner tuple is handled one level down
                        walk(it, key, key == "pos")
                    elif key == "nodes" and it.kind == "array":
                        for leaf in it.items[:2]:
                            if leaf.kind == "leaf":
                                walk(leaf, key, True)
                        for leaf in it.items[2:]:
                            walk(leaf, None)
                    else:
                        walk(it, None)
            else:
                t = toks[node.lo][1]
                if "num" in ops and _INT.match(t) and (key == "width" or in_nodes):
                    toks[node.lo][1] = t + ".0"
                elif "quote" in ops and _SAFE_WORD.match(t):
                    toks[node.lo][1] = '"%s"' % t
        walk(root)

    # entry ranges are re-ordered on the token list; each entry keeps its own leading whitespace
    def emit(node, out):
        if node.kind == "dict" and "keyorder" in ops:
            out.append(tuple(toks[node.lo]))
            for k, v, semi in reversed(node.entries):
                out.append(tuple(toks[k]))
                out.append(tuple(toks[k + 1]))
                emit(v, out)
                out.append(tuple(toks[semi]))
            out.append(tuple(toks[node.hi]))
        elif node.kind == "dict":
            out.append(tuple(toks[node.lo]))
            for k, v, semi in node.entries:
                out.append(tuple(toks[k]))
                out.append(tuple(toks[k + 1]))
                emit(v, out)
                out.append(tuple(toks[semi]))
            out.append(tuple(toks[node.hi]))
        elif node.kind == "array":
            out.append(tuple(toks[node.lo]))
            pos = node.lo + 1
            for it in node.items:
                emit(it, out)
                pos = it.hi + 1
                if toks[pos][1] == ",":
                    out.append(tuple(toks[pos]))
                    pos += 1
            out.append(tuple(toks[node.hi]))
        else:
            out.append(tuple(toks[node.lo]))
    seq = []
    emit(root, seq)

    if "flow" in ops:
        res, col, width = [], 0, rng.choice([60, 100, 160])
        for k, (ws, t) in enumerate(seq):
            if k == 0:
                ws = ""
            elif t in ";,)}=":
                ws = " " if t == "=" else ""
            elif seq[k - 1][1] in "({":
                ws = ""
            else:
                ws = " "
            if col + len(ws) + len(t) > width and t not in ";,=" and k > 0 and seq[k - 1][1] != "=":
                ws, col = "\n", 0
                width = rng.choice([60, 100, 160])
            res.append(ws + t)
            col += len(ws) + len(t.rsplit("\n", 1)[-1])
        body = "".join(res) + "\n"
    elif "indent" in ops:
        res, depth = [], 0
        tight = rng.random() < 0.5
        for k, (ws, t) in enumerate(seq):
            if t in ")}":
                depth -= 1
            if "\n" in ws:
                ws = "\n" * ws.count("\n") + "\t" * max(depth, 0)
            elif t == "=" or (k > 0 and seq[k - 1][1] == "="):
                ws = "" if tight else "  "
            res.append(ws + t)
            if t in "({":
                depth += 1
        body = "".join(res) + trail
    else:
        body = "".join(ws + t for ws, t in seq) + trail
    if "eol" in ops:
        # only the whitespace between tokens: a line break inside a quoted string is content
        toks2, trail2 = os_tokens(body)
        body = "".join(ws.replace("\r\n", "\n").replace("\n", "\r\n") + t for ws, t in toks2) + \
            trail2.replace("\r\n", "\n").replace("\n", "\r\n")
    return body


def os_split_package(text, pkg_dir):
    """Split Glyphs text into a .glyphspackage the way glyphs-reader's RawFont::load_package reads it back:
    fontinfo.plist (top-level dictionary without `glyphs`), glyphs/*.glyph (one dictionary per glyph, source text
    of the array element verbatim), order.plist (array of the glyph names in file order, source tokens verbatim),
    UIState.plist (ignored by the loader). Returns the number of glyphs."""
    toks, trail, root = os_load(text)
    if root.kind != "dict":
        raise OsError("top level is not a dictionary")
    shutil.rmtree(pkg_dir, ignore_errors=True)
    os.makedirs(os.path.join(pkg_dir, "glyphs"))
    info, glyphs = [], None
    for k, v, semi in root.entries:
        if os_unquote(toks[k][1]) == "glyphs" and v.kind == "array":
            glyphs = v
        else:
            info.append(os_text(toks, k, semi))
    eol = "\r\n" if "\r\n" in toks[root.hi][0] else "\n"
    with open(os.path.join(pkg_dir, "fontinfo.plist"), "w", encoding="utf-8", newline="") as f:
        f.write(toks[root.lo][0] + "{" + "".join(info) + toks[root.hi][0] + "}" + trail)
    names = []
    for n, g in enumerate(glyphs.items if glyphs else []):
        name_tok = None
        if g.kind == "dict":
            for k, v, _ in g.entries:
                if os_unquote(toks[k][1]) == "glyphname" and v.kind == "leaf":
                    name_tok = toks[v.lo][1]
        if name_tok is None:
            raise OsError("glyph %d has no glyphname" % n)
        names.append(name_tok)
        safe = "".join(ch if ch.isalnum() else "_" for ch in os_unquote(name_tok))[:40]
        with open(os.path.join(pkg_dir, "glyphs", "%04d_%s.glyph" % (n, safe)), "w", encoding="utf-8",
                  newline="") as f:
            f.write(os_text(toks, g.lo, g.hi, strip_first_ws=True) + eol)
    with open(os.path.join(pkg_dir, "order.plist"), "w", encoding="utf-8", newline="") as f:
        f.write("(" + eol + ("," + eol).join(names) + eol + ")")
    with open(os.path.join(pkg_dir, "UIState.plist"), "w", encoding="utf-8", newline="") as f:
        f.write("{" + eol + "displayStrings = (" + eol + '"verif"' + eol + ");" + eol + "}")
    return len(names)


def os_feature_includes(text):
    """Relative paths named by include(...) statements anywhere in the Glyphs text (feature code lives in quoted
    strings; the scan is on the unescaped token values)."""
    toks, _ = os_tokens(text)
    out = []
    for _, t in toks:
        if "include" in t:
            out += fea_includes(os_unquote(t))
    return out


def fea_includes(fea):
    fea = re.sub(r"#[^\n]*", "", fea)
    return [m.group(1).strip() for m in re.finditer(r"\binclude\s*\(\s*([^)]+?)\s*\)", fea)]


# =============================================================================================================
# 2. XML sources (UFO .plist / .glif, .designspace): parse with ElementTree, re-serialise with a different but
#    XML-insignificant spelling. Element order and every text node that is content are preserved exactly.
# =============================================================================================================

def _xml_escape_text(s):
    return s.replace("&", "&amp;").replace("<", "&lt;").replace(">", "&gt;").replace("\r", "&#13;")


def _xml_escape_attr(s, q):
    s = s.replace("&", "&amp;").replace("<", "&lt;").replace("\n", "&#10;").replace("\r", "&#13;").replace("\t", "&#9;")
    return s.replace('"', "&quot;") if q == '"' else s.replace("'", "&apos;")


# attributes that are "integer or float" by the UFO3 GLIF / designspace specifications
_GLIF_NUM_ATTRS = {"advance": ("width", "height"), "point": ("x", "y"), "anchor": ("x", "y"),
                   "component": ("xScale", "xyScale", "yxScale", "yScale", "xOffset", "yOffset")}
_DS_NUM_ATTRS = {"axis": ("minimum", "maximum", "default"), "dimension": ("xvalue", "yvalue"),
                 "map": ("input", "output")}
# fontinfo.plist keys that are "integer or float" by the UFO3 specification
_INFO_NUM_KEYS = {"unitsPerEm", "ascender", "descender", "xHeight", "capHeight", "italicAngle",
                  "postscriptUnderlineThickness", "postscriptUnderlinePosition"}


def _only_element_content(el):
    """True if `el` has child elements and all its text nodes are whitespace (so they are formatting)."""
    if len(el) == 0:
        return False
    if (el.text or "").strip():
        return False
    return all(not (c.tail or "").strip() for c in el)


def xml_reformat(data, ops, rng, flavour):
    """flavour: 'plist' | 'plist:fontinfo' | 'plist:kerning' | 'glif' | 'designspace' (selects where `num` applies).
      indent   : element-only content is re-indented (4 spaces instead of the source's style)
      flow     : no line breaks between elements; attributes of one tag are put on separate lines
      keyorder : attributes are written in reverse order; <dict> key/value pairs of a plist in reverse order
      quote    : attribute values are quoted with ' instead of "
      num      : N -> N.0 for attributes / plist values that are "integer or float" by the format
      eol      : LF -> CRLF between elements
    """
    text = data.decode("utf-8-sig") if isinstance(data, bytes) else data
    has_doctype = "<!DOCTYPE plist" in text
    root = ET.fromstring(text.encode("utf-8"))
    q = "'" if "quote" in ops else '"'
    nl = "\r\n" if "eol" in ops else "\n"
    flow = "flow" in ops
    ind = "    " if "indent" in ops else ("\t" if flavour.startswith("plist") else "  ")
    num_attrs = _GLIF_NUM_ATTRS if flavour == "glif" else _DS_NUM_ATTRS if flavour == "designspace" else {}
    out = []

    def write(el, depth, respell=False):
        attrs = list(el.attrib.items())
        if "keyorder" in ops:
            attrs.reverse()
        tag = el.tag
        if respell and tag == "integer" and _INT.match((el.text or "").strip()):
            out.append("<real>%s.0</real>" % (el.text or "").strip())
            return
        out.append("<" + tag)
        for k, v in attrs:
            if "num" in ops and k in num_attrs.get(tag, ()) and _INT.match(v):
                v = v + ".0"
            sep = (nl + ind * (depth + 2)) if flow else " "
            out.append("%s%s=%s%s%s" % (sep, k, q, _xml_escape_attr(v, q), q))
        children = list(el)
        if not children and not (el.text or ""):
            out.append("/>")
            return
        out.append(">")
        if _only_element_content(el):
            pairs = None
            if tag == "dict":
                # plist dictionary: <key>k</key><value/> pairs
                if len(children) % 2 == 0 and all(children[i].tag == "key" for i in range(0, len(children), 2)):
                    pairs = [(children[i], children[i + 1]) for i in range(0, len(children), 2)]
                    if "keyorder" in ops:
                        pairs.reverse()
            seq = [c for p in pairs for c in p] if pairs is not None else children
            prev_key = None
            for c in seq:
                if not flow:
                    out.append(nl + ind * (depth + 1))
                r = False
                if "num" in ops and pairs is not None and c.tag != "key":
                    if flavour == "plist:fontinfo":
                        r = depth == 1 and prev_key in _INFO_NUM_KEYS
                    elif flavour == "plist:kerning":
                        r = depth == 2
                if c.tag == "key":
                    prev_key = c.text
                write(c, depth + 1, r)
            if not flow:
                out.append(nl + ind * depth)
        else:
            # mixed or text content: verbatim
            out.append(_xml_escape_text(el.text or ""))
            for c in children:
                write(c, depth + 1)
                out.append(_xml_escape_text(c.tail or ""))
        out.append("</%s>" % tag)

    head = "<?xml version=%s1.0%s encoding=%sUTF-8%s?>" % (q, q, q, q) + nl
    if has_doctype:
        head += '<!DOCTYPE plist PUBLIC "-//Apple//DTD PLIST 1.0//EN" "http://www.apple.com/DTDs/PropertyList-1.0.dtd">' + nl
    write(root, 0)
    return (head + "".join(out) + nl).encode("utf-8")


# =============================================================================================================
# 3. Designs and their presentations
# =============================================================================================================

UFO_ONLY_KEYS = ("public.skipExportGlyphs",)   # read from the designspace lib only (ufo2fontir source.rs:351)
# lib keys fontc reads from a UFO (Routes.tla LibKeyDef); public.glyphOrder alone does not make a lib "non-trivial"
ROUTE_LIB_KEYS = ("public.openTypeMeta", "public.postscriptNames", "public.openTypeCategories",
                  "public.skipExportGlyphs", "com.github.googlei18n.ufo2ft.filters",
                  "com.github.googlei18n.ufo2ft.useProductionNames", "com.github.googlei18n.ufo2ft.colorPalettes",
                  "com.github.googlei18n.ufo2ft.colorLayers", "com.github.fonttools.varLib.featureVarsFeatureTag")
FORMAT_OPS = ("indent", "flow", "keyorder", "quote", "num", "eol")
BUNDLED = ("WghtVar", "WghtVar_Anchors", "WghtVar_Avar", "WghtVar_Instances", "WghtVar_OS2", "infinity")


def _safe(s):
    return "".join(ch if ch.isalnum() or ch in "-_." else "_" for ch in s)


def _read_text(path):
    with open(path, encoding="utf-8", newline="") as f:
        return f.read()


def _write_text(path, text):
    os.makedirs(os.path.dirname(path), exist_ok=True)
    with open(path, "w", encoding="utf-8", newline="") as f:
        f.write(text)


def glyphs_design(did, path):
    text = _read_text(path)
    try:
        incs = os_feature_includes(text)
        os_load(text)
        parses = True
    except OsError:
        incs, parses = [m.group(1).strip() for m in re.finditer(r"include\s*\(\s*([^)]+?)\s*\)", text)], False
    base = path[:-len(".glyphs")]
    bundle = base + ".glyphspackage" if os.path.isdir(base + ".glyphspackage") else None
    cls = "gi" if incs else ("gb" if bundle else "g")
    return dict(id=did, kind="glyphs", src=path, name=os.path.basename(base), cls=cls, includes=incs,
                bundle=bundle if cls == "gb" else None, parses=parses)


def ufo_design(did, path, mini=None):
    lib = {}
    try:
        with open(os.path.join(path, "lib.plist"), "rb") as f:
            lib = plistlib.load(f)
    except Exception:
        pass
    only = {k: lib[k] for k in UFO_ONLY_KEYS if lib.get(k)}
    incs = []
    fea = os.path.join(path, "features.fea")
    if os.path.isfile(fea):
        incs = fea_includes(open(fea, encoding="utf-8", errors="replace").read())
    return dict(id=did, kind="ufo", src=path, name=os.path.basename(path)[:-len(".ufo")], cls="uk" if only else "u",
                includes=incs, ufo_only=only, mini=mini, lib_keys=sorted(k for k in ROUTE_LIB_KEYS if k in lib))


CLASS_REC = {
    "g": dict(id="g", kind="glyphs", selfContained=True, bundle=False, ufoOnly=False),
    "gb": dict(id="gb", kind="glyphs", selfContained=True, bundle=True, ufoOnly=False),
    "gi": dict(id="gi", kind="glyphs", selfContained=False, bundle=False, ufoOnly=False),
    "u": dict(id="u", kind="ufo", selfContained=True, bundle=False, ufoOnly=False),
    "uk": dict(id="uk", kind="ufo", selfContained=True, bundle=False, ufoOnly=True),
}


def _copy_includes(design, src_bases, dst_bases, root):
    """Copy the files named by include() statements so that they resolve the same way next to the scratch copy.
    src_bases/dst_bases: directories an include path may be relative to (source side / scratch side)."""
    for inc in design["includes"]:
        if os.path.isabs(inc):
            continue
        for sb, db in zip(src_bases, dst_bases):
            s = os.path.normpath(os.path.join(sb, inc))
            d = os.path.normpath(os.path.join(db, inc))
            if os.path.isfile(s) and d.startswith(root + os.sep) and not os.path.exists(d):
                os.makedirs(os.path.dirname(d), exist_ok=True)
                shutil.copyfile(s, d)


def _variant_rng(seed, design, container, variant):
    h = hashlib.sha256(("%s|%s|%s|%s" % (seed, design["id"], container, ",".join(sorted(variant)))).encode())
    return random.Random(int.from_bytes(h.digest()[:8], "big"))


def _reformat_ufo(ufo, variant, rng, notes):
    for dirpath, _dirs, files in os.walk(ufo):
        for fn in sorted(files):
            p = os.path.join(dirpath, fn)
            if fn.endswith(".glif"):
                flavour = "glif"
            elif fn.endswith(".plist"):
                flavour = {"fontinfo.plist": "plist:fontinfo", "kerning.plist": "plist:kerning"}.get(fn, "plist")
                if os.path.dirname(os.path.relpath(p, ufo)).startswith(("data", "images")):
                    continue
            else:
                continue
            data = open(p, "rb").read()
            try:
                new = xml_reformat(data, variant, rng, flavour)
            except (ET.ParseError, UnicodeDecodeError, ValueError) as e:
                notes.add("not re-formatted (%s): %s" % (type(e).__name__, os.path.relpath(p, ufo)))
                continue
            with open(p, "wb") as f:
                f.write(new)


def _plist_fragment(value):
    s = plistlib.dumps(value).decode("utf-8")
    return s[s.index("<plist"):].split(">", 1)[1].rsplit("</plist>", 1)[0].strip()


def _designspace_text(design, with_lib):
    lib = ""
    if with_lib:
        body = "".join("<key>%s</key>%s" % (_xml_escape_text(k), _plist_fragment(v))
                       for k, v in sorted(design["ufo_only"].items()))
        lib = "\n  <lib>\n    <dict>%s</dict>\n  </lib>" % body
    # norad (the designspace reader fontc uses) refuses a <source> without <location><dimension/></location>, so
    # the one-source designspace declares one point axis (min = default = max) exactly like the repository's own
    # single-source fixtures static.designspace / FixedPitch.designspace do
    return ('<?xml version="1.0" encoding="UTF-8"?>\n<designspace format="4.1">\n  <axes>\n'
            '    <axis tag="wght" name="Weight" minimum="400" maximum="400" default="400"/>\n  </axes>\n  <sources>\n'
            '    <source filename=%s>\n      <location>\n        <dimension name="Weight" xvalue="400"/>\n'
            '      </location>\n    </source>\n  </sources>%s\n</designspace>\n'
            % (_xml_quoteattr(design["name"] + ".ufo"), lib))


def _xml_quoteattr(s):
    return '"%s"' % _xml_escape_attr(s, '"')


class Presenter:
    """Materialises presentations (container, variant) of a design under work/C20/d/<design>/..."""

    def __init__(self, ctx):
        self.ctx = ctx
        self.cache = {}
        self.notes = set()

    def present(self, design, container, variant):
        """-> (path to hand to fontc, memory?)"""
        key = (design["id"], container, frozenset(variant))
        if key in self.cache:
            return self.cache[key]
        vtag = "+".join(o for o in FORMAT_OPS if o in variant) or "base"
        root = self.ctx.path("d", _safe(design["id"]), "%s-%s" % (container, vtag), "x")
        root = os.path.dirname(root)
        shutil.rmtree(root, ignore_errors=True)
        r = os.path.join(root, "r", "s")     # two levels so that ../../x includes stay inside `root`
        os.makedirs(r)
        rng = _variant_rng(self.ctx.seed, design, container, variant)
        if design["kind"] == "glyphs":
            res = self._glyphs(design, container, set(variant), rng, r, root)
        else:
            res = self._ufo(design, container, set(variant), rng, r, root)
        self.cache[key] = res
        return res

    def _glyphs(self, design, container, variant, rng, r, root):
        name = design["name"]
        srcdir = os.path.dirname(design["src"])
        _copy_includes(design, [srcdir], [r], root)
        if container == "bundle":
            dst = os.path.join(r, name + ".glyphspackage")
            shutil.copytree(design["bundle"], dst)
            if variant:
                for dirpath, _d, files in os.walk(dst):
                    for fn in sorted(files):
                        if fn.endswith((".plist", ".glyph")):
                            p = os.path.join(dirpath, fn)
                            _write_text(p, os_reformat(_read_text(p), variant, rng))
            return dst, False
        text = _read_text(design["src"])
        if variant:
            text = os_reformat(text, variant, rng)
        if container in ("file", "memory"):
            p = os.path.join(r, name + ".glyphs")
            _write_text(p, text)
            return p, container == "memory"
        if container == "misnamed":
            p = os.path.join(r, name + ".glyphs_txt")
            _write_text(p, text)
            return p, False
        if container == "package":
            p = os.path.join(r, name + ".glyphspackage")
            os_split_package(text, p)
            return p, False
        raise common.ToolError("unknown container %s" % container)

    def _ufo(self, design, container, variant, rng, r, root):
        name = design["name"]
        ext = ".ufoz" if container == "misnamed" else ".ufo"
        dst = os.path.join(r, name + ext)
        shutil.copytree(design["src"], dst)
        srcdir = os.path.dirname(design["src"])
        _copy_includes(design, [design["src"], srcdir], [dst, r], root)
        if variant:
            _reformat_ufo(dst, variant, rng, self.notes)
        if container in ("ufo", "misnamed"):
            return dst, False
        if container in ("ds", "dslib"):
            text = _designspace_text(design, container == "dslib")
            if variant:
                text = xml_reformat(text, variant, rng, "designspace").decode("utf-8")
            p = os.path.join(r, name + ".designspace")
            _write_text(p, text)
            return p, False
        raise common.ToolError("unknown container %s" % container)


# ------------------------------------------------------------------------------------------- MiniFont designs

def mini_designs(ctx):
    """Single-master MiniFonts exercising the per-route defaults named in the property: lib merging (filters,
    skipExportGlyphs, categories, production names), include paths, kerning."""
    out = []

    def base(names=("a", "b", "c")):
        mf = minifont.template_static(names)
        mf["as_ufo"] = True
        return mf

    mf = base()
    mf["masters"][0]["kerning"] = {"a": {"b": -40}, "public.kern1.c": {"a": 25}}
    mf["masters"][0]["groups"] = {"public.kern1.c": ["c"], "public.kern2.c": ["c"]}
    out.append(("kern", mf, {}))

    mf = base(("a", "b", "c", "d"))
    mf["glyphs"][2]["layers"]["Regular"] = {"width": 520, "components": [{"base": "b", "xform": [1, 0, 0, 1, 30, 0]}]}
    mf["glyphs"][3]["layers"]["Regular"] = {"width": 530, "components": [{"base": "c", "xform": [1, 0, 0, 1, 0, 20]}],
                                             "contours": [minifont.square(10, 10, 60, 60)]}
    mf["skip_export"] = ["b"]
    out.append(("skipexport", mf, {}))

    mf = base(("a", "b", "c", "d"))
    mf["glyphs"][2]["layers"]["Regular"] = {"width": 520, "components": [{"base": "b", "xform": [1, 0, 0, 1, 30, 0]}]}
    mf["glyphs"][3]["layers"]["Regular"] = {"width": 530, "components": [{"base": "c", "xform": [0.5, 0, 0, 0.5, 0, 20]}]}
    mf["lib"] = {"com.github.googlei18n.ufo2ft.filters": [{"name": "flattenComponents", "pre": True},
                                                          {"name": "decomposeTransformedComponents", "pre": True}]}
    out.append(("filters", mf, {}))

    mf = base(("a", "acutecomb", "aacute"))
    mf["glyphs"][0]["layers"]["Regular"]["anchors"] = [{"name": "top", "x": 250, "y": 700}]
    mf["glyphs"][1]["unicodes"] = [0x301]
    mf["glyphs"][1]["layers"]["Regular"] = {"width": 0, "contours": [minifont.square(-60, 720, 60, 800)],
                                             "anchors": [{"name": "_top", "x": 0, "y": 700}]}
    mf["glyphs"][2]["unicodes"] = [0xE1]
    mf["glyphs"][2]["layers"]["Regular"] = {"width": 500, "components": [
        {"base": "a"}, {"base": "acutecomb", "xform": [1, 0, 0, 1, 250, 0]}]}
    mf["categories"] = {"acutecomb": "mark", "a": "base", "aacute": "base"}
    mf["lib"] = {"com.github.googlei18n.ufo2ft.filters": [{"name": "propagateAnchors", "pre": True}]}
    out.append(("categories", mf, {}))

    mf = base()
    mf["features"] = "languagesystem DFLT dflt;\ninclude(shared.fea);\n"
    out.append(("include", mf, {"shared.fea": "feature liga { sub a b by c; } liga;\n"}))

    mf = base(("a", "b", "c"))
    mf["postscript_names"] = {"b": "uni0062", "c": "cee"}
    mf["glyph_order"] = ["c", "a", "b"]
    mf["masters"][0]["info"] = {"openTypeNameVersion": "Version 1.000", "italicAngle": -10}
    out.append(("psnames", mf, {}))

    for tag, with_skip in (("alllib", True), ("meta", False)):
        mf = base(("a", "b", "c", "acutecomb", "d"))
        mf["glyphs"][0]["layers"]["Regular"]["anchors"] = [{"name": "top", "x": 250, "y": 700}]
        mf["glyphs"][2]["layers"]["Regular"] = {"width": 520, "components": [{"base": "b", "xform": [1, 0, 0, 1, 30, 0]}]}
        mf["glyphs"][3]["unicodes"] = [0x301]
        mf["glyphs"][3]["layers"]["Regular"] = {"width": 0, "contours": [minifont.square(-60, 720, 60, 800)],
                                                 "anchors": [{"name": "_top", "x": 0, "y": 700}]}
        mf["glyphs"][4]["layers"]["Regular"] = {"width": 530, "components": [{"base": "c", "xform": [1, 0, 0, 1, 0, 20]}]}
        mf["glyph_order"] = ["d", "a", "acutecomb", "b", "c"]
        mf["postscript_names"] = {"d": "dee", "acutecomb": "uni0301"}
        mf["categories"] = {"acutecomb": "mark", "a": "base"}
        if with_skip:
            mf["skip_export"] = ["b"]
        mf["lib"] = {
            "public.openTypeMeta": {"dlng": ["en-Latn", "nl-Latn"], "slng": ["Latn"]},
            "com.github.googlei18n.ufo2ft.filters": [{"name": "flattenComponents", "pre": True},
                                                     {"name": "propagateAnchors", "pre": True}],
        }
        mf["masters"][0]["info"] = {
            "openTypeGaspRangeRecords": [{"rangeMaxPPEM": 8, "rangeGaspBehavior": [1, 3]},
                                         {"rangeMaxPPEM": 65535, "rangeGaspBehavior": [0, 1, 2, 3]}],
            "openTypeOS2WeightClass": 600, "openTypeOS2WidthClass": 4, "openTypeOS2VendorID": "VRIF",
            "openTypeOS2TypoAscender": 810, "openTypeOS2TypoDescender": -190, "openTypeOS2TypoLineGap": 33,
            "openTypeOS2WinAscent": 900, "openTypeOS2WinDescent": 250, "openTypeOS2Selection": [7],
            "openTypeOS2Panose": [2, 11, 5, 2, 4, 5, 4, 2, 2, 4], "openTypeOS2Type": [3],
            "openTypeOS2UnicodeRanges": [0, 1], "openTypeOS2CodePageRanges": [0],
            "openTypeOS2SubscriptXSize": 610, "openTypeOS2StrikeoutSize": 44,
            "openTypeHheaAscender": 820, "openTypeHheaDescender": -180, "openTypeHheaLineGap": 12,
            "openTypeNameDesigner": "verif", "postscriptUnderlinePosition": -80,
        }
        out.append((tag, mf, {}))

    designs = []
    for tag, mf, extra in out:
        d = ctx.path("mini", tag, "x")
        d = os.path.dirname(d)
        shutil.rmtree(d, ignore_errors=True)
        p = minifont.materialize(mf, d, name="Mini" + tag)
        for fn, content in extra.items():
            _write_text(os.path.join(d, fn), content)
        designs.append(ufo_design("mini/" + tag, p, mini=mf))
    return designs


def all_designs(ctx):
    td = common.TESTDATA
    glyphs, ufos = [], []
    for sub in ("glyphs2", "glyphs3"):
        for fn in sorted(os.listdir(os.path.join(td, sub))):
            if fn.endswith(".glyphs"):
                glyphs.append(glyphs_design("%s/%s" % (sub, fn[:-len(".glyphs")]), os.path.join(td, sub, fn)))
    inc = os.path.join(td, "glyphs_fea_include", "glyphs_include.glyphs")
    if os.path.exists(inc):
        glyphs.append(glyphs_design("glyphs_fea_include/glyphs_include", inc))
    for rel in common.fixtures(exts=(".ufo",)):
        ufos.append(ufo_design(rel[:-len(".ufo")], os.path.join(td, rel)))
    return glyphs, ufos


# =============================================================================================================
# 4. Executing walks
# =============================================================================================================

def sfnt_tables(path):
    try:
        data = open(path, "rb").read()
        n = struct.unpack(">H", data[4:6])[0]
        out = {}
        for i in range(n):
            tag, _cs, off, ln = struct.unpack(">4sIII", data[12 + 16 * i: 28 + 16 * i])
            out[tag.decode("latin1")] = data[off:off + ln]
        return out
    except Exception:
        return {}


def name_stamps(path):
    """name-id-5 strings (where generate_font_internal's version stamp lands); hint only."""
    t = sfnt_tables(path).get("name")
    out = []
    try:
        _fmt, count, so = struct.unpack(">HHH", t[:6])
        for i in range(count):
            pid, _eid, _lid, nid, ln, off = struct.unpack(">6H", t[6 + 12 * i: 18 + 12 * i])
            if nid == 5:
                raw = t[so + off: so + off + ln]
                out.append(raw.decode("utf-16-be" if pid in (0, 3) else "latin1", "replace"))
    except Exception:
        pass
    return out


def first_diff(pa, pb):
    ta, tb = sfnt_tables(pa), sfnt_tables(pb)
    if not ta or not tb:
        return "?"
    if list(ta) != list(tb):
        return "table set/order: %s vs %s" % (" ".join(ta), " ".join(tb))
    for tag in ta:
        if ta[tag] != tb[tag]:
            extra = ""
            if tag == "name":
                extra = " (version strings %s vs %s)" % (name_stamps(pa), name_stamps(pb))
            return "first differing table '%s' (%d vs %d bytes)%s" % (tag, len(ta[tag]), len(tb[tag]), extra)
    return "tables equal; directory/padding differs"


class Runner:
    def __init__(self, ctx, presenter, cli_opts):
        self.ctx, self.pres, self.cli_opts = ctx, presenter, cli_opts
        self.results = {}     # key -> result dict
        self.n = 0
        self.n_minimise = 0   # extra compiles spent on narrowing violations

    @staticmethod
    def key(design, container, variant, entry, optnames):
        return (design["id"], container, tuple(sorted(variant)), entry, tuple(optnames))

    def run_all(self, wanted, procs):
        """wanted: {key: (design, container, variant, entry, optnames)}; fills self.results."""
        todo = [(k, v) for k, v in wanted.items() if k not in self.results]
        lib_reqs, lib_keys, cli_jobs = [], [], []
        for k, (design, container, variant, entry, optnames) in todo:
            try:
                path, memory = self.pres.present(design, container, variant)
            except OsError as e:
                # our tolerant parser cannot read the source: the design cannot be presented this way
                raise common.ToolError("cannot present %s as %s/%s: %s" % (design["id"], container, sorted(variant), e))
            self.n += 1
            out = os.path.join(os.path.dirname(os.path.dirname(os.path.dirname(path))),
                               "%s-%s.ttf" % (entry, "_".join(optnames) or "default"))
            if entry == "lib":
                lib_reqs.append(dict(tag=str(len(lib_reqs)), entry="lib", src=path, memory=memory, out=out,
                                     options=list(optnames)))
                lib_keys.append((k, path, out))
            else:
                cli_jobs.append((k, path, out, optnames))
        if lib_reqs:
            for (k, path, out), r in zip(lib_keys, common.vh_batch(lib_reqs, procs=procs, module="routes")):
                if r is None:
                    raise common.ToolError("vh routes returned nothing for %s" % (k,))
                if r.get("outcome") == "harness":
                    raise common.ToolError("vh routes: %s" % r.get("message"))
                ok = r.get("outcome") == "ok" and os.path.exists(out)
                self.results[k] = dict(res="ok:" + common.sha256_file(out) if ok else "fail", outcome=r.get("outcome"),
                                       message=(r.get("message") or "")[:400], kind=r.get("kind", ""), out=out,
                                       src=path, version=r.get("version", ""))

        def cli(job):
            k, path, out, optnames = job
            extra = [a for o in optnames for a in self.cli_opts[o]]
            o = common.run_fontc(path, out, extra=extra, timeout=120, env={"SOURCE_DATE_EPOCH": EPOCH})
            if o["how"] == "timedout":
                o = common.run_fontc(path, out, extra=extra, timeout=900, env={"SOURCE_DATE_EPOCH": EPOCH})
            ok = o["how"] == "exited" and o["status"] == 0 and o["font"] != "none"
            outcome = "ok" if ok else ("timeout" if o["how"] == "timedout" else
                                       "signal" if o["how"] == "signaled" else
                                       "panic" if o["status"] == 101 else "error")
            return k, dict(res="ok:" + common.sha256_file(out) if ok else "fail", outcome=outcome,
                           message=o["stderr"][-400:], kind="", out=out, src=path,
                           argv=[path, "-o", out] + extra)
        if cli_jobs:
            import concurrent.futures
            with concurrent.futures.ThreadPoolExecutor(procs) as ex:
                for k, r in ex.map(cli, cli_jobs):
                    self.results[k] = r


def walk_events(design, walk, opts):
    """The presentations / compiles a walk asks for: list of ("P", container, variant) / ("C", container, variant,
    entry, opt)."""
    container = "file" if design["kind"] == "glyphs" else "ufo"
    variant = frozenset()
    out = []
    for s in walk["steps"]:
        if s["a"] == "Repackage":
            container = s["c"]
            out.append(("P", container, variant))
        elif s["a"] == "Reformat":
            variant = variant ^ {s["op"]}
            out.append(("P", container, variant))
        else:
            out.append(("C", container, variant, s["entry"], s["opt"]))
    return out


def _kind_of(walk):
    return {"kind": "glyphs" if walk["class"].startswith("g") else "ufo"}


def comparable_routes(walk):
    """(container, formatting ops, entry, option set) of the compiles that share their option set with a compile
    through a different presentation or entry point."""
    groups = {}
    for e in walk_events(_kind_of(walk), walk, walk["opts"]):
        if e[0] == "C":
            groups.setdefault(e[4], set()).add(e[1:4])
    out = set()
    for o, v in groups.items():
        if len(v) > 1:
            out |= {(c, tuple(sorted(var)), entry, o) for c, var, entry in v}
    return out


def nontrivial(walk):
    """Two compiles with the same option set that differ in presentation or entry point."""
    return bool(comparable_routes(walk))


def comparable_groups(walk):
    """option set -> set of (container, ops, entry) compiled with it, for groups of at least two."""
    groups = {}
    for e in walk_events(_kind_of(walk), walk, walk["opts"]):
        if e[0] == "C":
            groups.setdefault(e[4], set()).add((e[1], tuple(sorted(e[2])), e[3]))
    return {o: v for o, v in groups.items() if len(v) > 1}


def _spans(a, b):
    """goal: one option set is compiled through a route satisfying a and through one satisfying b"""
    return lambda o, g: any(a(r) for r in g) and any(b(r) for r in g)


def route_goals(cls):
    """Comparisons every design class should see: (goals tried first, goals tried in seeded order); predicates over
    (option set, group of (container, ops, entry) compiled with it)."""
    fixed = []
    plain_file = lambda r: r[0] == "file" and not r[1]
    plain_ufo = lambda r: r[0] == "ufo" and not r[1]
    if cls.startswith("g"):
        goals = [_spans(lambda r: r[0] == "memory", lambda r: r[0] == "file"),
                 _spans(lambda r: r[0] == "package", lambda r: r[0] == "file"),
                 _spans(lambda r: r[0] == "package" and r[2] == "cli", lambda r: r[0] != "package" and r[2] == "lib"),
                 _spans(lambda r: r[0] == "file" and r[1], plain_file),
                 _spans(lambda r: r[2] == "cli", lambda r: r[2] == "lib")]
        if cls == "gb":
            fixed = [_spans(lambda r: r[0] == "bundle", lambda r: r[0] == "file")]
        if cls == "gi":
            # the documented exception needs a compile that really reads the features
            fixed = [lambda o, g: o != "noprod" and _spans(lambda r: r[0] == "memory", lambda r: r[0] == "file")(o, g)]
    else:
        goals = [_spans(lambda r: r[0] == "ds", lambda r: r[0] == "ufo"),
                 _spans(lambda r: r[0] == "dslib", lambda r: r[0] == "ufo"),
                 _spans(lambda r: r[0] == "dslib", lambda r: r[0] == "ds"),
                 _spans(lambda r: r[0] == "ufo" and r[1], plain_ufo),
                 _spans(lambda r: r[2] == "cli", lambda r: r[2] == "lib")]
    return fixed, goals


# ufo vs one-source designspace with the reference option set: (goals tried first, seeded rest)
LIB_ROUTE_GOALS = ([lambda o, g: o == "default" and _spans(lambda r: r[0] == "ds", lambda r: r[0] == "ufo" and not r[1])(o, g),
                    lambda o, g: o == "default" and _spans(lambda r: r[0] == "dslib", lambda r: r[0] == "ufo" and not r[1])(o, g)],
                   [])


def pick_walks(rng, pool, k, goals=()):
    """Seeded stratified sample. First the route goals of the class (in seeded order; one walk per goal not yet
    met), then each pick is drawn uniformly from the candidates (200 random ones) that add the most not-yet-covered
    comparable routes, so that few walks per design still cover containers x entry points x formatting x options."""
    picked, covered = [], set()
    fixed, rest = goals if goals else ([], [])
    rest = rng.sample(rest, len(rest))
    goals = list(fixed) + rest
    met = lambda g, ws: any(g(o, grp) for w in ws for o, grp in comparable_groups(w).items())
    for g in goals:
        if len(picked) >= min(k, len(pool)):
            break
        if met(g, picked):
            continue
        cands = [w for w in rng.sample(pool, min(1500, len(pool))) if met(g, [w])]
        if cands:
            w = rng.choice(cands)
            picked.append(w)
            covered |= comparable_routes(w)
    while len(picked) < min(k, len(pool)):
        cands = rng.sample(pool, min(200, len(pool)))
        best = max(len(comparable_routes(w) - covered) for w in cands)
        w = rng.choice([w for w in cands if len(comparable_routes(w) - covered) == best])
        picked.append(w)
        covered |= comparable_routes(w)
    return picked


# =============================================================================================================
# 5. main
# =============================================================================================================

PROPERTY_REASONS = {"SameFont"}
INTERNAL_REASONS = {"I:DispatchOK", "I:Kind"}


def generate_walks(ctx):
    """Exhaustive short walks (BFS, history in the state) and long random walks (-simulate), concurrently."""
    import concurrent.futures
    quick = ctx.quick
    # -simulate num=N with 2 workers explores 2N behaviours; every state reached at depth MaxLen is one walk
    n_sim = 25 if quick else 400
    with concurrent.futures.ThreadPoolExecutor(2) as ex:
        fr = ex.submit(common.run_tlc, ctx, "Routes", "RoutesGen.cfg" if quick else "RoutesGenThorough.cfg",
                       workers=2, timeout=600 if quick else 1500, xmx="6g", tag="gen")
        fs = ex.submit(common.run_tlc, ctx, "Routes", "RoutesSim.cfg", workers=2 if not quick else 1, timeout=900,
                       simulate=n_sim if not quick else 2 * n_sim, depth=9, tag="sim")
        r, s = fr.result(), fs.result()
    if r.violated or r.error or r.timed_out or not r.complete:
        raise common.ToolError("walk generator failed: %s\n%s" % (r.violated or r.error or "timeout",
                                                                    common.tlc_trace_text(r.out, 30)))
    if s.violated or s.error or s.timed_out:
        raise common.ToolError("walk simulation failed: %s\n%s" % (s.violated or s.error or "timeout",
                                                                     common.tlc_trace_text(s.out, 30)))
    bfs, sim = common.replay_lines(r.out), common.replay_lines(s.out)
    if not bfs or not sim:
        raise common.ToolError("TLC emitted no walks (bfs=%d sim=%d)" % (len(bfs), len(sim)))
    return r, bfs, sim


def check_model(ctx):
    r = common.run_tlc(ctx, "Routes", "RoutesMC.cfg" if ctx.quick else "RoutesMCThorough.cfg",
                       workers=1 if ctx.quick else 2, timeout=900, coverage=True, tag="mc")
    if r.violated:
        raise common.ToolError("the route model itself violates %s (spec error, not evidence about the code)\n%s"
                               % (r.violated, common.tlc_trace_text(r.out, 40)))
    if r.error or r.timed_out or not r.complete:
        raise common.ToolError("model checking of Routes.tla failed: %s" % (r.error or "timeout"))
    vac = [a for a in r.zero_cov if a in ("Repackage", "Reformat", "Compile", "NextMC")]
    if vac:
        raise common.ToolError("vacuous model run: actions never fired: %s" % vac)
    return r


def select_designs(ctx, glyphs, ufos, minis):
    rng = random.Random(ctx.seed * 7919 + 20)
    if not ctx.quick:
        return glyphs + ufos + minis
    by = {}
    for d in glyphs:
        by.setdefault(d["cls"], []).append(d)
    chosen = rng.sample(by.get("g", []), min(7, len(by.get("g", []))))
    chosen += rng.sample(by.get("gb", []), min(3, len(by.get("gb", []))))
    chosen += by.get("gi", [])
    # UFOs whose lib carries keys fontc reads (anything beyond public.glyphOrder: openTypeMeta, postscriptNames,
    # openTypeCategories, skipExportGlyphs, ufo2ft filters / colour / production-name switches) are ALWAYS part of
    # the quick tier, with the lean "lib route" plan (ufo vs ds vs dslib, default options); see main
    always = [d for d in ufos if d["lib_keys"]]
    for d in always:
        d["lean"] = True
    rest = [d for d in ufos if not d["lib_keys"]]
    chosen += always + rng.sample(rest, min(2, len(rest)))
    chosen += minis
    return chosen


def main(ctx):
    os.environ["SOURCE_DATE_EPOCH"] = EPOCH
    common.build_harness()
    ev = ctx.ev
    ev.rule = ("a walk is non-trivial iff it contains two Compile steps with the same option set whose "
               "presentation (container, formatting variant) or entry point differ, and the reference route "
               "(original container, library entry, default options) of its design compiles")
    r = common.vh(["routes", "--options"])
    try:
        cli_opts = {o["name"]: o["cli"] for o in json.loads(r.stdout)}
    except Exception:
        raise common.ToolError("vh routes --options failed: %s" % r.stderr[-300:])

    presenter = Presenter(ctx)
    runner = Runner(ctx, presenter, cli_opts)
    ctx._c20_reported = {}
    procs = 10

    if ctx.replay:
        rep = json.load(open(ctx.replay))["replay"]
        glyphs, ufos = all_designs(ctx)
        minis = mini_designs(ctx)
        design = next((d for d in glyphs + ufos + minis if d["id"] == rep["design"]), None)
        if design is None:
            raise common.ToolError("replay: unknown design %s" % rep["design"])
        jobs = [(design, w) for w in rep.get("walks", [rep["walk"]])]
        mc = None
    else:
        import threading
        mc_box = {}

        def mc_run():
            try:
                mc_box["r"] = check_model(ctx)
            except BaseException as e:      # re-raised in the main thread
                mc_box["e"] = e
        th = threading.Thread(target=mc_run)
        th.start()
        gen, bfs, sim = generate_walks(ctx)
        common.log("TLC emitted %d exhaustive walks (<= %d steps) and %d random walks (8 steps)" % (len(bfs), 3, len(sim)))
        glyphs, ufos = all_designs(ctx)
        minis = mini_designs(ctx)
        designs = select_designs(ctx, glyphs, ufos, minis)
        walks = {}
        for w in bfs:
            if nontrivial(w):
                walks.setdefault(w["class"], {"bfs": [], "sim": []})["bfs"].append(w)
        for w in sim:
            if nontrivial(w):
                walks.setdefault(w["class"], {"bfs": [], "sim": []})["sim"].append(w)
        k_bfs, k_sim = (2, 1) if ctx.quick else (4, 1)
        rng = random.Random(ctx.seed * 104729 + 20)
        n_in_class = {}
        for d in designs:
            n_in_class[d["cls"]] = n_in_class.get(d["cls"], 0) + 1
        jobs = []
        for dn, d in enumerate(designs):
            ws = walks.get(d["cls"])
            if not ws or not ws["bfs"]:
                raise common.ToolError("no walks for class %s" % d["cls"])
            # classes with very few designs (include-using Glyphs source, UFOs with UFO-only lib keys) get more walks
            # the include-using Glyphs source and the MiniFonts with UFO-only lib keys are the only designs of their
            # kind in the quick tier: more walks for them
            rare = ctx.quick and (d["cls"] == "gi" or (d.get("mini") and d["cls"] == "uk"))
            kb = k_bfs * (3 if d["cls"] == "gi" else 2) if rare else k_bfs
            ks = k_sim if (rare or not ctx.quick or dn % 3 == 0) else 0
            if ctx.quick and d.get("lean"):
                # lib-carrying fixture UFO in the quick tier: exactly the comparisons that can tell the routes apart -
                # ds vs ufo and dslib vs ufo with the default options (the reference compile is ufo / lib / default)
                pick = pick_walks(rng, ws["bfs"], 2, LIB_ROUTE_GOALS)
            else:
                goals = route_goals(d["cls"])
                if d["kind"] == "ufo":
                    goals = (LIB_ROUTE_GOALS[0] + goals[0], goals[1])
                pick = pick_walks(rng, ws["bfs"], max(kb, 3 if d["kind"] == "ufo" else 0), goals) + \
                    pick_walks(rng, ws["sim"], ks)
            jobs += [(d, w) for w in pick]
        ev.extra["walks_generated"] = {"exhaustive": len(bfs), "random": len(sim),
                                       "nontrivial_by_class": {c: len(v["bfs"]) + len(v["sim"]) for c, v in walks.items()}}
        ev.extra["designs"] = {"glyphs": sum(1 for d in designs if d["kind"] == "glyphs"),
                               "ufo": sum(1 for d in designs if d["kind"] == "ufo" and not d.get("mini")),
                               "minifont": sum(1 for d in designs if d.get("mini"))}

    # ---- execute: every compile the selected walks ask for, once per distinct (presentation, entry, options)
    wanted = {}
    for d, w in jobs:
        # the reference route decides whether the design is a valid input for this property at all
        k = Runner.key(d, "file" if d["kind"] == "glyphs" else "ufo", (), "lib", ())
        wanted[k] = (d, k[1], frozenset(), "lib", ())
        for e in walk_events(d, w, w["opts"]):
            if e[0] == "C":
                names = tuple(w["opts"][e[4]])
                k = Runner.key(d, e[1], e[2], e[3], names)
                wanted[k] = (d, e[1], e[2], e[3], names)
    common.log("%d walks on %d designs need %d distinct compiles" % (len(jobs), len({d["id"] for d, _ in jobs}), len(wanted)))
    runner.run_all(wanted, procs)
    ev.evaluations += len(wanted)
    common.log("compiles done: %d ok, %d failing" % (sum(1 for r in runner.results.values() if r["res"] != "fail"),
                                                      sum(1 for r in runner.results.values() if r["res"] == "fail")))

    # ---- record the observation traces: ONE behaviour per design = its walks one after the other, joined by the
    # Reformat / Repackage steps that lead back to the initial presentation (so that compiles of different walks of
    # the same design are compared with each other as well)
    tr = ctx.path("traces.ndjson")
    recs = []          # (record, design, wes) ; wes[k] = (walk index, walk, event tuple) for event k
    by_design = {}
    for d, w in jobs:
        by_design.setdefault(d["id"], (d, []))[1].append(w)
    with open(tr, "w") as f:
        for n, (d, ws) in enumerate(by_design.values(), 1):
            init = "file" if d["kind"] == "glyphs" else "ufo"
            evs, wes = [], []
            # the reference route (initial presentation, library, default options) opens the behaviour
            ref = runner.results[Runner.key(d, init, (), "lib", ())]
            evs.append({"e": "C", "entry": "lib", "opt": "default", "res": ref["res"], "kind": ref["kind"]})
            wes.append((0, ws[0], ("C", init, frozenset(), "lib", "default")))
            for wi, w in enumerate(ws):
                c, v = init, frozenset()
                for e in walk_events(d, w, w["opts"]):
                    c, v = e[1], e[2]
                    if e[0] == "P":
                        evs.append({"e": "P", "c": c, "v": sorted(v)})
                    else:
                        r = runner.results[Runner.key(d, e[1], e[2], e[3], tuple(w["opts"][e[4]]))]
                        evs.append({"e": "C", "entry": e[3], "opt": e[4], "res": r["res"], "kind": r["kind"]})
                    wes.append((wi, w, e))
                if wi + 1 < len(ws):
                    for op in sorted(v):
                        v = v - {op}
                        evs.append({"e": "P", "c": c, "v": sorted(v)})
                        wes.append((wi, w, ("P", c, v)))
                    if c != init:
                        c = init
                        evs.append({"e": "P", "c": c, "v": []})
                        wes.append((wi, w, ("P", c, v)))
            rec = {"i": n, "design": d["id"], "class": CLASS_REC[d["cls"]], "ev": evs}
            recs.append((rec, d, ws, wes))
            f.write(json.dumps(rec) + "\n")

    # ---- validate them against the spec
    common.log("validating %d recorded walks (%d behaviours) against RoutesTrace.tla" % (len(jobs), len(recs)))
    t = common.run_tlc(ctx, "RoutesTrace", "RoutesTrace.cfg", workers=1, timeout=1500, deque=True, xmx="6g",
                       env={"TRACE": tr}, tag="trace")
    if t.timed_out:
        raise common.ToolError("TLC timed out validating %s" % tr)
    if t.violated and t.violated != "Property":
        raise common.ToolError("trace validator: invariant %s violated\n%s" % (t.violated, common.tlc_trace_text(t.out, 40)))
    m = re.findall(r'<<"PROGRESS", (\d+), (\d+)>>', t.out)
    if not m or t.error:
        raise common.ToolError("trace validation failed: %s" % (t.error or t.out[-400:]))
    if int(m[-1][0]) != int(m[-1][1]) + 1 or int(m[-1][1]) != len(recs):
        raise common.ToolError("trace validation stopped at record %s of %s" % m[-1])
    verdicts = {v["i"]: v["rej"] for v in common.replay_lines(t.out, marker="VERDICT")}

    ref_ok = {}
    for rec, d, ws, wes in recs:
        ref = runner.results[Runner.key(d, "file" if d["kind"] == "glyphs" else "ufo", (), "lib", ())]
        ref_ok[d["id"]] = ref["res"] != "fail"
        rej = verdicts.get(rec["i"], [])
        hard = [x for x in rej if x[0].startswith("H:")]
        if hard:
            raise common.ToolError("recorded behaviour of %s is not a behaviour of Routes.tla: %s" % (d["id"], hard))
        bad_walks = {wes[k - 1][0] for reason, k in rej if reason in PROPERTY_REASONS}
        ev.traces += len(ws) - len(bad_walks)
        if ref_ok[d["id"]]:
            for w in ws:
                ev.nontrivial_add("%s:%s" % (d["id"], json.dumps(w["steps"], sort_keys=True)))
        for reason, k in rej:
            cur = rec["ev"][k - 1]
            if reason in INTERNAL_REASONS:
                ctx.drift("Routes", "%s: %s at event %d (walk %s; observed kind=%r res=%s)" % (
                    d["id"], reason, k, json.dumps(wes[k - 1][1]["steps"]), cur.get("kind"), cur.get("res")[:20]))
                continue
            if reason not in PROPERTY_REASONS:
                raise common.ToolError("unknown verdict %s" % reason)
            report(ctx, runner, rec, d, wes, k)
    if not ctx.replay and sum(ref_ok.values()) * 2 < len(ref_ok):
        raise common.ToolError("only %d of %d designs compile through the reference route: the comparison would be "
                               "vacuous" % (sum(ref_ok.values()), len(ref_ok)))
    good = next(((rec, d) for rec, d, ws, wes in recs if rec["i"] not in verdicts and ref_ok[d["id"]]), None)
    if good:
        ev.sample({"kind": "validated behaviour (first 12 events)", "design": good[1]["id"], "class": good[1]["cls"],
                   "events": good[0]["ev"][:12]})
    ev.extra["documented_exception_hits"] = {
        "memory_route_without_include_root_failed": sum(
            1 for rec, d, ws, wes in recs for e, we in zip(rec["ev"], wes)
            if e["e"] == "C" and d["cls"] == "gi" and we[2][1] == "memory" and e["res"] == "fail"),
        "designspace_without_ufo_only_lib_keys_compiles": sum(
            1 for rec, d, ws, wes in recs for e, we in zip(rec["ev"], wes)
            if e["e"] == "C" and d["cls"] == "uk" and we[2][1] == "ds")}
    ev.extra["designs_whose_reference_route_fails"] = sorted(k for k, v in ref_ok.items() if not v)[:60]
    ev.extra["presentation_notes"] = sorted(presenter.notes)[:20]
    ev.extra["disagreements_by_signature"] = dict(sorted(ctx._c20_reported.items())[:60])
    ev.exhaustive = False
    ev.assumptions += [
        "the re-formatters (checks/c20.py os_reformat / xml_reformat) only change what the OpenStep plist / XML "
        "formats declare insignificant; the package splitter copies source spans verbatim",
        "fixtures shipped as both X.glyphs and X.glyphspackage describe the same design",
        "SOURCE_DATE_EPOCH=%s for every build; CLI and library are built from the same tree" % EPOCH,
        "walks are sampled per design (seeded); the walk set itself is exhaustive up to 3 steps per design class",
    ]
    if not ctx.replay:
        th.join()
        if "e" in mc_box:
            raise mc_box["e"]


def minimise(ctx, runner, d, wa, wb, names):
    """-> (cause, presentation A, presentation B, result A, result B) or None. wa/wb: ("C", container, variant,
    entry, opt) of the disagreeing compiles."""
    init = "file" if d["kind"] == "glyphs" else "ufo"
    entry0 = "lib"

    def run(container, variant, entry):
        k = Runner.key(d, container, variant, entry, names)
        if k not in runner.results:
            runner.n_minimise += 1
        runner.run_all({k: (d, container, frozenset(variant), entry, names)}, 1)
        return runner.results[k]

    def differs(x, y):
        return x["res"] != y["res"]
    try:
        base = run(init, (), entry0)
        for op in sorted(set(wa[2]) ^ set(wb[2])):
            r = run(init, (op,), entry0)
            if differs(base, r):
                return ("fmt:%s" % op, "%s[base]/%s" % (init, entry0), "%s[%s]/%s" % (init, op, entry0), base, r)
        if wa[1] != wb[1]:
            ca, cb = sorted([wa[1], wb[1]], key=lambda c: (c != init, c))
            e = "lib" if "memory" in (ca, cb) else entry0
            x, y = run(ca, (), e), run(cb, (), e)
            if differs(x, y):
                return ("container:%s~%s" % (ca, cb), "%s[base]/%s" % (ca, e), "%s[base]/%s" % (cb, e), x, y)
        if wa[3] != wb[3]:
            x, y = run(init, (), "cli"), run(init, (), "lib")
            if differs(x, y):
                return ("entry:cli~lib", "%s[base]/cli" % init, "%s[base]/lib" % init, x, y)
    except common.ToolError:
        return None
    return None


def pres_str(ev_c, we):
    return "%s[%s]/%s" % (we[1], "+".join(sorted(we[2])) or "base", we[3])


def report(ctx, runner, rec, d, wes, k):
    """Event k broke SameFont: find the earliest earlier compile it disagrees with and describe the pair."""
    cur, (_wi, w, cur_we) = rec["ev"][k - 1], wes[k - 1]
    cls_of = lambda we: ("unrecognized" if we[1] == "misnamed" else
                         "noinclude" if we[1] == "memory" and d["cls"] == "gi" else
                         "dsnolib" if we[1] == "ds" and d["cls"] == "uk" else "main")
    other = None
    for j in range(k - 1):
        e, we = rec["ev"][j], wes[j][2]
        if e["e"] != "C" or e["opt"] != cur["opt"] or e["res"] == cur["res"]:
            continue
        ca, cb = cls_of(we), cls_of(cur_we)
        if ca == cb or {ca, cb} == {"noinclude", "main"}:
            other = (e, we)
            break
    if other is None:
        raise common.ToolError("SameFont verdict without a disagreeing pair (%s event %d)" % (d["id"], k))
    names = tuple(w["opts"][cur["opt"]])
    ra = runner.results[Runner.key(d, other[1][1], other[1][2], other[1][3], names)]
    rb = runner.results[Runner.key(d, cur_we[1], cur_we[2], cur_we[3], names)]
    pa, pb = pres_str(other[0], other[1]), pres_str(cur, cur_we)
    sig = "route:%s:%s:%s~%s" % (d["id"], cur["opt"], pa, pb)
    # narrow the pair to a single cause when one exists (a few extra compiles, first violations only): one
    # formatting operation, one container change or the entry point alone, everything else at its initial value
    cause = minimise(ctx, runner, d, other[1], cur_we, names) if runner.n_minimise < 200 else None
    if cause:
        sig = "route:%s:%s" % (d["id"], cause[0])
        pa, pb, ra, rb = cause[1], cause[2], cause[3], cause[4]
    if sig in ctx._c20_reported:
        ctx._c20_reported[sig] += 1
        return
    ctx._c20_reported[sig] = 1
    if ra["res"] != "fail" and rb["res"] != "fail":
        how = "different bytes: %s" % first_diff(ra["out"], rb["out"])
    else:
        bad = ra if ra["res"] == "fail" else rb
        how = "one route builds a font, the other fails (%s: %s)" % (bad["outcome"], bad["message"].strip()[-300:])
    what = ("design %s, options %s: %s and %s disagree — %s" % (d["id"], list(names) or "default", pa, pb, how))
    ctx.violation(sig, what, dict(design=d["id"], walk=w, walks=list({id(t[1]): t[1] for t in wes}.values()),
                                  disagreeing=[pa, pb], sources=[ra["src"], rb["src"]],
                                  results=[{k2: v for k2, v in r.items() if k2 != "out"} for r in (ra, rb)],
                                  replay_cmd="bin/check C20 --tier %s --replay <this file>" % ctx.tier))
