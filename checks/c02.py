"""C02 Task-graph safety: every read is ordered after its producer in all schedules.

Decided by spec/Workload.tla:
 (T) every recorded build (several thread counts and jitter seeds) is validated as a behaviour of the
     spec with all invariants evaluated in every state (WorkloadTrace.tla);
 (M) the job graph extracted from the recorded builds of /repo's working tree (declared accesses, dynamic
     creations, rewrites, also-completes, priorities and the *observed* context reads/writes) becomes the
     constants of Workload.tla: every ancestor-closed slice small enough is model-checked exhaustively
     (all interleavings of launch / start / finish+decrement / send / receive / handle_success) and the
     whole graph is explored by random simulation;
 (O) conflicting jobs that were observed overlapping, or in different orders in different runs, are
     reported directly.
"""
import json, os, concurrent.futures
import common, graphs, sched

PROPERTY_INVARIANTS = {"OrderOK", "ReadsFromCanonical", "NoSchedulerPanic", "NoUnable", "NoHang"}


def main(ctx):
    common.build_harness()
    ev = ctx.ev
    quick = ctx.quick
    if quick:
        sources = list(sched.QUICK_SOURCES)
        configs = [(1, 0), (4, ctx.seed * 7 + 1), (16, ctx.seed * 7 + 2)]
        sim_sources, sim_n, slice_max, slice_timeout, slice_sources = 2, 25, 9, 300, 3
    else:
        fx = [f for f in common.fixtures() if not f.endswith(".ufo") or "/" not in f]
        sources = list(sched.QUICK_SOURCES) + [(f, []) for f in fx if f not in [s for s, _ in sched.QUICK_SOURCES]]
        configs = [(1, 0), (2, ctx.seed * 7 + 1), (4, ctx.seed * 7 + 2), (16, ctx.seed * 7 + 3), (16, 0),
                   (3, ctx.seed * 7 + 4)]
        sim_sources, sim_n, slice_max, slice_timeout, slice_sources = 6, 150, 10, 900, 5
    sources += [(p, fl) for (_label, p, fl) in sched.scheduler_minifonts(ctx)]
    common.log("tracing %d sources x %d configs" % (len(sources), len(configs)))
    builds = sched.traced_builds(ctx, sources, configs)

    vjobs = []
    graphs_by_src = {}
    ref_graphs = {}
    n_ok_sources = 0
    for key, runs in builds.items():
        rel, flags = key
        ref = runs[0]
        if ref["res"].get("outcome") != "ok":
            # not a valid source for this property (it must compile in the reference configuration) ...
            msg = ref["res"].get("message", "")
            if any(p in msg for p in sched.SCHED_PANICS):
                # ... unless it fails *because of* the scheduler
                ctx.violation("sched-panic:%s:%s" % (rel, msg[:80]),
                              "%s fails in the sequential reference run with a scheduler panic: %s" % (rel, msg),
                              dict(source=rel, flags=flags, config=ref["cfg"], result=ref["res"]))
            continue
        n_ok_sources += 1
        for run in runs[1:]:
            res = run["res"]
            if res.get("outcome") != "ok":
                ctx.violation("sched-fail:%s:%s" % (rel, res.get("message", "")[:80]),
                              "%s compiles sequentially but fails with threads=%s jitter=%s: %s %s" %
                              (rel, run["cfg"][0], run["cfg"][1], res.get("outcome"), res.get("message", "")),
                              dict(source=rel, flags=flags, config=run["cfg"], result=res))
        good = [r for r in runs if r["res"].get("outcome") == "ok"]
        gs = [sched.load_graph(r) for r in good]
        gj, problems = graphs.build(gs[0], gs[1:])
        for p in problems:
            ctx.violation("%s:%s:%s<>%s" % (p["kind"], rel, p["a"], p["b"]),
                          "%s: jobs %s and %s both touch %s (one writing) and were observed %s" %
                          (rel, p["a"], p["b"], p["items"][:4],
                           "running at the same time" if p["kind"] == "overlap" else "in different orders in different runs"),
                          dict(source=rel, flags=flags, problem=p))
        gpath = ctx.path("graphs", "%s.json" % (rel + "".join("+" + f for f in flags)).replace("/", "_"))
        json.dump(gj, open(gpath, "w"))
        graphs_by_src[key] = (gj, gpath)
        ref_graphs[key] = gs[0]
        n_conf = sum(len(b) for b in gj["before"])
        ev.nontrivial_add("%s:%d jobs:%d ordered conflict pairs" % (rel, gj["n"], n_conf))
        # all recorded builds of this source go into one log, separated by Reset events (one JVM start)
        tpath = ctx.path("sched", "%s.ndjson" % (rel + "".join("+" + f for f in flags)).replace("/", "_"))
        tr = []
        for k, (run, g) in enumerate(zip(good, gs)):
            if k:
                tr.append({"ev": "Reset"})
            tr += graphs.scheduler_trace(g, gj)
        graphs.write_ndjson(tpath, tr)
        vjobs.append((dict(source=rel, flags=flags, config=[r["cfg"] for r in good], events=len(tr), builds=len(good)),
                      gpath, tpath))
    if n_ok_sources == 0:
        raise common.ToolError("no source compiled")

    # (T) trace validation
    common.log("validating %d recorded builds against WorkloadTrace.tla" % len(vjobs))
    for label, status, r in sched.validate_traces(ctx, vjobs):
        ev.evaluations += 1
        if status == "accepted":
            ev.traces += label.get("builds", 1)
            continue
        tpath = [j[2] for j in vjobs if j[0] is label][0]
        k, e = sched.stuck_at(r, tpath)
        if status.startswith("invariant:"):
            inv = status.split(":", 1)[1]
            text = "recorded build of %s (configs %s): invariant %s of Workload.tla is violated at event %s" % (
                label["source"], label["config"], inv, k)
            if inv in PROPERTY_INVARIANTS:
                ctx.violation("trace-inv:%s:%s" % (label["source"], inv), text,
                              dict(label=label, trace=tpath, tlc=common.tlc_trace_text(r.out)[-6000:]))
            else:
                ctx.drift("WorkloadTrace", text)
        elif status == "stuck":
            text = "recorded build of %s (configs %s): event %s %s is not a step of Workload.tla" % (
                label["source"], label["config"], k, e)
            if e and e.get("ev") in ("Launch", "Unable"):
                # the scheduler launched a job (or gave up) where the spec's can_run / give-up guard says no
                ctx.violation("trace-guard:%s:%s" % (label["source"], e.get("ev")), text,
                              dict(label=label, trace=tpath, stuck_at=k, event=e))
            else:
                ctx.drift("WorkloadTrace", text)
        else:
            raise common.ToolError("trace validation failed for %s: %s" % (label, (r.error or "timeout")))
    ev.sample({"kind": "validated trace", "label": vjobs[0][0],
               "first_events": open(vjobs[0][2]).read().splitlines()[:12]})

    # (T') context-access logs against spec/Context.tla (ACLs, presence, persistence); it also counts the
    # BE -> FE reads that a job's declared access does not cover (the unchecked read-only view)
    import re as _re

    def ctx_validate(item):
        key, g = item
        gj, gpath = graphs_by_src[key]
        lp = ctx.path("ctxlog", "%s.ndjson" % (key[0] + "".join("+" + f for f in key[1])).replace("/", "_"))
        graphs.write_ndjson(lp, graphs.context_log(g, gj))
        r = common.run_tlc(ctx, "Context", "Context.cfg", workers=1, timeout=900, xmx="2g", deque=True,
                           env={"GRAPH": gpath, "CTXLOG": lp}, tag="context")
        return key, gj, r

    undeclared = {}
    n_ctx = 0
    with concurrent.futures.ThreadPoolExecutor(6) as ex:
        for key, gj, r in ex.map(ctx_validate, list(ref_graphs.items())):
            if r.violated == "Consistent":
                m = _re.findall(r'<<(\d+), "([^"]+)">>', r.out)
                ctx.drift("Context", "context log of %s is not a behaviour of Context.tla: %s" % (key[0], sorted(set(x[1] for x in m))[:4]))
                continue
            if r.violated != "NotAccepted":
                raise common.ToolError("Context.tla validation of %s failed: %s" % (key[0], r.error or r.violated or "stuck"))
            n_ctx += 1
            blk = r.out[r.out.find('<< "CTX"'):].split("Error")[0] if '<< "CTX"' in r.out else ""
            for j, x in _re.findall(r"<<(\d+), (\d+)>>", blk):
                pair = (gj["names"][int(j) - 1].split("(")[1].rstrip(")") if "(" in gj["names"][int(j) - 1] else gj["names"][int(j) - 1],
                        gj["itemdisc"][int(x) - 1])
                undeclared[pair] = undeclared.get(pair, 0) + 1
    ev.traces += n_ctx
    ev.extra["context_logs_validated"] = n_ctx
    ev.extra["undeclared_be_to_fe_reads"] = sorted("%s reads %s" % p for p in undeclared)[:60]

    # (M) model checking of extracted graphs
    keys = list(graphs_by_src.keys())

    import hashlib as _hl

    def slice_key(sg):
        d = {k: v for k, v in sg.items() if k not in ("names", "items")}
        return _hl.sha1(json.dumps(d, sort_keys=True).encode()).hexdigest()

    seen_slices = set()

    def report_model(rel, what, r, gpath):
        if r.violated in PROPERTY_INVARIANTS or r.violated == "Deadlock":
            ctx.violation("model:%s:%s" % (rel, r.violated),
                          "job graph extracted from %s: TLC found a schedule violating %s (%s)" % (rel, r.violated, what),
                          dict(source=rel, graph=gpath, tlc=common.tlc_trace_text(r.out)[-8000:]))
        elif r.violated:
            ctx.drift("Workload", "graph of %s: internal invariant %s violated (%s)" % (rel, r.violated, what))
        elif r.error:
            raise common.ToolError("TLC error on graph of %s: %s" % (rel, r.error))

    # exhaustive BFS of ancestor-closed slices
    sl_jobs = []
    # the first fixtures plus every generated source (their graphs are small and exercise the dynamic parts)
    model_keys = keys[:slice_sources] + [k for k in keys[slice_sources:] if "/minifonts/" in k[0]]
    for key in model_keys:
        gj, gpath = graphs_by_src[key]
        per_source = 0
        for n, (c, real, name) in enumerate(graphs.slices(gj, slice_max)):
            if "/minifonts/" in key[0]:
                per_source += 1
                if per_source > (2 if quick else 6):
                    break
            if real < 3:
                continue
            sg = graphs.slice_graph(gj, c)
            if slice_key(sg) in seen_slices:   # the same sub-graph again (another option set / source)
                continue
            seen_slices.add(slice_key(sg))
            sp = ctx.path("slices", "%s_%d.json" % ((key[0] + "".join("+" + f for f in key[1])).replace("/", "_"), n))
            json.dump(sg, open(sp, "w"))
            sl_jobs.append((key[0], name, real, sp))
    # biggest first, bounded number
    sl_jobs.sort(key=lambda j: -j[2])
    fixture_jobs = [j for j in sl_jobs if "/minifonts/" not in j[0]][: (4 if quick else 14)]
    sl_jobs = fixture_jobs + [j for j in sl_jobs if "/minifonts/" in j[0]][: (6 if quick else 16)]
    common.log("exhaustive model checking of %d graph slices" % len(sl_jobs))

    def bfs(job):
        rel, name, real, sp = job
        r = common.run_tlc(ctx, "Workload", "MCWorkloadGraph.cfg", workers=4, timeout=slice_timeout, xmx="6g",
                           env={"GRAPH": sp}, tag="slice")
        return job, r

    all_complete = True
    with concurrent.futures.ThreadPoolExecutor(3) as ex:
        for job, r in ex.map(bfs, sl_jobs):
            rel, name, real, sp = job
            report_model(rel, "slice of %s, %d executing jobs, exhaustive" % (name, real), r, sp)
            if not r.complete:
                all_complete = False
            ev.evaluations += 1
            ev.sample({"kind": "slice", "source": rel, "target": name, "executing_jobs": real,
                       "distinct_states": r.distinct, "complete": r.complete}, limit=8)
    ev.extra["slices_complete"] = all_complete

    # larger ancestor-closed slices under the lazy-send reduction (SpecLazy): breadth-first over the behaviours
    # in which completion messages are delivered as late as possible
    lazy_max = 18 if quick else 22
    lz_jobs = []
    for key in model_keys:
        gj, gpath = graphs_by_src[key]
        big = [s_ for s_ in graphs.slices(gj, lazy_max, keep_nested=True) if s_[1] > slice_max]
        # the gather points of the dynamic protocols first (glyf/gvar after GlyphOrder, kerning after
        # GatherIrKerning, feature compilation), then the largest others
        prio = ["Be(GatherBeKerning)", "Be(Glyf)", "Be(Gvar)", "Be(Features)", "Be(Marks)", "Be(GatherIrKerning)"]
        big.sort(key=lambda s_: (prio.index(s_[2]) if s_[2] in prio else len(prio), -s_[1]))
        for n, (c, real, name) in enumerate(big[: (4 if quick else 6)]):
            sg = graphs.slice_graph(gj, c)
            if slice_key(sg) in seen_slices:
                continue
            seen_slices.add(slice_key(sg))
            sp = ctx.path("lazy", "%s_%d.json" % ((key[0] + "".join("+" + f for f in key[1])).replace("/", "_"), n))
            json.dump(sg, open(sp, "w"))
            lz_jobs.append((key[0], name, real, sp))
    # generated sources first (small graphs that exercise the dynamic parts), smaller slices first
    lz_jobs.sort(key=lambda j: ("/minifonts/" not in j[0], j[2]))
    lz_jobs = lz_jobs[: (12 if quick else 30)]
    common.log("lazy-send model checking of %d larger slices" % len(lz_jobs))

    def lazy(job):
        rel, name, real, sp = job
        return job, common.run_tlc(ctx, "Workload", "MCWorkloadLazy.cfg", workers=4, timeout=600 if quick else 1800,
                                   xmx="6g", env={"GRAPH": sp}, tag="lazy")

    n_lazy_complete = 0
    with concurrent.futures.ThreadPoolExecutor(3) as ex:
        for job, r in ex.map(lazy, lz_jobs):
            rel, name, real, sp = job
            if r.timed_out:
                continue
            report_model(rel, "slice of %s, %d executing jobs, lazy-send reduction" % (name, real), r, sp)
            n_lazy_complete += bool(r.complete)
            ev.evaluations += 1
            ev.sample({"kind": "lazy slice", "source": rel, "target": name, "executing_jobs": real,
                       "distinct_states": r.distinct, "complete": r.complete}, limit=10)
    ev.extra["lazy_slices"] = {"run": len(lz_jobs), "complete": n_lazy_complete}

    # simulation of whole graphs
    common.log("simulating %d whole graphs" % min(sim_sources, len(keys)))
    for key in keys[:sim_sources] + [k for k in keys[sim_sources:] if "own-notdef" in k[0] or "varying-components" in k[0]]:
        gj, gpath = graphs_by_src[key]
        r = common.run_tlc(ctx, "Workload", "MCWorkloadSim.cfg", workers=8, timeout=600, xmx="4g",
                           env={"GRAPH": gpath}, simulate=sim_n, depth=4000, tag="sim")
        report_model(key[0], "whole graph, simulation", r, gpath)
        ev.evaluations += 1
    ev.exhaustive = False
    ev.rule = ("cases = recorded builds (source x thread count x jitter seed) validated against WorkloadTrace.tla, "
               "plus extracted job graphs model-checked with Workload.tla (slices exhaustively, whole graphs by "
               "simulation); non-trivial = distinct (source, job count, number of ordered conflicting job pairs)")
    ev.assumptions = [
        "context accesses of a job are those observed in the recorded runs of the same source (hook H1)",
        "a job's exec is one interval; conflicts are folded into G.before",
        "exhaustive interleavings only for slices <= %d executing jobs; whole graphs are simulated" % slice_max,
    ]
