"""C03 Outlines at every master location reproduce that master's drawing.

 (G) spec/Instancing.tla generates abstract variable fonts (master layouts on the half grid, 1-3 axes, <= 5
     masters; line / quadratic / cubic / composite / nested composite glyphs; sparse sources and glyph-specific
     intermediate layers; vertical metrics on/off; values giving .5 ties) with the expected rounded master
     values, and checks on the specification (VarModel.tla) that rounded-delta accumulation reproduces every
     master within 1/2 and the default exactly;
 (R) every case is materialised (UFO + designspace), compiled by the real compiler, and measured: outlines drawn
     by skrifa at every source location of every glyph, gvar tuple regions, component offsets, and - for cubic
     sources - the same glyph compiled as a static build of that source alone;
 (O) spec/InstancingObs.tla evaluates the acceptance relation (|font - Round(master)| <= 1/2 + 1/2 * sum of the
     active region scalars, exact at the default, composites level by level) on every observation record;
     repository designspace fixtures are validated the same way against static builds of their masters.
"""
import json, os
import common
import instancing_common as ic


def main(ctx):
    common.build_harness()
    ev = ctx.ev
    ev.rule = ("a generated font counts as non-trivial when at least one raw delta of one of its glyph columns is an "
               "exact .5 tie (design-level evaluation of VarModel) or one of its glyphs has a sparse / glyph-specific "
               "source set; a fixture counts when it has at least one non-default full master")
    if ctx.replay:
        rp = json.load(open(ctx.replay))["replay"]
        cases = [rp["case"]] if "case" in rp else []
        fixtures = [rp["fixture"]] if "fixture" in rp else []
    else:
        cases = ic.gen_cases(ctx, "C03")
        fixtures = None
        lim = int(os.environ.get("INST_LIMIT", "0") or "0")      # debugging aid: only every n-th case
        if lim:
            cases = cases[::lim]
    by_id = {c["id"]: c for c in cases}
    problems = {}

    def build(c, m, om):
        rec, probs = ic.obs_outline(c, m, om)
        if probs:
            problems[c["id"]] = probs
        return rec

    recs, stats = ic.pipeline(ctx, "C03", cases, ["outline"], build)
    for cid, probs in problems.items():
        for p in probs:
            ctx.drift("Instancing", "%s: %s" % (cid, p))
    verdicts = ic.run_obs(ctx, recs, "gen") if recs else {}
    notes = {}
    for rec in recs:
        c = by_id[rec["id"]]
        fails = verdicts[rec["id"]]
        ic.report(ctx, "C03", rec["id"], fails, {"case": c}, notes)
        ev.traces += 1
        ev.evaluations += 1
        ev.extra["glyph_location_evaluations"] = ev.extra.get("glyph_location_evaluations", 0) + \
            sum(len(g["at"]) for g in rec["glyphs"] if g["kind"] != "skip")
        notes["tuples_with_deltas_left_to_iup"] = notes.get("tuples_with_deltas_left_to_iup", 0) + \
            sum(g.get("nondense", 0) for g in rec["glyphs"] if g["kind"] in ("line", "quad", "cubic"))
        notes["tuples_of_simple_glyphs"] = notes.get("tuples_of_simple_glyphs", 0) + \
            sum(len(g["tuples"]) for g in rec["glyphs"] if g["kind"] in ("line", "quad", "cubic"))
        ties = sum(max(0, g.get("ties", 0)) for g in c["glyphs"])
        sparse = any(len(g["srcs"]) != len(c["masters"]) or any(s["m"] == 0 for s in g["srcs"]) for g in c["glyphs"])
        if ties > 0 or sparse:
            ev.nontrivial_add(rec["id"])
    if recs:
        r0 = recs[0]
        ev.sample({"kind": "generated case", "id": r0["id"], "masters": by_id[r0["id"]]["masters"],
                   "glyphs": [{"name": g["name"], "kind": g["kind"], "sources": len(g["at"]), "tuples": len(g["tuples"])}
                              for g in r0["glyphs"]], "failures": verdicts[r0["id"]]})
    ev.extra["generated_fonts"] = len(recs)
    ev.extra["notes"] = notes
    ev.extra["mean_compile_ms"] = round(stats["compile_ms"] / max(1, stats["compiled"]), 1)

    # (O) repository fixtures
    if not ctx.replay or fixtures:
        ic.fixtures_check(ctx, "C03", "outline", only=fixtures)
